/-
  Proofs/Lengths.lean — the length bookkeeping of the packet writers: the Remaining Length and Property
  Length a packet announces are exactly the number of bytes its steps then write.
-/
import GV.Proofs.Vli
import GV.Model.Encode
namespace GV

/-- bytes a step writes (a VLI out of range writes nothing: the encoder fails there) -/
def stepLen : Step → Nat
  | .u8 _ => 1
  | .u16 _ => 2
  | .u32 _ => 4
  | .vli v => (vliSize v).getD 0
  | .slice b => b.length

def stepsLen (l : List Step) : Nat := (l.map stepLen).sum

@[simp] theorem stepsLen_nil : stepsLen [] = 0 := rfl
@[simp] theorem stepsLen_cons (s : Step) (l : List Step) : stepsLen (s :: l) = stepLen s + stepsLen l := by
  simp [stepsLen]
@[simp] theorem stepsLen_append (a b : List Step) : stepsLen (a ++ b) = stepsLen a + stepsLen b := by
  simp [stepsLen]

theorem encodeVli_length (v : Nat) (bs : Bytes) (h : encodeVli v = some bs) : vliSize v = some bs.length := by
  have hle : v ≤ maxVli := by
    by_cases hgt : v > maxVli
    · have := (encodeVli_none_iff v).mpr hgt; rw [this] at h; cases h
    · omega
  rw [encodeVli_eq_spec v hle] at h
  cases h
  exact vliSize_eq_length v hle

theorem atomBytes_length (s : Step) (bs : Bytes) (h : atomBytes s = some bs) : bs.length = stepLen s := by
  cases s with
  | u8 v => simp [atomBytes] at h; subst h; rfl
  | u16 v => simp [atomBytes] at h; subst h; rfl
  | u32 v => simp [atomBytes] at h; subst h; rfl
  | vli v => simp only [atomBytes] at h; simp [stepLen, encodeVli_length v bs h]
  | slice b => simp [atomBytes] at h; subst h; rfl

/-- what the steps write is as long as their lengths add up to -/
theorem flattenSteps_length : ∀ (l : List Step) (bs : Bytes), flattenSteps l = some bs → bs.length = stepsLen l
  | [], bs, h => by simp [flattenSteps] at h; subst h; rfl
  | s :: rest, bs, h => by
    simp only [flattenSteps] at h
    cases ha : atomBytes s with
    | none => simp [ha] at h
    | some a =>
      cases hb : flattenSteps rest with
      | none => simp [ha, hb] at h
      | some b =>
        simp only [ha, hb, Option.some.injEq] at h
        subst h
        simp [atomBytes_length s a ha, flattenSteps_length rest b hb]

/-! ### the helpers' lengths -/

theorem stOptNum_u8_len (k : Nat) (o : Option Nat) : stepsLen (stOptNum .u8 k o) = optLen 2 o := by
  cases o <;> simp [stOptNum, optLen, stepLen]
theorem stOptNum_u16_len (k : Nat) (o : Option Nat) : stepsLen (stOptNum .u16 k o) = optLen 3 o := by
  cases o <;> simp [stOptNum, optLen, stepLen]
theorem stOptNum_u32_len (k : Nat) (o : Option Nat) : stepsLen (stOptNum .u32 k o) = optLen 5 o := by
  cases o <;> simp [stOptNum, optLen, stepLen]
theorem stOptBytesProp_len (k : Nat) (o : Option Bytes) : stepsLen (stOptBytesProp k o) = optBytesPropLen o := by
  cases o <;> simp [stOptBytesProp, optBytesPropLen, stepLen]; omega
theorem stLenBytes_len (b : Bytes) : stepsLen (stLenBytes b) = 2 + b.length := by
  simp [stLenBytes, stepLen]

theorem userProps_foldl (ps : List UserProperty) (acc : Nat) :
    ps.foldl (fun acc p => acc + 5 + p.name.length + p.value.length) acc =
      acc + ps.foldl (fun acc p => acc + 5 + p.name.length + p.value.length) 0 := by
  induction ps generalizing acc with
  | nil => simp
  | cons p r ih => simp only [List.foldl]; rw [ih, ih (0 + 5 + p.name.length + p.value.length)]; omega

theorem stUserProps_len (ups : UserProps) : stepsLen (stUserProps ups) = userPropsLen ups := by
  cases ups with
  | none => rfl
  | some ps =>
    simp only [stUserProps, userPropsLen]
    induction ps with
    | nil => rfl
    | cons p r ih =>
      simp only [List.flatMap_cons, stepsLen_append, ih, List.foldl]
      rw [userProps_foldl r (0 + 5 + p.name.length + p.value.length)]
      simp [stUserProp, stepLen]; omega

theorem subIds_foldl (ids : List Nat) (acc : Option Nat) :
    ids.foldl subIdStep acc =
      (match acc, ids.foldl subIdStep (some 0) with
       | some a, some t => some (a + t)
       | _, _ => none) := by
  induction ids generalizing acc with
  | nil => cases acc <;> simp
  | cons v r ih =>
    simp only [List.foldl]
    rw [ih, ih (subIdStep (some 0) v)]
    cases acc with
    | none => simp [subIdStep]
    | some a =>
      cases hv : vliSize v with
      | none => simp [subIdStep, hv]
      | some s =>
        simp only [subIdStep, hv]
        cases List.foldl subIdStep (some 0) r with
        | none => rfl
        | some t => simp; omega

theorem stSubIds_len (ids : Option (List Nat)) (n : Nat) (h : subIdsLen ids = some n) : stepsLen (stSubIds ids) = n := by
  cases ids with
  | none => simp [subIdsLen] at h; subst h; rfl
  | some l =>
    simp only [subIdsLen] at h
    simp only [stSubIds]
    induction l generalizing n with
    | nil => simp at h; subst h; rfl
    | cons v r ih =>
      simp only [List.foldl] at h
      rw [subIds_foldl] at h
      cases hv : vliSize v with
      | none => simp [subIdStep, hv] at h
      | some s =>
        simp only [subIdStep, hv] at h
        cases hr : List.foldl subIdStep (some 0) r with
        | none => simp [hr] at h
        | some t =>
          simp only [hr, Option.some.injEq] at h
          simp only [List.flatMap_cons, stepsLen_append, ih t hr]
          simp [stepLen, hv]; omega

/-! ### PUBLISH -/


def publishPre (p : Publish) (r : Resolution) : List Step :=
  (if r.skipTopic then [Step.u16 0] else stLenBytes p.topic) ++ (if p.qos ≠ 0 then [Step.u16 p.packetId] else [])
def publishProps (p : Publish) (r : Resolution) : List Step :=
  stOptNum .u8 1 p.payloadFormat ++ stOptNum .u32 2 p.messageExpiry ++ stOptNum .u16 35 r.alias
    ++ stOptBytesProp 8 p.responseTopic ++ stOptBytesProp 9 p.correlationData ++ stSubIds p.subscriptionIds
    ++ stOptBytesProp 3 p.contentType ++ stUserProps p.userProps
def payloadSteps (p : Publish) : List Step := match p.payload with | none => [] | some b => [Step.slice b]
def payloadLen (p : Publish) : Nat := match p.payload with | none => 0 | some b => b.length

theorem payloadSteps_len (p : Publish) : stepsLen (payloadSteps p) = payloadLen p := by
  unfold payloadSteps payloadLen; cases p.payload <;> simp [stepLen]

theorem publishPre_len (p : Publish) (r : Resolution) :
    stepsLen (publishPre p r) = 2 + (if r.skipTopic then 0 else p.topic.length) + (if p.qos ≠ 0 then 2 else 0) := by
  unfold publishPre
  rw [stepsLen_append]
  have h1 : stepsLen (if r.skipTopic then [Step.u16 0] else stLenBytes p.topic) = 2 + (if r.skipTopic then 0 else p.topic.length) := by
    split <;> simp [stLenBytes, stepLen]
  have h2 : stepsLen (if p.qos ≠ 0 then [Step.u16 p.packetId] else []) = (if p.qos ≠ 0 then 2 else 0) := by
    split <;> simp [stepLen]
  rw [h1, h2]

theorem publishProps_len (p : Publish) (r : Resolution) (sidLen : Nat) (hsid : subIdsLen p.subscriptionIds = some sidLen) :
    stepsLen (publishProps p r) = userPropsLen p.userProps + optLen 2 p.payloadFormat + optLen 5 p.messageExpiry
      + optLen 3 r.alias + optBytesPropLen p.contentType + optBytesPropLen p.responseTopic
      + optBytesPropLen p.correlationData + sidLen := by
  unfold publishProps
  simp only [stepsLen_append, stOptNum_u8_len, stOptNum_u32_len, stOptNum_u16_len, stOptBytesProp_len,
    stSubIds_len _ _ hsid, stUserProps_len]
  omega

theorem publishSteps5_shape (p : Publish) (r : Resolution) (rl pl : Nat) (h : publishLengths5 p r = some (rl, pl)) :
    publishSteps5 p r = some ([Step.u8 (publishFirstByte p), .vli rl] ++ publishPre p r ++ [Step.vli pl] ++ publishProps p r ++ payloadSteps p) := by
  simp only [publishSteps5, h, publishPre, publishProps, payloadSteps, List.append_assoc]
  cases p.payload <;> rfl

end GV

namespace GV

/-! ### SUBSCRIBE / UNSUBSCRIBE / DISCONNECT -/

theorem filters_foldl (l : List Bytes) (acc : Nat) : l.foldl (fun acc x => acc + x.length) acc = acc + l.foldl (fun acc x => acc + x.length) 0 := by
  induction l generalizing acc with
  | nil => simp
  | cons x r ih => simp only [List.foldl]; rw [ih, ih (0 + x.length)]; omega

theorem unsub_filters_len (l : List Bytes) : stepsLen (l.flatMap stLenBytes) = l.length * 2 + l.foldl (fun acc x => acc + x.length) 0 := by
  induction l with
  | nil => rfl
  | cons x r ih =>
    simp only [List.flatMap_cons, stepsLen_append, stLenBytes_len, ih, List.foldl, List.length_cons]
    rw [filters_foldl r (0 + x.length)]
    omega

theorem subs_foldl (l : List Subscription) (acc : Nat) :
    l.foldl (fun acc x => acc + x.topicFilter.length) acc = acc + l.foldl (fun acc x => acc + x.topicFilter.length) 0 := by
  induction l generalizing acc with
  | nil => simp
  | cons x r ih => simp only [List.foldl]; rw [ih, ih (0 + x.topicFilter.length)]; omega

theorem sub_entries_len (l : List Subscription) (opt : Subscription → Nat) :
    stepsLen (l.flatMap (fun s => stLenBytes s.topicFilter ++ [Step.u8 (opt s)])) =
      l.length * 3 + l.foldl (fun acc x => acc + x.topicFilter.length) 0 := by
  induction l with
  | nil => rfl
  | cons x r ih =>
    simp only [List.flatMap_cons, stepsLen_append, stLenBytes_len, ih, List.foldl, List.length_cons, stepsLen_cons, stepsLen_nil, stepLen]
    rw [subs_foldl r (0 + x.topicFilter.length)]
    omega

theorem stOptNum_vli_len (k : Nat) (o : Option Nat) (n : Nat) (h : optVliPropLen o = some n) : stepsLen (stOptNum .vli k o) = n := by
  cases o with
  | none => simp [optVliPropLen] at h; subst h; rfl
  | some v =>
    simp only [optVliPropLen] at h
    cases hv : vliSize v with
    | none => simp [hv] at h
    | some s => simp [hv] at h; subst h; simp [stOptNum, stepLen, hv]; omega

end GV
