/- Proofs/Lru.lean — the LRU outbound alias resolver keeps the server's alias table and its own cache consistent -/
import GV.Model.Alias
import GV.Proofs.AList
namespace GV

/-- the alias table a conformant server builds from what is sent: a PUBLISH with a topic and an alias binds it -/
def serverApply (S : List (Nat × Bytes)) (res : Resolution) (topic : Bytes) : List (Nat × Bytes) :=
  match res.alias with
  | some a => if res.skipTopic then S else (a, topic) :: S.filter (fun e => e.1 != a)
  | none => S

/-- the topic the server reconstructs for a PUBLISH sent under this resolution -/
def serverTopic (S : List (Nat × Bytes)) (res : Resolution) (topic : Bytes) : Option Bytes :=
  if res.skipTopic then (match res.alias with | some a => S.lookup a | none => none) else some topic

/-- cache invariant: every cached (topic, alias) pair is bound on the server, aliases are distinct, topics are
    distinct, aliases lie in 1..maxAlias and the cache holds at most maxAlias entries -/
structure LruInv (r : OutResolver) (S : List (Nat × Bytes)) : Prop where
  bound : ∀ t a, (t, a) ∈ r.cache → S.lookup a = some t
  aliasesNodup : (r.cache.map (·.2)).Nodup
  topicsNodup : (r.cache.map (·.1)).Nodup
  inRange : ∀ t a, (t, a) ∈ r.cache → 1 ≤ a ∧ a ≤ r.cache.length
  size : r.cache.length ≤ r.maxAlias

theorem lookup_mem {α β} [BEq α] [LawfulBEq α] (l : List (α × β)) (k : α) (v : β) (h : l.lookup k = some v) : (k, v) ∈ l := by
  induction l with
  | nil => simp [List.lookup] at h
  | cons x xs ih =>
    obtain ⟨k', v'⟩ := x
    simp only [List.lookup] at h
    cases hk : k == k' with
    | true =>
      simp only [hk] at h
      have : k = k' := by simpa using hk
      cases h; subst this; exact List.mem_cons_self ..
    | false =>
      simp only [hk] at h
      exact List.mem_cons_of_mem _ (ih h)

theorem mem_lookup_of_nodup {α β} [BEq α] [LawfulBEq α] (l : List (α × β)) (k : α) (v : β)
    (hn : (l.map (·.1)).Nodup) (h : (k, v) ∈ l) : l.lookup k = some v := by
  induction l with
  | nil => cases h
  | cons x xs ih =>
    obtain ⟨k', v'⟩ := x
    simp only [List.map_cons, List.nodup_cons] at hn
    rcases List.mem_cons.mp h with h1 | h1
    · cases h1; simp [List.lookup]
    · have hne : (k == k') = false := by
        simp only [beq_eq_false_iff_ne, ne_eq]
        intro heq; subst heq
        exact hn.1 (List.mem_map.mpr ⟨(k, v), h1, rfl⟩)
      simp only [List.lookup, hne]
      exact ih hn.2 h1

theorem nodup_map_filter {α β} (f : α → β) (p : α → Bool) (l : List α) (h : (l.map f).Nodup) : ((l.filter p).map f).Nodup := by
  induction l with
  | nil => exact List.nodup_nil
  | cons x xs ih =>
    simp only [List.map_cons, List.nodup_cons] at h
    simp only [List.filter]
    split
    · simp only [List.map_cons, List.nodup_cons]
      refine ⟨?_, ih h.2⟩
      intro hm
      obtain ⟨y, hy, hfy⟩ := List.mem_map.mp hm
      exact h.1 (List.mem_map.mpr ⟨y, (List.mem_filter.mp hy).1, hfy⟩)
    · exact ih h.2

theorem nodup_map_dropLast {α β} (f : α → β) (l : List α) (h : (l.map f).Nodup) : ((l.dropLast).map f).Nodup := by
  have : (l.dropLast).map f = (l.map f).dropLast := by simp [List.map_dropLast]
  rw [this]
  exact List.Nodup.sublist (List.dropLast_sublist _) h

end GV

namespace GV

theorem lookup_none_not_mem {α β} [BEq α] [LawfulBEq α] (l : List (α × β)) (k : α) (h : l.lookup k = none) : ∀ v, (k, v) ∉ l := by
  induction l with
  | nil => intro v hv; cases hv
  | cons x xs ih =>
    obtain ⟨k', v'⟩ := x
    simp only [List.lookup] at h
    cases hk : k == k' with
    | true => simp [hk] at h
    | false =>
      simp only [hk] at h
      intro v hv
      rcases List.mem_cons.mp hv with h1 | h1
      · cases h1; simp at hk
      · exact ih h v h1

theorem filter_ne_id {β} (l : List (Bytes × β)) (k : Bytes) (h : ∀ v, (k, v) ∉ l) : l.filter (fun e => e.1 != k) = l := by
  apply List.filter_eq_self.mpr
  intro e he
  simp only [bne_iff_ne, ne_eq]
  intro heq
  exact h e.2 (by rw [← heq]; exact he)

theorem filter_remove_one {β} (l : List (Bytes × β)) (k : Bytes) (v : β) (hn : (l.map (·.1)).Nodup) (h : (k, v) ∈ l) :
    (l.filter (fun e => e.1 != k)).length + 1 = l.length := by
  induction l with
  | nil => cases h
  | cons x xs ih =>
    obtain ⟨k', v'⟩ := x
    simp only [List.map_cons, List.nodup_cons] at hn
    rcases List.mem_cons.mp h with h1 | h1
    · cases h1
      have hnot : ∀ w, (k, w) ∉ xs := by
        intro w hw; exact hn.1 (List.mem_map.mpr ⟨(k, w), hw, rfl⟩)
      simp [List.filter, filter_ne_id xs k hnot]
    · have hne : k' ≠ k := by
        intro heq; subst heq
        exact hn.1 (List.mem_map.mpr ⟨(k', v), h1, rfl⟩)
      have : ((k', v').1 != k) = true := by simp [hne]
      simp only [List.filter, this, List.length_cons]
      have := ih hn.2 h1
      omega

/-- in a list with distinct second components, an entry is determined by its second component -/
theorem eq_of_snd_eq {α β} (l : List (α × β)) (hn : (l.map (·.2)).Nodup) (x y : α × β) (hx : x ∈ l) (hy : y ∈ l) (h : x.2 = y.2) : x = y := by
  induction l with
  | nil => cases hx
  | cons z zs ih =>
    simp only [List.map_cons, List.nodup_cons] at hn
    rcases List.mem_cons.mp hx with hx1 | hx1 <;> rcases List.mem_cons.mp hy with hy1 | hy1
    · rw [hx1, hy1]
    · exfalso; apply hn.1; rw [← hx1, h]; exact List.mem_map.mpr ⟨y, hy1, rfl⟩
    · exfalso; apply hn.1; rw [← hy1, ← h]; exact List.mem_map.mpr ⟨x, hx1, rfl⟩
    · exact ih hn.2 hx1 hy1

theorem dropLast_getLast {α} (l : List α) (e : α) (h : l.getLast? = some e) : l = l.dropLast ++ [e] := by
  induction l with
  | nil => simp at h
  | cons x xs ih =>
    cases xs with
    | nil => simp at h; subst h; rfl
    | cons y ys =>
      have : (y :: ys).getLast? = some e := by simpa [List.getLast?_cons_cons] using h
      have := ih this
      simp only [List.dropLast_cons₂, List.cons_append]
      rw [← this]

end GV

namespace GV

theorem lru_zero (r : OutResolver) (cfg : Nat) (hk : r.kind = .lru cfg) (h0 : r.maxAlias = 0) (alias : Option Nat) (topic : Bytes) :
    r.resolve alias topic = (r, {}) := by
  simp [OutResolver.resolve, hk, h0]

theorem lru_hit (r : OutResolver) (cfg : Nat) (hk : r.kind = .lru cfg) (h0 : r.maxAlias ≠ 0) (alias : Option Nat) (topic : Bytes) (a : Nat)
    (hl : r.cache.lookup topic = some a) :
    r.resolve alias topic = ({ r with cache := (topic, a) :: r.cache.filter (fun e => e.1 != topic) }, { skipTopic := true, alias := some a }) := by
  simp [OutResolver.resolve, hk, h0, hl]

theorem lru_miss (r : OutResolver) (cfg : Nat) (hk : r.kind = .lru cfg) (h0 : r.maxAlias ≠ 0) (alias : Option Nat) (topic : Bytes)
    (hl : r.cache.lookup topic = none) :
    r.resolve alias topic =
      ({ r with cache := (lruPush (lruCapacity cfg) (if r.cache.length = r.maxAlias then r.cache.dropLast else r.cache) topic
          (lruAliasFor r.cache r.maxAlias)) }, { skipTopic := false, alias := some (lruAliasFor r.cache r.maxAlias) }) := by
  simp [OutResolver.resolve, hk, h0, hl]

/-- **One resolution of the LRU resolver.**  Whatever topic is published, the server reconstructs exactly that
    topic from what is sent (full topic, or alias only), and the cache stays consistent with the server's table. -/
theorem lru_step (r : OutResolver) (S : List (Nat × Bytes)) (cfg : Nat) (hk : r.kind = .lru cfg)
    (hcap : r.maxAlias ≤ lruCapacity cfg) (inv : LruInv r S) (alias : Option Nat) (topic : Bytes) :
    let out := r.resolve alias topic
    serverTopic S out.2 topic = some topic ∧ LruInv out.1 (serverApply S out.2 topic) ∧
      out.1.kind = r.kind ∧ out.1.maxAlias = r.maxAlias ∧ (∀ a, out.2.alias = some a → 1 ≤ a ∧ a ≤ r.maxAlias) := by
  by_cases h0 : r.maxAlias = 0
  · rw [lru_zero r cfg hk h0]
    exact ⟨rfl, by simpa [serverApply] using inv, rfl, rfl, by intro a h; simp at h⟩
  · cases hl : r.cache.lookup topic with
    | some a =>
      rw [lru_hit r cfg hk h0 alias topic a hl]
      have hmem := lookup_mem r.cache topic a hl
      refine ⟨by simp [serverTopic, inv.bound topic a hmem], ?_, rfl, rfl,
        by intro b hb; simp at hb; subst hb; have := inv.inRange topic a hmem; have := inv.size; omega⟩
      simp only [serverApply]
      have hlen := filter_remove_one r.cache topic a inv.topicsNodup hmem
      refine ⟨?_, ?_, ?_, ?_, ?_⟩
      · intro t b hb
        rcases List.mem_cons.mp hb with h1 | h1
        · cases h1; exact inv.bound topic a hmem
        · exact inv.bound t b (List.mem_filter.mp h1).1
      · simp only [List.map_cons, List.nodup_cons]
        refine ⟨?_, nodup_map_filter _ _ _ inv.aliasesNodup⟩
        intro hin
        obtain ⟨y, hy, hya⟩ := List.mem_map.mp hin
        have hy' := List.mem_filter.mp hy
        have := eq_of_snd_eq r.cache inv.aliasesNodup y (topic, a) hy'.1 hmem hya
        rw [this] at hy'
        simp at hy'
      · simp only [List.map_cons, List.nodup_cons]
        refine ⟨?_, nodup_map_filter _ _ _ inv.topicsNodup⟩
        intro hin
        obtain ⟨y, hy, hyt⟩ := List.mem_map.mp hin
        have hy' := List.mem_filter.mp hy
        simp only [bne_iff_ne, ne_eq] at hy'
        exact hy'.2 hyt
      · intro t b hb
        simp only [List.length_cons]
        rcases List.mem_cons.mp hb with h1 | h1
        · cases h1; have := inv.inRange topic a hmem; omega
        · have := inv.inRange t b (List.mem_filter.mp h1).1; omega
      · simp only [List.length_cons]; have := inv.size; omega
    | none =>
      rw [lru_miss r cfg hk h0 alias topic hl]
      have hnot := lookup_none_not_mem r.cache topic hl
      have htopic : topic ∉ r.cache.map (·.1) := by
        intro hin; obtain ⟨y, hy, hyt⟩ := List.mem_map.mp hin
        exact hnot y.2 (by rw [← hyt]; exact hy)
      simp only []
      by_cases hfull : r.cache.length + 1 > r.maxAlias
      · -- full: reuse the alias of the least recently used entry
        have hlen : r.cache.length = r.maxAlias := by have := inv.size; omega
        have hne : r.cache ≠ [] := by intro he; rw [he] at hlen; simp at hlen; omega
        obtain ⟨e, he⟩ : ∃ e, r.cache.getLast? = some e := by
          cases hc : r.cache with
          | nil => exact absurd hc hne
          | cons x xs => exact ⟨_, List.getLast?_eq_some_getLast (by simp)⟩
        have hsplit := dropLast_getLast r.cache e he
        have helast : e ∈ r.cache := by rw [hsplit]; simp
        have hdl_mem : ∀ y, y ∈ r.cache.dropLast → y ∈ r.cache := fun y hy => by rw [hsplit]; exact List.mem_append_left _ hy
        have hdl_len : r.cache.dropLast.length + 1 = r.cache.length := by
          simp only [List.length_dropLast]; omega
        have hnot' : ∀ v, (topic, v) ∉ r.cache.dropLast := fun v hv => hnot v (hdl_mem _ hv)
        have ha_not : e.2 ∉ r.cache.dropLast.map (·.2) := by
          have hn := inv.aliasesNodup
          rw [hsplit, List.map_append, List.nodup_append] at hn
          intro hin
          exact hn.2.2 e.2 hin e.2 (by simp) rfl
        have hal : lruAliasFor r.cache r.maxAlias = e.2 := by simp [lruAliasFor, hfull, he]
        have hleneq : (r.cache.length = r.maxAlias) = True := by simp [hlen]
        simp only [hal, hleneq, ↓reduceIte, lruPush, filter_ne_id _ topic hnot']
        have hnodrop : ¬ (((topic, e.2) :: r.cache.dropLast).length > lruCapacity cfg) := by
          simp only [List.length_cons]; omega
        simp only [hnodrop, ↓reduceIte]
        refine ⟨by simp [serverTopic], ?_, by simp, by simp,
          by intro b hb; simp at hb; subst hb; have := inv.inRange e.1 e.2 helast; have := inv.size; omega⟩
        simp only [serverApply, Bool.false_eq_true, ↓reduceIte]
        refine ⟨?_, ?_, ?_, ?_, ?_⟩
        · intro t b hb
          rcases List.mem_cons.mp hb with h1 | h1
          · cases h1; simp [List.lookup]
          · have hbne : b ≠ e.2 := by
              intro heq; apply ha_not; rw [← heq]; exact List.mem_map.mpr ⟨(t, b), h1, rfl⟩
            have : (b == e.2) = false := by simp [hbne]
            simp only [List.lookup, this]
            rw [lookup_filter_ne S e.2 b hbne]
            exact inv.bound t b (hdl_mem _ h1)
        · simp only [List.map_cons, List.nodup_cons]
          exact ⟨ha_not, nodup_map_dropLast _ _ inv.aliasesNodup⟩
        · simp only [List.map_cons, List.nodup_cons]
          refine ⟨?_, nodup_map_dropLast _ _ inv.topicsNodup⟩
          intro hin; obtain ⟨y, hy, hyt⟩ := List.mem_map.mp hin
          exact hnot' y.2 (by rw [← hyt]; exact hy)
        · intro t b hb
          simp only [List.length_cons]
          rcases List.mem_cons.mp hb with h1 | h1
          · cases h1; have := inv.inRange e.1 e.2 helast; omega
          · have := inv.inRange t b (hdl_mem _ h1); omega
        · simp only [List.length_cons]; omega
      · -- room left: the next unused alias
        have hlt : r.cache.length < r.maxAlias := by omega
        have hneq : ¬ (r.cache.length = r.maxAlias) := by omega
        have hal : lruAliasFor r.cache r.maxAlias = r.cache.length + 1 := by simp [lruAliasFor, hfull]
        simp only [hal, hneq, ↓reduceIte, lruPush, filter_ne_id _ topic hnot]
        have hnodrop : ¬ (((topic, r.cache.length + 1) :: r.cache).length > lruCapacity cfg) := by
          simp only [List.length_cons]; omega
        simp only [hnodrop, ↓reduceIte]
        have ha_not : r.cache.length + 1 ∉ r.cache.map (·.2) := by
          intro hin; obtain ⟨y, hy, hya⟩ := List.mem_map.mp hin
          have := inv.inRange y.1 y.2 hy; omega
        refine ⟨by simp [serverTopic], ?_, by simp, by simp, by intro b hb; simp at hb; omega⟩
        simp only [serverApply, Bool.false_eq_true, ↓reduceIte]
        refine ⟨?_, ?_, ?_, ?_, ?_⟩
        · intro t b hb
          rcases List.mem_cons.mp hb with h1 | h1
          · cases h1; simp [List.lookup]
          · have hbne : b ≠ r.cache.length + 1 := by have := inv.inRange t b h1; omega
            have : (b == r.cache.length + 1) = false := by simp [hbne]
            simp only [List.lookup, this]
            rw [lookup_filter_ne S _ b hbne]
            exact inv.bound t b h1
        · simp only [List.map_cons, List.nodup_cons]; exact ⟨ha_not, inv.aliasesNodup⟩
        · simp only [List.map_cons, List.nodup_cons]; exact ⟨htopic, inv.topicsNodup⟩
        · intro t b hb
          simp only [List.length_cons]
          rcases List.mem_cons.mp hb with h1 | h1
          · cases h1; omega
          · have := inv.inRange t b h1; omega
        · simp only [List.length_cons]; omega

/-- after a reset (new connection) the invariant holds with an empty server table -/
theorem lru_reset_inv (r : OutResolver) (cfg max : Nat) (hk : r.kind = .lru cfg) :
    LruInv (r.reset max) [] ∧ (r.reset max).maxAlias ≤ lruCapacity cfg ∧ (r.reset max).kind = .lru cfg := by
  simp only [OutResolver.reset, hk]
  refine ⟨⟨?_, List.nodup_nil, List.nodup_nil, ?_, by simp⟩, ?_, trivial⟩
  · intro t a h; simp at h
  · intro t a h; simp at h
  · simp only [lruCapacity]; omega

end GV
