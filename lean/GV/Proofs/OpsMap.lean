/- Proofs/OpsMap.lean — key-sorted association lists (`mapInsert` / `mapErase` / `List.lookup`) as finite maps:
   sortedness is preserved, membership = lookup, and insertion / erasure up to permutation.  Used by the
   whole-history invariants of the engine (Proofs/EngineInv.lean). -/
import GV.Proofs.EngineBasics
namespace GV

/-- keys strictly ascending (hence duplicate-free) -/
def KeysSorted {β} (m : List (Nat × β)) : Prop := (m.map (·.1)).Pairwise (· < ·)

theorem KeysSorted.nil {β} : KeysSorted ([] : List (Nat × β)) := List.Pairwise.nil

theorem KeysSorted.tail {β} {x : Nat × β} {m : List (Nat × β)} (h : KeysSorted (x :: m)) : KeysSorted m := by
  unfold KeysSorted at *; simp only [List.map_cons, List.pairwise_cons] at h; exact h.2

theorem KeysSorted.head_lt {β} {x : Nat × β} {m : List (Nat × β)} (h : KeysSorted (x :: m)) : ∀ y ∈ m, x.1 < y.1 := by
  unfold KeysSorted at h; simp only [List.map_cons, List.pairwise_cons] at h
  intro y hy; exact h.1 y.1 (List.mem_map_of_mem hy)

theorem KeysSorted.cons {β} {x : Nat × β} {m : List (Nat × β)} (h : KeysSorted m) (hlt : ∀ y ∈ m, x.1 < y.1) : KeysSorted (x :: m) := by
  unfold KeysSorted at *; simp only [List.map_cons, List.pairwise_cons]
  refine ⟨?_, h⟩
  intro k hk
  obtain ⟨y, hy, rfl⟩ := List.mem_map.mp hk
  exact hlt y hy

theorem KeysSorted.mapErase {β} {m : List (Nat × β)} (h : KeysSorted m) (k : Nat) : KeysSorted (mapErase m k) := by
  induction m with
  | nil => exact h
  | cons x xs ih =>
    have ht := ih h.tail
    simp only [GV.mapErase, List.filter]
    split
    · refine KeysSorted.cons ht ?_
      intro y hy
      exact h.head_lt y (List.mem_filter.mp hy).1
    · exact ht

theorem mem_mapErase {β} {m : List (Nat × β)} {k : Nat} {y : Nat × β} : y ∈ mapErase m k ↔ y ∈ m ∧ y.1 ≠ k := by
  simp [mapErase, List.mem_filter]

theorem mem_mapInsert {β} {m : List (Nat × β)} {k : Nat} {v : β} {y : Nat × β} (hy : y ∈ mapInsert m k v) : y = (k, v) ∨ y ∈ m := by
  induction m with
  | nil => simp [mapInsert] at hy; exact .inl hy
  | cons x xs ih =>
    obtain ⟨k', v'⟩ := x
    simp only [mapInsert] at hy
    split at hy
    · rcases List.mem_cons.mp hy with h | h
      · exact .inl h
      · exact .inr h
    · split at hy
      · rcases List.mem_cons.mp hy with h | h
        · exact .inl h
        · exact .inr (List.mem_cons_of_mem _ h)
      · rcases List.mem_cons.mp hy with h | h
        · exact .inr (h ▸ List.mem_cons_self ..)
        · rcases ih h with h' | h'
          · exact .inl h'
          · exact .inr (List.mem_cons_of_mem _ h')

theorem KeysSorted.mapInsert {β} {m : List (Nat × β)} (h : KeysSorted m) (k : Nat) (v : β) : KeysSorted (mapInsert m k v) := by
  induction m with
  | nil => simp [GV.mapInsert, KeysSorted]
  | cons x xs ih =>
    obtain ⟨k', v'⟩ := x
    simp only [GV.mapInsert]
    split
    · rename_i hlt
      refine KeysSorted.cons h ?_
      intro y hy
      rcases List.mem_cons.mp hy with rfl | hy'
      · exact hlt
      · have := h.head_lt y hy'; simp only at this ⊢; omega
    · split
      · rename_i _ heq
        subst heq
        exact KeysSorted.cons h.tail (fun y hy => h.head_lt y hy)
      · rename_i h1 h2
        refine KeysSorted.cons (ih h.tail) ?_
        intro y hy
        rcases mem_mapInsert hy with rfl | hy'
        · simp only; omega
        · exact h.head_lt y hy'

theorem mem_of_lookup {β} {m : List (Nat × β)} {k : Nat} {v : β} (h : m.lookup k = some v) : (k, v) ∈ m := by
  induction m with
  | nil => simp [List.lookup] at h
  | cons x xs ih =>
    obtain ⟨k', v'⟩ := x
    simp only [List.lookup] at h
    split at h
    · rename_i heq
      have : k = k' := by simpa using heq
      subst this
      cases h; exact List.mem_cons_self ..
    · exact List.mem_cons_of_mem _ (ih h)

theorem lookup_of_mem {β} {m : List (Nat × β)} (hs : KeysSorted m) {k : Nat} {v : β} (h : (k, v) ∈ m) : m.lookup k = some v := by
  induction m with
  | nil => cases h
  | cons x xs ih =>
    obtain ⟨k', v'⟩ := x
    rcases List.mem_cons.mp h with heq | hin
    · cases heq; simp [List.lookup]
    · have hlt := hs.head_lt (k, v) hin
      simp only at hlt
      have : (k == k') = false := by simp; omega
      simp only [List.lookup, this]
      exact ih hs.tail hin

theorem lookup_none_iff {β} {m : List (Nat × β)} {k : Nat} : m.lookup k = none ↔ ∀ y ∈ m, y.1 ≠ k := by
  induction m with
  | nil => simp [List.lookup]
  | cons x xs ih =>
    obtain ⟨k', v'⟩ := x
    simp only [List.lookup]
    split
    · rename_i heq
      have : k = k' := by simpa using heq
      subst this
      simp
    · rename_i hne
      have : k ≠ k' := by simpa using hne
      rw [ih]
      constructor
      · intro h y hy
        rcases List.mem_cons.mp hy with rfl | hy'
        · exact fun h' => this h'.symm
        · exact h y hy'
      · intro h y hy; exact h y (List.mem_cons_of_mem _ hy)

/-- erasing an absent key changes nothing -/
theorem mapErase_of_lookup_none {β} {m : List (Nat × β)} {k : Nat} (h : m.lookup k = none) : mapErase m k = m := by
  simp only [mapErase]
  apply List.filter_eq_self.mpr
  intro y hy
  have := lookup_none_iff.mp h y hy
  simpa using this

/-- a present binding, taken out: the map is that binding plus the rest -/
theorem perm_cons_mapErase {β} {m : List (Nat × β)} (hs : KeysSorted m) {k : Nat} {v : β} (h : m.lookup k = some v) :
    m.Perm ((k, v) :: mapErase m k) := by
  induction m with
  | nil => simp [List.lookup] at h
  | cons x xs ih =>
    obtain ⟨k', v'⟩ := x
    simp only [List.lookup] at h
    split at h
    · rename_i heq
      have hk : k = k' := by simpa using heq
      subst hk
      cases h
      have hrest : mapErase xs k = xs := by
        simp only [mapErase]
        apply List.filter_eq_self.mpr
        intro y hy
        have := hs.head_lt y hy
        simp only at this
        simp; omega
      simp only [mapErase, List.filter, bne_self_eq_false]
      simp only [mapErase] at hrest
      rw [hrest]
    · rename_i hne
      have hk : k ≠ k' := by simpa using hne
      have hkeep : ((k', v').1 != k) = true := by simp; exact fun h' => hk h'.symm
      simp only [mapErase, List.filter, hkeep]
      exact ((ih hs.tail h).cons (k', v')).trans (List.Perm.swap ..)

/-- inserting under a new key adds exactly that binding -/
theorem mapInsert_perm_of_none {β} {m : List (Nat × β)} {k : Nat} (v : β) (h : m.lookup k = none) :
    (mapInsert m k v).Perm ((k, v) :: m) := by
  induction m with
  | nil => simp [mapInsert]
  | cons x xs ih =>
    obtain ⟨k', v'⟩ := x
    have hne : k ≠ k' := by
      intro heq; subst heq; simp [List.lookup] at h
    have hx : xs.lookup k = none := by
      have : (k == k') = false := by simp [hne]
      simpa [List.lookup, this] using h
    simp only [mapInsert]
    split
    · exact List.Perm.refl _
    · first
        | exact ((ih hx).cons (k', v')).trans (List.Perm.swap ..)
        | (rw [if_neg hne]; exact ((ih hx).cons (k', v')).trans (List.Perm.swap ..))

/-- inserting under a present key replaces that binding -/
theorem mapInsert_perm_of_some {β} {m : List (Nat × β)} (hs : KeysSorted m) {k : Nat} (v : β) {v0 : β} (h : m.lookup k = some v0) :
    (mapInsert m k v).Perm ((k, v) :: mapErase m k) := by
  induction m with
  | nil => simp [List.lookup] at h
  | cons x xs ih =>
    obtain ⟨k', v'⟩ := x
    simp only [List.lookup] at h
    split at h
    · rename_i heq
      have hk : k = k' := by simpa using heq
      subst hk
      have hrest : mapErase xs k = xs := by
        simp only [mapErase]
        apply List.filter_eq_self.mpr
        intro y hy
        have := hs.head_lt y hy
        simp only at this
        simp; omega
      simp only [mapInsert, Nat.lt_irrefl, ↓reduceIte, mapErase, List.filter, bne_self_eq_false]
      simp only [mapErase] at hrest
      rw [hrest]
    · rename_i hne
      have hk : k ≠ k' := by simpa using hne
      have hin := mem_of_lookup h
      have hlt := hs.head_lt (k, v0) hin
      simp only at hlt
      have hkeep : ((k', v').1 != k) = true := by simp; exact fun h' => hk h'.symm
      simp only [mapInsert, mapErase, List.filter, hkeep]
      rw [if_neg (by omega), if_neg hk]
      exact ((ih hs.tail h).cons (k', v')).trans (List.Perm.swap ..)

/-- a key above every key of the map is absent -/
theorem lookup_none_of_lt {β} {m : List (Nat × β)} {k : Nat} (h : ∀ y ∈ m, y.1 < k) : m.lookup k = none :=
  lookup_none_iff.mpr (fun y hy => by have := h y hy; omega)

end GV
