/- Proofs/PacketIds.lean — the search loop of `acquire_free_packet_id` (used by Props/C06 and by the engine invariant) -/
import GV.Proofs.EngineBasics
namespace GV

def inRange (n : Nat) : Prop := 1 ≤ n ∧ n ≤ 65535

theorem next_in_range (next : Nat) (h : inRange next) : inRange (if next = 65535 then 1 else next + 1) := by
  unfold inRange at *; split <;> omega

/-- **The search loop is sound for every cursor position and any number of wrap-arounds**: an id it returns
    is non-zero, at most 65535 and not reserved; the cursor it leaves behind is again a legal id. -/
theorem acquireLoop_sound (allocated : List (Nat × Nat)) (start : Nat) :
    ∀ (fuel check next : Nat), inRange check → inRange next →
      inRange (acquireLoop allocated start fuel check next).2 ∧
      ∀ pid, (acquireLoop allocated start fuel check next).1 = some pid → inRange pid ∧ allocated.lookup pid = none := by
  intro fuel
  induction fuel with
  | zero => intro check next _ hn; simp [acquireLoop]; exact hn
  | succ f ih =>
    intro check next hc hn
    have hn' := next_in_range next hn
    simp only [acquireLoop]
    generalize (if next = 65535 then 1 else next + 1) = nx at hn'
    by_cases hfree : (allocated.lookup check).isNone = true
    · simp only [hfree, ↓reduceIte]
      refine ⟨hn', ?_⟩
      intro pid hp
      simp only [Option.some.injEq] at hp; subst hp
      exact ⟨hc, by simpa using hfree⟩
    · simp only [hfree, Bool.false_eq_true, ↓reduceIte]
      by_cases hst : nx = start
      · simp only [hst, ↓reduceIte]
        exact ⟨by rw [← hst]; exact hn', by intro pid hp; simp at hp⟩
      · simp only [hst, ↓reduceIte]
        exact ih _ _ hn' hn'

end GV
