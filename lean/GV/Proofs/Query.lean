/- Proofs/Query.lean — percent-encoding round trip and query-string splitting lemmas -/
import GV.Model.Aws
import GV.Spec.Query
namespace GV
open Spec

theorem unreserved_eq (b : UInt8) : unreserved b = isUnreserved b := rfl

/-- a Boolean predicate checked on all 256 byte values holds for every byte -/
theorem forall_u8 (p : UInt8 → Bool) (h : (List.range 256).all (fun n => p (UInt8.ofNat n)) = true) : ∀ b, p b = true := by
  intro b
  have := List.all_eq_true.mp h b.toNat (List.mem_range.mpr b.toNat_lt)
  simpa using this

/-- the two nibbles of a byte decode back to it -/
theorem hex_round_trip (b : UInt8) :
    hexVal (upHex (b / 16)) = some (b / 16) ∧ hexVal (upHex (b % 16)) = some (b % 16) ∧ (b / 16) * 16 + b % 16 = b := by
  have := forall_u8 (fun b => hexVal (upHex (b / 16)) == some (b / 16) && hexVal (upHex (b % 16)) == some (b % 16) && (b / 16) * 16 + b % 16 == b)
    (by decide +kernel) b
  simpa [and_assoc] using this

theorem unreserved_ne_pct (b : UInt8) (h : isUnreserved b = true) : b ≠ 37 := by
  intro hb; subst hb; revert h; decide

theorem pctDecode_cons_unreserved (b : UInt8) (r : Bytes) (h : isUnreserved b = true) :
    pctDecode (b :: r) = (pctDecode r).map (b :: ·) := by
  have hb := unreserved_ne_pct b h
  rw [pctDecode]
  · simp [h]
  · intro h' l' r' heq; cases heq; exact absurd rfl hb

theorem pctDecode_pct (h l : UInt8) (r : Bytes) :
    pctDecode (37 :: h :: l :: r) = pctCombine (hexVal h) (hexVal l) (pctDecode r) := by
  simp only [pctDecode]

/-- decoding undoes encoding, for every byte string -/
theorem pctDecode_pctEncode (s : Bytes) : pctDecode (pctEncode s) = some s := by
  induction s with
  | nil => rfl
  | cons b r ih =>
    unfold pctEncode
    by_cases hb : unreserved b = true
    · simp only [hb, ↓reduceIte]
      rw [pctDecode_cons_unreserved b _ (by rw [← unreserved_eq]; exact hb), ih]; rfl
    · simp only [hb, Bool.false_eq_true, ↓reduceIte]
      have ⟨h1, h2, h3⟩ := hex_round_trip b
      rw [pctDecode_pct, h1, h2, ih]
      simp [pctCombine, h3]

/-- bytes that may occur in a percent-encoded string -/
def safeByte (b : UInt8) : Bool := isUnreserved b || b == 37

theorem upHex_safe (b : UInt8) : safeByte (upHex (b / 16)) = true ∧ safeByte (upHex (b % 16)) = true := by
  have := forall_u8 (fun b => safeByte (upHex (b / 16)) && safeByte (upHex (b % 16))) (by decide +kernel) b
  simpa using this

theorem pctEncode_safe (s : Bytes) : ∀ b ∈ pctEncode s, safeByte b = true := by
  induction s with
  | nil => intro b hb; cases hb
  | cons c r ih =>
    unfold pctEncode
    by_cases hc : unreserved c = true
    · simp only [hc, ↓reduceIte]
      intro b hb
      rcases List.mem_cons.mp hb with h | h
      · subst h; simp [safeByte, ← unreserved_eq, hc]
      · exact ih b h
    · simp only [hc, Bool.false_eq_true, ↓reduceIte]
      intro b hb
      have ⟨u1, u2⟩ := upHex_safe c
      simp only [List.mem_cons] at hb
      rcases hb with h | h | h | h
      · subst h; rfl
      · subst h; exact u1
      · subst h; exact u2
      · exact ih b h

theorem hexVal_safe (b : UInt8) : (hexVal b).isSome = true → safeByte b = true := by
  have := forall_u8 (fun b => !(hexVal b).isSome || safeByte b) (by decide +kernel) b
  intro h; simpa [h] using this

/-- whatever strict decoding accepts consists of safe bytes only -/
theorem pctDecode_safe : ∀ (s r : Bytes), pctDecode s = some r → ∀ b ∈ s, safeByte b = true
  | [], _, _ => by intro b hb; cases hb
  | [c], r, h => by
    intro b hb
    simp only [List.mem_singleton] at hb; subst hb
    unfold pctDecode at h
    split at h
    · rename_i heq; cases heq
    · rename_i heq; cases heq
    · rename_i heq; cases heq
      by_cases hu : isUnreserved b = true
      · simp [safeByte, hu]
      · simp [hu] at h
  | [c, d], r, h => by
    unfold pctDecode at h
    split at h
    · rename_i heq; cases heq
    · rename_i heq; cases heq
    · rename_i heq; cases heq
      by_cases hu : isUnreserved c = true
      · simp only [hu, ↓reduceIte] at h
        cases h2 : pctDecode [d] with
        | none => simp [h2] at h
        | some t =>
          intro b hb
          rcases List.mem_cons.mp hb with hb | hb
          · subst hb; simp [safeByte, hu]
          · exact pctDecode_safe [d] t h2 b hb
      · simp [hu] at h
  | c :: d :: e :: rest, r, h => by
    by_cases hc : c = 37
    · subst hc
      rw [pctDecode_pct] at h
      cases h1 : hexVal d <;> cases h2 : hexVal e <;> cases h3 : pctDecode rest <;> simp [pctCombine, h1, h2, h3] at h
      rename_i t
      intro b hb
      simp only [List.mem_cons] at hb
      rcases hb with hb | hb | hb | hb
      · subst hb; rfl
      · subst hb; exact hexVal_safe _ (by simp [h1])
      · subst hb; exact hexVal_safe _ (by simp [h2])
      · exact pctDecode_safe rest t h3 b hb
    · unfold pctDecode at h
      split at h
      · rename_i heq; cases heq
      · rename_i heq; cases heq; exact absurd rfl hc
      · rename_i heq; cases heq
        by_cases hu : isUnreserved c = true
        · simp only [hu, ↓reduceIte] at h
          cases h2 : pctDecode (d :: e :: rest) with
          | none => simp [h2] at h
          | some t =>
            intro b hb
            rcases List.mem_cons.mp hb with hb | hb
            · subst hb; simp [safeByte, hu]
            · exact pctDecode_safe (d :: e :: rest) t h2 b hb
        · simp [hu] at h

theorem safe_ne_amp (b : UInt8) (h : safeByte b = true) : (b == 38) = false ∧ (b == 61) = false := by
  have := forall_u8 (fun b => !safeByte b || (!(b == 38) && !(b == 61))) (by decide +kernel) b
  simpa [h] using this

/-- splitting a `&`-free segment followed by `&` and more -/
theorem splitAll_append (x : Bytes) (hx : ∀ b ∈ x, (b == 38) = false) (rest : Bytes) :
    splitAll 38 (x ++ 38 :: rest) = x :: splitAll 38 rest := by
  induction x with
  | nil => simp [splitAll]
  | cons c r ih =>
    have hc := hx c (List.mem_cons_self ..)
    have hr : ∀ b ∈ r, (b == 38) = false := fun b hb => hx b (List.mem_cons_of_mem _ hb)
    simp only [List.cons_append, splitAll, hc, Bool.false_eq_true, ↓reduceIte, ih hr]

theorem splitAll_single (x : Bytes) (hx : ∀ b ∈ x, (b == 38) = false) : splitAll 38 x = [x] := by
  induction x with
  | nil => rfl
  | cons c r ih =>
    have hc := hx c (List.mem_cons_self ..)
    have hr : ∀ b ∈ r, (b == 38) = false := fun b hb => hx b (List.mem_cons_of_mem _ hb)
    simp only [splitAll, hc, Bool.false_eq_true, ↓reduceIte, ih hr]

/-- joining `&`-free segments with `&` and splitting again is the identity -/
theorem splitAll_joinAmp (segs : List Bytes) (hne : segs ≠ []) (h : ∀ s ∈ segs, ∀ b ∈ s, (b == 38) = false) :
    splitAll 38 (joinAmp segs) = segs := by
  induction segs with
  | nil => exact absurd rfl hne
  | cons x rest ih =>
    cases rest with
    | nil => simpa [joinAmp] using splitAll_single x (h x (List.mem_cons_self ..))
    | cons y r =>
      have := ih (by simp) (fun s hs => h s (List.mem_cons_of_mem _ hs))
      simp only [joinAmp]
      rw [splitAll_append x (h x (List.mem_cons_self ..)), this]

theorem splitFirst_append (k v : Bytes) (hk : ∀ b ∈ k, (b == 61) = false) :
    splitFirst 61 (k ++ 61 :: v) = some (k, v) := by
  induction k with
  | nil => simp [splitFirst]
  | cons c r ih =>
    have hc := hk c (List.mem_cons_self ..)
    have hr : ∀ b ∈ r, (b == 61) = false := fun b hb => hk b (List.mem_cons_of_mem _ hb)
    simp only [List.cons_append, splitFirst, hc, Bool.false_eq_true, ↓reduceIte, ih hr, Option.map_some]

/-- a `key=value` segment whose sides decode parses to the decoded pair -/
theorem parsePair_ok (k v k' v' : Bytes) (hk : pctDecode k = some k') (hv : pctDecode v = some v') :
    parsePair (k ++ 61 :: v) = some (k', v') := by
  unfold parsePair
  rw [splitFirst_append k v (fun b hb => (safe_ne_amp b (pctDecode_safe k k' hk b hb)).2)]
  simp [hk, hv]

theorem pair_no_amp (k v k' v' : Bytes) (hk : pctDecode k = some k') (hv : pctDecode v = some v') :
    ∀ b ∈ k ++ 61 :: v, (b == 38) = false := by
  intro b hb
  simp only [List.mem_append, List.mem_cons] at hb
  rcases hb with hb | hb | hb
  · exact (safe_ne_amp b (pctDecode_safe k k' hk b hb)).1
  · subst hb; rfl
  · exact (safe_ne_amp b (pctDecode_safe v v' hv b hb)).1

/-- a string with no `%` that all consists of safe bytes is unreserved throughout, so encoding leaves it alone -/
theorem pctEncode_id_of_unreserved (s : Bytes) (h : ∀ b ∈ s, unreserved b = true) : pctEncode s = s := by
  induction s with
  | nil => rfl
  | cons c r ih =>
    have hc := h c (List.mem_cons_self ..)
    simp only [pctEncode, hc, ↓reduceIte, ih (fun b hb => h b (List.mem_cons_of_mem _ hb))]

theorem hasPct_false_iff (s : Bytes) : hasPct s = false ↔ ∀ b ∈ s, b ≠ 37 := by
  unfold hasPct
  constructor
  · intro h b hb hb37; subst hb37
    have : s.contains 37 = true := List.contains_iff_mem.mpr hb
    simp_all
  · intro h
    cases hc : s.contains 37 with
    | false => rfl
    | true => exact absurd rfl (h 37 (List.contains_iff_mem.mp hc))

/-- if the encoding of `s` contains no `%`, nothing was escaped: `s` is unreserved throughout -/
theorem unreserved_of_encode_no_pct (s : Bytes) (h : hasPct (pctEncode s) = false) : ∀ b ∈ s, unreserved b = true := by
  induction s with
  | nil => intro b hb; cases hb
  | cons c r ih =>
    rw [hasPct_false_iff] at h
    by_cases hc : unreserved c = true
    · intro b hb
      rcases List.mem_cons.mp hb with hb | hb
      · subst hb; exact hc
      · apply ih _ b hb
        rw [hasPct_false_iff]
        intro x hx
        apply h x
        simp only [pctEncode, hc, ↓reduceIte]
        exact List.mem_cons_of_mem _ hx
    · exfalso
      apply h 37 _ rfl
      simp only [pctEncode, hc, Bool.false_eq_true, ↓reduceIte]
      exact List.mem_cons_self ..

end GV
