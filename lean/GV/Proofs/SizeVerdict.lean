/-
  Proofs/SizeVerdict.lean — helper lemmas for the stream-level size verdict of Props/C03: a run of continuation
  bytes of a Remaining Length only extends the decoder's scratch buffer.
-/
import GV.Model.Decode
import GV.Proofs.Decoder
import GV.Proofs.Vli
namespace GV
/-- continuation bytes only (bit 7 set) -/
def AllCont (bs : Bytes) : Prop := ∀ b ∈ bs, b.toNat / 128 ≠ 0

theorem loop_allCont (fuel v m : Nat) (bs : Bytes) (h : AllCont bs) (hl : bs.length < fuel) :
    decodeVliLoop fuel v m bs = .insufficient := by
  induction bs generalizing fuel v m with
  | nil => cases fuel with
    | zero => simp at hl
    | succ f => rfl
  | cons b r ih =>
    cases fuel with
    | zero => simp at hl
    | succ f =>
      have hb : b.toNat / 128 ≠ 0 := h b (by simp)
      simp only [decodeVliLoop, hb, if_false]
      exact ih f _ _ (fun x hx => h x (by simp [hx])) (by simp at hl; omega)

/-- feeding continuation bytes of a length prefix only extends the scratch buffer -/
theorem feed_cont (cfg : DecodeCfg) (c : Bytes) : ∀ (d : Decoder) (tail : Bytes), d.state = .readLength → AllCont (d.scratch ++ c) →
    (d.scratch ++ c).length < 4 →
    feed cfg d (c ++ tail) = feed cfg { d with scratch := d.scratch ++ c } tail := by
  induction c with
  | nil => intro d tail _ _ _; simp
  | cons b r ih =>
    intro d tail hs hc hl
    have hc1 : AllCont (d.scratch ++ [b]) := fun x hx => hc x (by
      simp only [List.mem_append, List.mem_cons, List.not_mem_nil, or_false] at hx ⊢; rcases hx with h | h
      · exact Or.inl h
      · exact Or.inr (Or.inl h))
    have hl1 : (d.scratch ++ [b]).length < 4 := by simp at hl ⊢; omega
    have hv : decodeVli (d.scratch ++ [b]) = .insufficient := loop_allCont 4 0 1 _ hc1 hl1
    have hstep : stepByte cfg d b = ({ d with scratch := d.scratch ++ [b] }, [], none) := by
      simp only [stepByte, hs, stepLength, hv]
      rw [if_neg (by omega)]
    simp only [List.cons_append, feed, hstep]
    have := ih { d with scratch := d.scratch ++ [b] } tail hs (by simpa using hc) (by simpa using hl)
    simp only [List.append_assoc, List.singleton_append] at this
    rw [this]
    simp

/-- a Variable Byte Integer written as the standard prescribes is a run of at most three continuation bytes and a final byte -/
theorem encVbi_split (v : Nat) : ∃ c last, Spec.encVbi v = c ++ [last] ∧ AllCont c ∧ c.length ≤ 3 := by
  unfold Spec.encVbi
  by_cases h1 : v < 128
  · exact ⟨[], u8 v, by simp [h1], by intro b hb; simp at hb, by simp⟩
  · by_cases h2 : v < 16384
    · refine ⟨[u8 (v % 128 + 128)], u8 (v / 128), by simp [h1, h2], ?_, by simp⟩
      intro b hb; simp at hb; subst hb; rw [u8_toNat]; omega
    · by_cases h3 : v < 2097152
      · refine ⟨[u8 (v % 128 + 128), u8 (v / 128 % 128 + 128)], u8 (v / 16384), by simp [h1, h2, h3], ?_, by simp⟩
        intro b hb; simp at hb; rcases hb with hb | hb <;> subst hb <;> rw [u8_toNat] <;> omega
      · refine ⟨[u8 (v % 128 + 128), u8 (v / 128 % 128 + 128), u8 (v / 16384 % 128 + 128)], u8 (v / 2097152), by simp [h1, h2, h3], ?_, by simp⟩
        intro b hb; simp at hb; rcases hb with hb | hb | hb <;> subst hb <;> rw [u8_toNat] <;> omega

end GV
