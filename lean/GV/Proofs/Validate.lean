/- Proofs/Validate.lean — helper lemmas relating the validators' `Except` plumbing to Boolean specs. -/
import GV.Model.Validate
import GV.Spec.Validity
namespace GV

theorem okIf_ok (b : Bool) : okIf b = .ok () ↔ b = true := by
  unfold okIf; cases b <;> simp

theorem bind_ok_iff (a : VRes) (f : Unit → VRes) : (a >>= f) = .ok () ↔ a = .ok () ∧ f () = .ok () := by
  cases a with
  | error e => simp [bind, Except.bind]
  | ok u => simp [bind, Except.bind]

theorem vOptLen_ok (o : Option Bytes) : vOptLen o = .ok () ↔ Spec.optOk o = true := by
  cases o <;> simp [vOptLen, Spec.optOk, Spec.strOk, okIf_ok]

theorem strFieldOk_eq (b : Bytes) : strFieldOk b = Spec.utf8Ok b := rfl

theorem vOptStr_ok (o : Option Bytes) : vOptStr o = .ok () ↔ Spec.optStrOk o = true := by
  cases o <;> simp [vOptStr, Spec.optStrOk, strFieldOk_eq, okIf_ok]

theorem vUserProps_ok (u : UserProps) : vUserProps u = .ok () ↔ Spec.upsOk u = true := by
  cases u <;> simp [vUserProps, Spec.upsOk, strFieldOk_eq, okIf_ok]

theorem isValidTopic_iff (t : Bytes) : isValidTopic t = Spec.topicNameValid t := by
  simp [isValidTopic, Spec.topicNameValid, Spec.hasWildChar, Bool.and_assoc]

end GV
