/- Proofs/Validate.lean — helper lemmas relating the validators' `Except` plumbing to Boolean specs. -/
import GV.Model.Validate
import GV.Spec.Validity
namespace GV

theorem okIf_ok (b : Bool) : okIf b = .ok () ↔ b = true := by
  unfold okIf; cases b <;> simp

theorem bind_ok_iff (a : VRes) (f : Unit → VRes) : (a >>= f) = .ok () ↔ a = .ok () ∧ f () = .ok () := by
  cases a with
  | error e => simp [bind, Except.bind]
  | ok u => simp [bind, Except.bind]

theorem vOptLen_ok (o : Option Bytes) : vOptLen o = .ok () ↔ Spec.optOk o = true := by
  cases o <;> simp [vOptLen, Spec.optOk, Spec.strOk, okIf_ok]

theorem strFieldOk_eq (b : Bytes) : strFieldOk b = Spec.utf8Ok b := rfl

theorem vOptStr_ok (o : Option Bytes) : vOptStr o = .ok () ↔ Spec.optStrOk o = true := by
  cases o <;> simp [vOptStr, Spec.optStrOk, strFieldOk_eq, okIf_ok]

theorem vUserProps_ok (u : UserProps) : vUserProps u = .ok () ↔ Spec.upsOk u = true := by
  cases u <;> simp [vUserProps, Spec.upsOk, strFieldOk_eq, okIf_ok]

theorem isValidTopic_iff (t : Bytes) : isValidTopic t = Spec.topicNameValid t := by
  simp [isValidTopic, Spec.topicNameValid, Spec.hasWildChar, Bool.and_assoc]

/-! ### subscriptions that are never materialised (`padsubs=<n>x<len>`) -/

theorem foldl_add_init {α} (f : α → Nat) (l : List α) (a : Nat) : l.foldl (fun acc x => acc + f x) a = a + l.foldl (fun acc x => acc + f x) 0 := by
  induction l generalizing a with
  | nil => simp
  | cons x xs ih => simp only [List.foldl_cons]; rw [ih (a + f x), ih (0 + f x)]; omega

theorem foldl_add_replicate {α} (f : α → Nat) (n : Nat) (x : α) : (List.replicate n x).foldl (fun acc y => acc + f y) 0 = n * f x := by
  induction n with
  | zero => simp
  | succ k ih =>
    simp only [List.replicate_succ, List.foldl_cons]
    rw [foldl_add_init, ih]
    rw [Nat.succ_mul]; omega

theorem foldl_add_append {α} (f : α → Nat) (a b : List α) :
    (a ++ b).foldl (fun acc x => acc + f x) 0 = a.foldl (fun acc x => acc + f x) 0 + b.foldl (fun acc x => acc + f x) 0 := by
  rw [List.foldl_append, foldl_add_init]

/-- the encoded lengths of a SUBSCRIBE with `n` more subscriptions whose filters have `len` bytes are those of the SUBSCRIBE
    without them plus `n * (3 + len)` (what lets the correspondence check feed SUBSCRIBEs of 4 GiB and more as two numbers) -/
theorem subscribeLengths5_pad (p : Subscribe) (n : Nat) (x : Subscription) :
    subscribeLengths5 { p with subscriptions := p.subscriptions ++ List.replicate n x } =
      (subscribeLengths5 p).map (fun l => (l.1 + n * (3 + x.topicFilter.length), l.2)) := by
  unfold subscribeLengths5
  simp only []
  cases optVliPropLen p.subscriptionId with
  | none => rfl
  | some sid =>
    simp only []
    cases vliSize (userPropsLen p.userProps + sid) with
    | none => rfl
    | some sz =>
      simp only [Option.map_some, Option.some.injEq, Prod.mk.injEq, and_true]
      rw [foldl_add_append (fun (x : Subscription) => x.topicFilter.length), foldl_add_replicate (fun (x : Subscription) => x.topicFilter.length)]
      simp only [List.length_append, List.length_replicate]
      rw [Nat.add_mul, Nat.mul_add]
      omega

theorem unsubscribeLengths5_pad (p : Unsubscribe) (n : Nat) (f : Bytes) :
    unsubscribeLengths5 { p with topicFilters := p.topicFilters ++ List.replicate n f } =
      (unsubscribeLengths5 p).map (fun l => (l.1 + n * (2 + f.length), l.2)) := by
  unfold unsubscribeLengths5
  simp only []
  cases vliSize (userPropsLen p.userProps) with
  | none => rfl
  | some sz =>
    simp only [Option.map_some, Option.some.injEq, Prod.mk.injEq, and_true]
    rw [foldl_add_append (fun (x : Bytes) => x.length), foldl_add_replicate (fun (x : Bytes) => x.length)]
    simp only [List.length_append, List.length_replicate]
    rw [Nat.add_mul, Nat.mul_add]
    omega

theorem subscribeLength311_pad (p : Subscribe) (n : Nat) (x : Subscription) :
    subscribeLength311 { p with subscriptions := p.subscriptions ++ List.replicate n x } = subscribeLength311 p + n * (3 + x.topicFilter.length) := by
  unfold subscribeLength311
  simp only []
  rw [foldl_add_append (fun (x : Subscription) => x.topicFilter.length), foldl_add_replicate (fun (x : Subscription) => x.topicFilter.length)]
  simp only [List.length_append, List.length_replicate]
  rw [Nat.add_mul, Nat.mul_add]
  omega

theorem unsubscribeLength311_pad (p : Unsubscribe) (n : Nat) (f : Bytes) :
    unsubscribeLength311 { p with topicFilters := p.topicFilters ++ List.replicate n f } = unsubscribeLength311 p + n * (2 + f.length) := by
  unfold unsubscribeLength311
  simp only []
  rw [foldl_add_append (fun (x : Bytes) => x.length), foldl_add_replicate (fun (x : Bytes) => x.length)]
  simp only [List.length_append, List.length_replicate]
  rw [Nat.add_mul, Nat.mul_add]
  omega

theorem all_append_replicate {α} (q : α → Bool) (l : List α) (n : Nat) (x : α) (hn : 0 < n) :
    (l ++ List.replicate n x).all q = (l ++ [x]).all q := by
  simp only [List.all_append, List.all_replicate, List.all_cons, List.all_nil, Bool.and_true]
  have : n ≠ 0 := by omega
  simp [this]

/-- what the driver evaluates for a padded SUBSCRIBE is the validator on the padded packet -/
theorem vSubscribeInternal_pad (p : Subscribe) (st : Settings) (n len : Nat) (hn : 0 < n) :
    vSubscribeInternal { p with subscriptions := p.subscriptions ++ List.replicate n (padSub len) } (some st) =
      vSubscribeInternalWith ((subscribeLengths5 p).map (fun l => (l.1 + n * (3 + len), l.2)))
        { p with subscriptions := p.subscriptions ++ [padSub len] } (some st) := by
  unfold vSubscribeInternal vSubscribeInternalWith
  rw [subscribeLengths5_pad]
  simp only [all_append_replicate _ _ n _ hn]
  simp [padSub]

theorem vUnsubscribeInternal_pad (p : Unsubscribe) (st : Settings) (n len : Nat) (hn : 0 < n) :
    vUnsubscribeInternal { p with topicFilters := p.topicFilters ++ List.replicate n (List.replicate len 97) } (some st) =
      vUnsubscribeInternalWith ((unsubscribeLengths5 p).map (fun l => (l.1 + n * (2 + len), l.2)))
        { p with topicFilters := p.topicFilters ++ [List.replicate len 97] } (some st) := by
  unfold vUnsubscribeInternal vUnsubscribeInternalWith
  rw [unsubscribeLengths5_pad]
  simp only [all_append_replicate _ _ n _ hn]
  simp

end GV
