/-
  Proofs/Vli.lean — variable-length integers: the code's loop encoder, its size function, the code's
  decoder and the standard's decoder all agree, for every value below 2^28.
-/
import GV.Model.Bytes
import GV.Spec.Codec
namespace GV

@[simp] theorem u8_toNat (n : Nat) : (u8 n).toNat = n % 256 := by
  simp [u8]

theorem enc1 (v : Nat) (h1 : v < 128) : encodeVliLoop 4 v = [u8 v] := by
  have a : v / 128 = 0 := by omega
  have b : v % 128 = v := by omega
  simp only [encodeVliLoop, a, ↓reduceIte, b]

theorem enc2 (v : Nat) (h1 : ¬ v < 128) (h2 : v < 16384) :
    encodeVliLoop 4 v = [u8 (v % 128 + 128), u8 (v / 128)] := by
  have a : ¬ (v / 128 = 0) := by omega
  have b : v / 128 / 128 = 0 := by omega
  have c : v / 128 % 128 = v / 128 := by omega
  simp only [encodeVliLoop, a, b, ↓reduceIte, c]

theorem enc3 (v : Nat) (h2 : ¬ v < 16384) (h3 : v < 2097152) :
    encodeVliLoop 4 v = [u8 (v % 128 + 128), u8 (v / 128 % 128 + 128), u8 (v / 16384)] := by
  have a : ¬ (v / 128 = 0) := by omega
  have b : ¬ (v / 128 / 128 = 0) := by omega
  have c : v / 128 / 128 / 128 = 0 := by omega
  have e : v / 128 / 128 % 128 = v / 128 / 128 := by omega
  have d : v / 128 / 128 = v / 16384 := by omega
  simp only [encodeVliLoop, a, b, c, ↓reduceIte, e]
  rw [d]

theorem enc4 (v : Nat) (h : v ≤ 268435455) (h3 : ¬ v < 2097152) :
    encodeVliLoop 4 v =
      [u8 (v % 128 + 128), u8 (v / 128 % 128 + 128), u8 (v / 16384 % 128 + 128), u8 (v / 2097152)] := by
  have a : ¬ (v / 128 = 0) := by omega
  have b : ¬ (v / 128 / 128 = 0) := by omega
  have c : ¬ (v / 128 / 128 / 128 = 0) := by omega
  have f : v / 128 / 128 / 128 / 128 = 0 := by omega
  have g : v / 128 / 128 / 128 % 128 = v / 128 / 128 / 128 := by omega
  have d : v / 128 / 128 = v / 16384 := by omega
  have e : v / 128 / 128 / 128 = v / 2097152 := by omega
  simp only [encodeVliLoop, a, b, c, f, ↓reduceIte, g]
  rw [e, d]

/-- the loop of `encode_vli` writes exactly the standard's Variable Byte Integer -/
theorem encodeVliLoop_eq_spec (v : Nat) (h : v ≤ maxVli) : encodeVliLoop 4 v = Spec.encVbi v := by
  unfold maxVli at h
  unfold Spec.encVbi
  by_cases h1 : v < 128
  · rw [if_pos h1]; exact enc1 v h1
  · rw [if_neg h1]
    by_cases h2 : v < 16384
    · rw [if_pos h2]; exact enc2 v h1 h2
    · rw [if_neg h2]
      by_cases h3 : v < 2097152
      · rw [if_pos h3]; exact enc3 v h2 h3
      · rw [if_neg h3]; exact enc4 v h h3

theorem encodeVli_eq_spec (v : Nat) (h : v ≤ maxVli) : encodeVli v = some (Spec.encVbi v) := by
  unfold encodeVli
  have : ¬ v > maxVli := by omega
  rw [if_neg this, encodeVliLoop_eq_spec v h]

theorem encodeVli_none_iff (v : Nat) : encodeVli v = none ↔ v > maxVli := by
  unfold encodeVli; by_cases h : v > maxVli <;> simp [h]

theorem encVbi_length (v : Nat) :
    (Spec.encVbi v).length = if v < 128 then 1 else if v < 16384 then 2 else if v < 2097152 then 3 else 4 := by
  unfold Spec.encVbi
  by_cases h1 : v < 128
  · simp [h1]
  · by_cases h2 : v < 16384
    · simp [h1, h2]
    · by_cases h3 : v < 2097152 <;> simp [h1, h2, h3]

/-- `compute_variable_length_integer_encode_size` is the number of bytes `encode_vli` writes -/
theorem vliSize_eq_length (v : Nat) (h : v ≤ maxVli) : vliSize v = some (Spec.encVbi v).length := by
  rw [encVbi_length]
  unfold maxVli at h
  unfold vliSize
  by_cases h1 : v < 128
  · simp [h1]
  · by_cases h2 : v < 16384
    · simp [h1, h2]
    · by_cases h3 : v < 2097152
      · simp [h1, h2, h3]
      · have h4 : v < 268435456 := by omega
        simp [h1, h2, h3, h4]

theorem vliSize_none_iff (v : Nat) : vliSize v = none ↔ v > maxVli := by
  unfold vliSize maxVli
  by_cases h1 : v < 128
  · simp [h1]; omega
  · by_cases h2 : v < 16384
    · simp [h1, h2]; omega
    · by_cases h3 : v < 2097152
      · simp [h1, h2, h3]; omega
      · by_cases h4 : v < 268435456
        · simp [h1, h2, h3, h4]; omega
        · simp [h1, h2, h3, h4]; omega

/-- round trip through the code's own decoder (`decode_vli`), with any bytes following -/
theorem decodeVli_encVbi (v : Nat) (rest : Bytes) (h : v ≤ maxVli) :
    decodeVli (Spec.encVbi v ++ rest) = .value v rest := by
  unfold maxVli at h
  unfold Spec.encVbi
  by_cases h1 : v < 128
  · rw [if_pos h1]
    have a : v % 256 / 128 = 0 := by omega
    have c : 0 + v % 256 % 128 * 1 = v := by omega
    simp only [decodeVli, decodeVliLoop, List.cons_append, List.nil_append, u8_toNat, a, ↓reduceIte, c]
  · rw [if_neg h1]
    by_cases h2 : v < 16384
    · rw [if_pos h2]
      have a : ¬ ((v % 128 + 128) % 256 / 128 = 0) := by omega
      have b : v / 128 % 256 / 128 = 0 := by omega
      have c : 0 + (v % 128 + 128) % 256 % 128 * 1 + v / 128 % 256 % 128 * (1 * 128) = v := by omega
      simp only [decodeVli, decodeVliLoop, List.cons_append, List.nil_append, u8_toNat, a, b, ↓reduceIte, c]
    · rw [if_neg h2]
      by_cases h3 : v < 2097152
      · rw [if_pos h3]
        have a : ¬ ((v % 128 + 128) % 256 / 128 = 0) := by omega
        have b : ¬ ((v / 128 % 128 + 128) % 256 / 128 = 0) := by omega
        have b' : v / 16384 % 256 / 128 = 0 := by omega
        have c : 0 + (v % 128 + 128) % 256 % 128 * 1 + (v / 128 % 128 + 128) % 256 % 128 * (1 * 128)
            + v / 16384 % 256 % 128 * (1 * 128 * 128) = v := by omega
        simp only [decodeVli, decodeVliLoop, List.cons_append, List.nil_append, u8_toNat, a, b, b', ↓reduceIte, c]
      · rw [if_neg h3]
        have a : ¬ ((v % 128 + 128) % 256 / 128 = 0) := by omega
        have b : ¬ ((v / 128 % 128 + 128) % 256 / 128 = 0) := by omega
        have b' : ¬ ((v / 16384 % 128 + 128) % 256 / 128 = 0) := by omega
        have b'' : v / 2097152 % 256 / 128 = 0 := by omega
        have c : 0 + (v % 128 + 128) % 256 % 128 * 1 + (v / 128 % 128 + 128) % 256 % 128 * (1 * 128)
            + (v / 16384 % 128 + 128) % 256 % 128 * (1 * 128 * 128)
            + v / 2097152 % 256 % 128 * (1 * 128 * 128 * 128) = v := by omega
        simp only [decodeVli, decodeVliLoop, List.cons_append, List.nil_append, u8_toNat, a, b, b', b'', ↓reduceIte, c]

/-- round trip through the *standard's* decoder -/
theorem specDecVbi_encVbi (v : Nat) (rest : Bytes) (h : v ≤ maxVli) :
    Spec.decVbi (Spec.encVbi v ++ rest) = some (v, rest) := by
  unfold maxVli at h
  unfold Spec.encVbi
  by_cases h1 : v < 128
  · rw [if_pos h1]
    have c : v % 256 = v := by omega
    simp only [Spec.decVbi, List.cons_append, List.nil_append, u8_toNat, c, h1, ↓reduceIte]
  · rw [if_neg h1]
    by_cases h2 : v < 16384
    · rw [if_pos h2]
      have a : ¬ ((v % 128 + 128) % 256 < 128) := by omega
      have b : v / 128 % 256 < 128 := by omega
      have c : (v % 128 + 128) % 256 - 128 + v / 128 % 256 * 128 = v := by omega
      simp only [Spec.decVbi, List.cons_append, List.nil_append, u8_toNat, a, b, ↓reduceIte, c]
    · rw [if_neg h2]
      by_cases h3 : v < 2097152
      · rw [if_pos h3]
        have a : ¬ ((v % 128 + 128) % 256 < 128) := by omega
        have b : ¬ ((v / 128 % 128 + 128) % 256 < 128) := by omega
        have b' : v / 16384 % 256 < 128 := by omega
        have c : (v % 128 + 128) % 256 - 128 + ((v / 128 % 128 + 128) % 256 - 128) * 128
            + v / 16384 % 256 * 16384 = v := by omega
        simp only [Spec.decVbi, List.cons_append, List.nil_append, u8_toNat, a, b, b', ↓reduceIte, c]
      · rw [if_neg h3]
        have a : ¬ ((v % 128 + 128) % 256 < 128) := by omega
        have b : ¬ ((v / 128 % 128 + 128) % 256 < 128) := by omega
        have b' : ¬ ((v / 16384 % 128 + 128) % 256 < 128) := by omega
        have b'' : v / 2097152 % 256 < 128 := by omega
        have c : (v % 128 + 128) % 256 - 128 + ((v / 128 % 128 + 128) % 256 - 128) * 128
            + ((v / 16384 % 128 + 128) % 256 - 128) * 16384 + v / 2097152 % 256 * 2097152 = v := by omega
        simp only [Spec.decVbi, List.cons_append, List.nil_append, u8_toNat, a, b, b', b'', ↓reduceIte, c]

end GV
