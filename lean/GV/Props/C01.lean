/-
  Props/C01.lean — Every accepted operation resolves exactly once, with its own acknowledgement.
  About Model/Engine.lean: `complete_operation_as_success/failure`, the ack handlers, `reset`.
-/
import GV.Proofs.EngineWF
import GV.Proofs.EngineClose
namespace GV.Props.C01
open GV

/-- what an operation of this kind may be completed with (`complete_operation_with_result`) -/
theorem result_matches_operation_kind (p : Packet) (c : Option Completion) (res : Completion) (h : resultFor p c = some res) :
    (∃ pb, p = .publish pb ∧ (res = .qos0 ∨ (∃ a b, res = .puback a b) ∨ (∃ a b, res = .pubrec a b) ∨ (∃ a b, res = .pubcomp a b))) ∨
    (∃ s a b, p = .subscribe s ∧ res = .suback a b) ∨ (∃ s a b, p = .unsubscribe s ∧ res = .unsuback a b) := by
  cases p <;> cases c <;> simp [resultFor] at h
  case publish.none pb => exact .inl ⟨pb, rfl, .inl h.symm⟩
  case publish.some pb c =>
    cases c <;> simp [resultFor] at h
    case puback a b => exact .inl ⟨pb, rfl, .inr (.inl ⟨a, b, h.symm⟩)⟩
    case pubrec a b => exact .inl ⟨pb, rfl, .inr (.inr (.inl ⟨a, b, h.symm⟩))⟩
    case pubcomp a b => exact .inl ⟨pb, rfl, .inr (.inr (.inr ⟨a, b, h.symm⟩))⟩
  case subscribe.some s c =>
    cases c <;> simp [resultFor] at h
    case suback a b => exact .inr (.inl ⟨s, a, b, rfl, h.symm⟩)
  case unsubscribe.some s c =>
    cases c <;> simp [resultFor] at h
    case unsuback a b => exact .inr (.inr ⟨s, a, b, rfl, h.symm⟩)

/-- **Success delivers exactly one result and stops tracking the operation**, releasing its packet id. -/
theorem success_resolves_once (e : Engine) (id idx : Nat) (o : Op) (t : Option Nat) (c : Option Completion) (res : Completion)
    (ho : e.op? id = some o) (hu : o.user = some (idx, t)) (hnd : isDisconnect o.packet = false) (hss : o.slowStart = 0)
    (hres : resultFor o.packet c = some res) :
    ∃ e', e.completeSuccess id c = (e', .ok) ∧ e'.outComps = e.outComps ++ [(idx, res)] ∧ e'.op? id = none := by
  have hA : ∀ en : Engine, en.applyAckable o = some en := by
    intro en; simp [Engine.applyAckable, hss]
  have hD : ∀ en : Engine, en.applyDisconnectCompletion o = (en, .ok) := by
    intro en; simp [Engine.applyDisconnectCompletion, hnd]
  have hP : ∀ en : Engine, (en.applyPingExtension o).outComps = en.outComps ∧ (en.applyPingExtension o).ops = en.ops := by
    intro en
    obtain ⟨np, h⟩ := applyPingExtension_only_nextPing en o
    rw [h]; exact ⟨rfl, rfl⟩
  simp only [Engine.completeSuccess, ho, hA, hD, hu, hres, Res.isOk, Bool.not_true, Bool.false_eq_true, ↓reduceIte]
  refine ⟨_, rfl, ?_, ?_⟩
  · simp [Engine.emit, (hP _).1, (releaseIds_ops _ o).2.1]
  · simp [Engine.emit, Engine.op?, (hP _).2, (releaseIds_ops _ o).1, lookup_mapErase_self]

/-- **Failure delivers exactly one error and stops tracking the operation.** -/
theorem failure_resolves_once (e : Engine) (id idx : Nat) (o : Op) (t : Option Nat) (k : String)
    (ho : e.op? id = some o) (hu : o.user = some (idx, t)) (hnd : isDisconnect o.packet = false) (hss : o.slowStart = 0) :
    ∃ e', e.completeFailure id k = (e', .ok) ∧ e'.outComps = e.outComps ++ [(idx, .err k)] ∧ e'.op? id = none := by
  have hA : ∀ en : Engine, en.applyAckable o = some en := by
    intro en; simp [Engine.applyAckable, hss]
  have hD : ∀ en : Engine, en.applyDisconnectCompletion o = (en, .ok) := by
    intro en; simp [Engine.applyDisconnectCompletion, hnd]
  simp only [Engine.completeFailure, ho, hA, hD, hu, Res.isOk, Bool.not_true, Bool.false_eq_true, ↓reduceIte]
  refine ⟨_, rfl, ?_, ?_⟩
  · simp [Engine.emit, (releaseIds_ops _ o).2.1]
  · simp [Engine.emit, Engine.op?, (releaseIds_ops _ o).1, lookup_mapErase_self]

/-- **Never twice.**  Completing an operation that is no longer tracked delivers nothing. -/
theorem second_completion_delivers_nothing (e : Engine) (id : Nat) (c : Option Completion) (k : String) (h : e.op? id = none) :
    (e.completeSuccess id c).1.outComps = e.outComps ∧ (e.completeFailure id k).1.outComps = e.outComps := by
  simp [Engine.completeSuccess, Engine.completeFailure, h]

/-- **A PUBACK completes only the QoS 1 publish that was sent with its packet id**; an unknown id, or the id of a
    QoS 2 publish, is a protocol error and completes nothing. -/
theorem puback_completes_its_own (e : Engine) (a : Ack) (hs : stateBlocksAcks e.state = false) :
    (e.handlePuback a = (e, .err "ProtocolError")) ∨
    (∃ opId, e.pendingPub.lookup a.packetId = some opId ∧ ((e.op? opId).bind (fun o => publishQos o.packet)) = some 1 ∧
      e.handlePuback a = e.completeSuccess opId (some (.puback a.packetId a.reasonCode))) := by
  simp only [Engine.handlePuback, hs, Bool.false_eq_true, ↓reduceIte]
  cases hl : e.pendingPub.lookup a.packetId with
  | none => left; rfl
  | some opId =>
    simp only []
    split
    · rename_i hq; right; exact ⟨opId, rfl, by simpa using hq, rfl⟩
    · left; rfl

/-- **A SUBACK completes only the SUBSCRIBE sent with its packet id, and only with one reason code per
    requested subscription.** -/
theorem suback_completes_its_own (e : Engine) (s : Suback) (hs : stateBlocksAcks e.state = false) :
    (∃ r, e.handleSuback s = (e, r) ∧ r ≠ .ok) ∨
    (∃ opId o sub, e.pendingNonPub.lookup s.packetId = some opId ∧ e.op? opId = some o ∧ o.packet = .subscribe sub ∧
      s.reasonCodes.length = sub.subscriptions.length ∧
      e.handleSuback s = e.completeSuccess opId (some (.suback s.packetId s.reasonCodes))) := by
  simp only [Engine.handleSuback, hs, Bool.false_eq_true, ↓reduceIte]
  cases hl : e.pendingNonPub.lookup s.packetId with
  | none => left; exact ⟨_, rfl, by simp⟩
  | some opId =>
    simp only []
    cases ho : e.op? opId with
    | none => left; exact ⟨_, rfl, by simp⟩
    | some o =>
      simp only []
      cases hp : o.packet <;> simp only [] <;> try (left; exact ⟨_, rfl, by simp⟩)
      rename_i sub
      by_cases hlen : s.reasonCodes.length ≠ sub.subscriptions.length
      · rw [if_pos hlen]; left; exact ⟨_, rfl, by simp⟩
      · rw [if_neg hlen]; right
        exact ⟨opId, o, sub, rfl, ho, hp, by simpa using hlen, rfl⟩

/-- **A PUBCOMP completes only a QoS 2 publish whose PUBREC was received** (PUBREL pending) under that id. -/
theorem pubcomp_needs_pubrec (e : Engine) (a : Ack) (opId : Nat) (o : Op) (p : Publish) (hs : stateBlocksAcks e.state = false)
    (hl : e.pendingPub.lookup a.packetId = some opId) (ho : e.op? opId = some o) (hp : o.packet = .publish p)
    (hnone : o.pubrel = none) : e.handlePubcomp a = (e, .err "ProtocolError") := by
  simp only [Engine.handlePubcomp, hs, Bool.false_eq_true, ↓reduceIte, hl, ho, hp, hnone]
  split <;> rfl

/-- **Reset (client closed): nothing stays tracked.** -/
theorem reset_leaves_nothing (e : Engine) :
    e.reset.ops = [] ∧ e.reset.userQ = [] ∧ e.reset.resubQ = [] ∧ e.reset.highQ = [] ∧ e.reset.current = none ∧
    e.reset.pendingPub = [] ∧ e.reset.pendingNonPub = [] ∧ e.reset.pendingWC = [] ∧ e.reset.allocated = [] ∧
    e.reset.timeouts = [] ∧ e.reset.inQos2 = [] := by
  simp [Engine.reset]

/-- non-vacuity for `success_resolves_once`: a tracked QoS 1 publish completed by its PUBACK -/
example : ∃ e', ({ cfg := {}, ops := [(5, { id := 5, packet := .publish { qos := 1, packetId := 9 }, user := some (0, none), packetId := some 9 })] } : Engine).completeSuccess 5 (some (.puback 9 0)) = (e', .ok)
    ∧ e'.outComps = [(0, .puback 9 0)] ∧ e'.op? 5 = none := by
  have := success_resolves_once { cfg := {}, ops := [(5, { id := 5, packet := .publish { qos := 1, packetId := 9 }, user := some (0, none), packetId := some 9 })] }
    5 0 { id := 5, packet := .publish { qos := 1, packetId := 9 }, user := some (0, none), packetId := some 9 } none (some (.puback 9 0)) (.puback 9 0)
    (by decide) rfl rfl rfl rfl
  simpa using this

end GV.Props.C01

namespace GV.Props.C01
open GV

/-! ### every history

  The theorems below quantify over **every** configuration and **every** finite sequence of events — user
  submissions, connection opened / closed, inbound bytes (any bytes), write completions, service calls with any
  buffer size, time queries and resets, in any order, legal for a driver or not.  `runEvents` folds `step` over the
  sequence and collects every completion handed to the user.  User operations are identified by the index the
  caller attaches to them (`UserEvent.idx`). -/

/-- **Conservation.**  After any history, the user operations still tracked by the engine together with those it has
    resolved are exactly the user operations that were submitted — as multisets: nothing is resolved that was not
    submitted, nothing is resolved more often than it was submitted, and nothing submitted is neither tracked nor
    resolved (no operation is silently dropped). -/
theorem tracked_or_resolved (cfg : Config) (evs : List Event) :
    (trackedIdx (runEvents (Engine.new cfg) evs).1.ops ++ (runEvents (Engine.new cfg) evs).2.map (·.1)).Perm
      (evs.flatMap Event.submitted) := by
  have h := (run_conserves evs (Engine.new cfg) (new_core_ok cfg) rfl).2.2
  simpa [trackedIdx, Engine.new] using h

/-- **Never twice.**  If the caller's indices are distinct, no operation is resolved twice — and none that has been
    resolved is still tracked. -/
theorem never_resolved_twice (cfg : Config) (evs : List Event) (hd : (evs.flatMap Event.submitted).Nodup) :
    ((runEvents (Engine.new cfg) evs).2.map (·.1)).Nodup ∧
    ∀ i ∈ (runEvents (Engine.new cfg) evs).2.map (·.1), i ∉ trackedIdx (runEvents (Engine.new cfg) evs).1.ops := by
  have h := tracked_or_resolved cfg evs
  have hn := (h.nodup_iff).mpr hd
  rw [List.nodup_append] at hn
  exact ⟨hn.2.1, fun i hi ht => hn.2.2 i ht i hi rfl⟩

/-- **Only what was submitted.**  Every completion belongs to a submitted operation. -/
theorem resolved_was_submitted (cfg : Config) (evs : List Event) :
    ∀ i ∈ (runEvents (Engine.new cfg) evs).2.map (·.1), i ∈ evs.flatMap Event.submitted := by
  intro i hi
  exact (tracked_or_resolved cfg evs).mem_iff.mp (List.mem_append_right _ hi)

theorem runEvents_append (e : Engine) (a b : List Event) :
    runEvents e (a ++ b) = ((runEvents (runEvents e a).1 b).1, (runEvents e a).2 ++ (runEvents (runEvents e a).1 b).2) := by
  induction a generalizing e with
  | nil => simp [runEvents]
  | cons ev rest ih =>
    simp only [List.cons_append, runEvents]
    rw [ih]
    simp [List.append_assoc]

/-- **Reset resolves everything.**  A history that ends with a reset (client closed) has resolved every submitted
    operation exactly once, and nothing stays tracked. -/
theorem reset_resolves_everything (cfg : Config) (evs : List Event) (t : Nat) :
    (runEvents (Engine.new cfg) (evs ++ [.reset t])).1.ops = [] ∧
    ((runEvents (Engine.new cfg) (evs ++ [.reset t])).2.map (·.1)).Perm (evs.flatMap Event.submitted) := by
  have h := tracked_or_resolved cfg (evs ++ [.reset t])
  have hops : (runEvents (Engine.new cfg) (evs ++ [.reset t])).1.ops = [] := by
    rw [runEvents_append]
    simp only [runEvents, step, Engine.finish]
    exact (reset_leaves_nothing _).1
  refine ⟨hops, ?_⟩
  rw [hops] at h
  simpa [trackedIdx, Event.submitted] using h

/-- non-vacuity: a concrete history (offline submission of a QoS 1 publish and a subscribe, connection, reset) in which
    both operations are resolved, each once -/
example : ((runEvents (Engine.new {}) [.user 0 (.publish { qos := 1, topic := [97] } 7 none), .opened 1 100,
      .user 2 (.subscribe { subscriptions := [{ topicFilter := [97] }] } 8 none), .service 3 4096 0, .reset 4]).2.map (·.1)).Perm [7, 8] := by
  decide +kernel

end GV.Props.C01

namespace GV.Props.C01
open GV

/-- **Never stranded.**  After any history, every tracked operation sits in a container from which a later event
    resolves it: one of the three queues, the current slot, the written-but-unflushed list, or a pending-ack table.
    (Together with `tracked_or_resolved`: an accepted operation is always either resolved or waiting somewhere.) -/
theorem tracked_is_located (cfg : Config) (evs : List Event) (id : Nat) (o : Op)
    (h : (runEvents (Engine.new cfg) evs).1.ops.lookup id = some o) :
    id ∈ (runEvents (Engine.new cfg) evs).1.userQ ∨ id ∈ (runEvents (Engine.new cfg) evs).1.resubQ ∨
    id ∈ (runEvents (Engine.new cfg) evs).1.highQ ∨ (runEvents (Engine.new cfg) evs).1.current = some id ∨
    id ∈ (runEvents (Engine.new cfg) evs).1.pendingWC ∨ id ∈ vals (runEvents (Engine.new cfg) evs).1.pendingPub ∨
    id ∈ vals (runEvents (Engine.new cfg) evs).1.pendingNonPub := by
  rcases (inv_after cfg evs).2.1.loc id o h with a | a
  · exact a
  · cases a

/-- **Acknowledgements find their own operation.**  After any history, an entry of the pending-subscribe table under a
    packet id names a tracked SUBSCRIBE/UNSUBSCRIBE that carries exactly that id, and an entry of the pending-publish
    table a tracked QoS 1/2 publish carrying that id — and no two operations carry the same id (Props/C06). -/
theorem pending_entries_name_their_operation (cfg : Config) (evs : List Event) (pid id : Nat) :
    ((runEvents (Engine.new cfg) evs).1.pendingNonPub.lookup pid = some id →
      ∃ o, (runEvents (Engine.new cfg) evs).1.ops.lookup id = some o ∧ o.packetId = some pid ∧ isSubOrUnsub o.packet = true) ∧
    ((runEvents (Engine.new cfg) evs).1.pendingPub.lookup pid = some id →
      ∃ o, (runEvents (Engine.new cfg) evs).1.ops.lookup id = some o ∧ o.packetId = some pid ∧ isAckedPublish o.packet = true) :=
  ⟨(inv_after cfg evs).2.1.tn pid id, (inv_after cfg evs).2.1.tp pid id⟩

/-- **Every operation waits in exactly one place.**  After any history the user queue, the resubmit queue, the
    written-but-unflushed list, the two pending-acknowledgement tables and the current slot (unless the pending-publish
    table already accounts for the operation: a PUBREL being written) name no operation twice - so no operation can be
    sent, acknowledged or resolved from two places. -/
theorem operation_sits_in_one_place (cfg : Config) (evs : List Event) : (runEvents (Engine.new cfg) evs).1.loc.Nodup :=
  loc_nodup _ (inv2_after cfg evs).1.2.1 (inv2_after cfg evs).2

/-- the operation being written is in neither queue, and (unless it has been filed by the write in progress) neither
    written-but-unflushed nor awaiting a SUBACK/UNSUBACK -/
theorem current_operation_is_nowhere_else (cfg : Config) (evs : List Event) (id : Nat)
    (h : (runEvents (Engine.new cfg) evs).1.current = some id) :
    id ∉ (runEvents (Engine.new cfg) evs).1.userQ ∧ id ∉ (runEvents (Engine.new cfg) evs).1.resubQ ∧
    id ∉ (runEvents (Engine.new cfg) evs).1.pendingWC ∧ id ∉ vals (runEvents (Engine.new cfg) evs).1.pendingNonPub :=
  let x := (inv2_after cfg evs).2
  ⟨(x.x4 id h).1, (x.x4 id h).2, x.x1a rfl id h, x.x1b rfl id h⟩

end GV.Props.C01
