import GV.Model.Engine
namespace GV.Props.C01
end GV.Props.C01
