/-
  Props/C02.lean — Outbound packets are spec-conformant and carry exactly what the user supplied.
  Property theorems only (helper lemmas live in Proofs/).  Statements quantify over every value,
  every step list and every sequence of buffer capacities; nothing here is sampled.
-/
import GV.Model.Encode
import GV.Proofs.Vli
import GV.Proofs.Encoder
import GV.Proofs.Lengths
namespace GV.Props.C02
open GV

/-- The variable-length integer the client writes is the standard's Variable Byte Integer, for
    every value the standard can express; larger values are refused, never truncated. -/
theorem vli_is_standard (v : Nat) :
    (v ≤ maxVli → encodeVli v = some (Spec.encVbi v)) ∧ (v > maxVli → encodeVli v = none) :=
  ⟨encodeVli_eq_spec v, (encodeVli_none_iff v).2⟩

/-- An independent decoder (written from the OASIS text) reads back every length the client writes,
    whatever follows it in the stream. -/
theorem vli_round_trip_independent (v : Nat) (rest : Bytes) (h : v ≤ maxVli) :
    ∃ bs, encodeVli v = some bs ∧ Spec.decVbi (bs ++ rest) = some (v, rest) :=
  ⟨Spec.encVbi v, encodeVli_eq_spec v h, specDecVbi_encVbi v rest h⟩

/-- The length function used for all Remaining Length / Property Length computations agrees with
    the number of bytes actually written. -/
theorem vli_size_matches (v : Nat) (h : v ≤ maxVli) :
    ∃ bs, encodeVli v = some bs ∧ vliSize v = some bs.length :=
  ⟨Spec.encVbi v, encodeVli_eq_spec v h, vliSize_eq_length v h⟩

/-- Chunking invariance of the resumable encoder: for every step list that can be encoded at all and
    every sequence of buffers (any capacity, any prefill) each leaving at least 4 free bytes, the
    concatenation of the chunks handed to the socket is the same byte string, no call fails, and
    `stepsWeight steps + 1` calls always suffice (termination). -/
theorem encoder_chunk_invariant (steps : List Step) (caps : List (Nat × Nat)) (bs : Bytes)
    (h : flattenSteps steps = some bs) (hc : ∀ c ∈ caps, 4 ≤ capFree c) :
    (encodeRun (stepsWeight steps + 1) steps caps []).2 = false ∧
    (encodeRun (stepsWeight steps + 1) steps caps []).1.flatten = bs := by
  have := encodeRun_correct (stepsWeight steps + 1) steps caps [] bs h hc (by omega)
  simpa using this

/-- Two different buffer sequences give the same stream. -/
theorem encoder_stream_independent_of_buffers (steps : List Step) (caps₁ caps₂ : List (Nat × Nat)) (bs : Bytes)
    (h : flattenSteps steps = some bs) (h₁ : ∀ c ∈ caps₁, 4 ≤ capFree c) (h₂ : ∀ c ∈ caps₂, 4 ≤ capFree c) :
    (encodeRun (stepsWeight steps + 1) steps caps₁ []).1.flatten =
    (encodeRun (stepsWeight steps + 1) steps caps₂ []).1.flatten := by
  rw [(encoder_chunk_invariant steps caps₁ bs h h₁).2, (encoder_chunk_invariant steps caps₂ bs h h₂).2]

/-- No call writes past the space it was given (so the output buffer is never resized). -/
theorem encoder_respects_capacity (steps : List Step) (free : Nat) :
    (encodeCall steps free).1.length ≤ free :=
  encodeCall_bound steps free

/-! ### the lengths a packet announces are the lengths it writes

For every packet and every alias resolution the Remaining Length written in the fixed header is exactly the number
of bytes the remaining steps write, and the Property Length is exactly the number of property bytes.  (Whatever the
steps write is what goes on the wire, in order, by `encoder_chunk_invariant`.) -/

/-- the bytes written have the length the steps add up to -/
theorem wire_length_is_steps_length (steps : List Step) (bs : Bytes) (h : flattenSteps steps = some bs) :
    bs.length = stepsLen steps := flattenSteps_length steps bs h

/-- **PUBLISH (MQTT 5), every alias resolution**: the steps are fixed header, topic/packet-id part, Property Length,
    properties, payload; Property Length = property bytes (the alias property included exactly when the resolution
    carries an alias) and Remaining Length = all bytes after the fixed header. -/
theorem publish5_lengths_exact (p : Publish) (r : Resolution) (rl pl : Nat) (h : publishLengths5 p r = some (rl, pl)) :
    publishSteps5 p r = some ([Step.u8 (publishFirstByte p), .vli rl] ++ publishPre p r ++ [Step.vli pl] ++ publishProps p r ++ payloadSteps p) ∧
    stepsLen (publishProps p r) = pl ∧
    stepsLen (publishPre p r ++ [Step.vli pl] ++ publishProps p r ++ payloadSteps p) = rl := by
  refine ⟨publishSteps5_shape p r rl pl h, ?_⟩
  unfold publishLengths5 at h
  cases hsid : subIdsLen p.subscriptionIds with
  | none => simp [hsid] at h
  | some sidLen =>
    simp only [hsid] at h
    have hprops := publishProps_len p r sidLen hsid
    generalize hpl' : userPropsLen p.userProps + optLen 2 p.payloadFormat + optLen 5 p.messageExpiry
        + optLen 3 r.alias + optBytesPropLen p.contentType + optBytesPropLen p.responseTopic
        + optBytesPropLen p.correlationData + sidLen = propLen at h hprops
    cases hvs : vliSize propLen with
    | none => simp [hvs] at h
    | some s =>
      simp only [hvs, Option.some.injEq, Prod.mk.injEq] at h
      obtain ⟨hrl, hpl⟩ := h
      subst hpl
      refine ⟨hprops, ?_⟩
      have hvpl : stepLen (Step.vli propLen) = s := by simp [stepLen, hvs]
      simp only [stepsLen_append, stepsLen_cons, stepsLen_nil, publishPre_len, hprops, payloadSteps_len, hvpl]
      rw [← hrl]
      unfold payloadLen
      cases p.payload <;> simp only [] <;> omega

/-- **PUBLISH (MQTT 3.1.1)**: Remaining Length = bytes after the fixed header. -/
theorem publish311_length_exact (p : Publish) :
    publishSteps311 p = [Step.u8 (publishFirstByte p), .vli (publishLength311 p)] ++ publishPre p {} ++ payloadSteps p ∧
    stepsLen (publishPre p {} ++ payloadSteps p) = publishLength311 p := by
  constructor
  · simp only [publishSteps311, publishPre, payloadSteps, List.append_assoc]
    cases p.payload <;> rfl
  · simp only [stepsLen_append, publishPre_len, payloadSteps_len, publishLength311]
    unfold payloadLen
    cases p.payload <;> simp

/-- **PUBACK / PUBREC / PUBREL / PUBCOMP (MQTT 5)**: Remaining Length = bytes after the fixed header, in each of the
    three shapes (short form, reason code only, reason code + properties). -/
theorem ack5_length_exact (first : Nat) (p : Ack) (steps : List Step) (h : ackSteps5 first p = some steps) :
    ∃ rl body, steps = [Step.u8 first, .vli rl] ++ body ∧ stepsLen body = rl := by
  unfold ackSteps5 at h
  cases hl : ackLengths p with
  | none => simp [hl] at h
  | some x =>
    obtain ⟨rl, pl⟩ := x
    simp only [hl] at h
    unfold ackLengths at hl
    simp only [] at hl
    by_cases hp0 : userPropsLen p.userProps + optBytesPropLen p.reasonString = 0
    · rw [if_pos hp0] at hl
      by_cases hrc : p.reasonCode = 0
      · rw [if_pos hrc] at hl
        simp only [Option.some.injEq, Prod.mk.injEq] at hl
        obtain ⟨rfl, rfl⟩ := hl
        have hb : (p.reasonCode = 0 && (0 : Nat) = 0) = true := by simp [hrc]
        rw [if_pos hb] at h
        simp only [Option.some.injEq] at h
        subst h
        exact ⟨2, [.u16 p.packetId], rfl, by simp [stepLen]⟩
      · rw [if_neg hrc] at hl
        simp only [Option.some.injEq, Prod.mk.injEq] at hl
        obtain ⟨rfl, rfl⟩ := hl
        have hb : ¬ ((p.reasonCode = 0 && (0 : Nat) = 0) = true) := by simp [hrc]
        rw [if_neg hb, if_pos rfl] at h
        simp only [Option.some.injEq] at h
        subst h
        exact ⟨3, [.u16 p.packetId, .u8 p.reasonCode], rfl, by simp [stepLen]⟩
    · rw [if_neg hp0] at hl
      cases hvs : vliSize (userPropsLen p.userProps + optBytesPropLen p.reasonString) with
      | none => simp [hvs] at hl
      | some s =>
        simp only [hvs, Option.some.injEq, Prod.mk.injEq] at hl
        obtain ⟨rfl, rfl⟩ := hl
        have hb : ¬ ((p.reasonCode = 0 && userPropsLen p.userProps + optBytesPropLen p.reasonString = 0) = true) := by
          simp only [Bool.and_eq_true, decide_eq_true_eq, not_and]; intro _; exact hp0
        rw [if_neg hb, if_neg hp0] at h
        simp only [Option.some.injEq] at h
        subst h
        refine ⟨3 + (userPropsLen p.userProps + optBytesPropLen p.reasonString) + s,
          [.u16 p.packetId, .u8 p.reasonCode, .vli (userPropsLen p.userProps + optBytesPropLen p.reasonString)]
          ++ stOptBytesProp 31 p.reasonString ++ stUserProps p.userProps, by simp, ?_⟩
        simp [stepLen, hvs, stOptBytesProp_len, stUserProps_len]
        omega

/-- Non-vacuity: a concrete PUBLISH with a 9-byte payload through 4- and 5-byte buffers meets the
    hypotheses of `encoder_chunk_invariant` and produces its 19 bytes. -/
def demoPublish : Publish :=
  { topic := [97, 47, 98], qos := 1, packetId := 7, payload := some [1, 2, 3, 4, 5, 6, 7, 8, 9] }

example :
    (do let steps ← publishSteps5 demoPublish {}
        let bs ← flattenSteps steps
        pure ((encodeRun (stepsWeight steps + 1) steps [(4, 0), (5, 1)] []).1.flatten == bs && bs.length == 19
              && ([(4, 0), (5, 1)] : List (Nat × Nat)).all (fun c => decide (4 ≤ capFree c))))
      = some true := by
  decide

end GV.Props.C02
