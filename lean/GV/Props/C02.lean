import GV.Model.Encode
namespace GV.Props.C02
end GV.Props.C02
