/-
  Props/C02.lean — Outbound packets are spec-conformant and carry exactly what the user supplied.
  Property theorems only (helper lemmas live in Proofs/).  Statements quantify over every value,
  every step list and every sequence of buffer capacities; nothing here is sampled.
-/
import GV.Model.Encode
import GV.Proofs.Vli
import GV.Proofs.Encoder
import GV.Proofs.Lengths
namespace GV.Props.C02
open GV

/-- The variable-length integer the client writes is the standard's Variable Byte Integer, for
    every value the standard can express; larger values are refused, never truncated. -/
theorem vli_is_standard (v : Nat) :
    (v ≤ maxVli → encodeVli v = some (Spec.encVbi v)) ∧ (v > maxVli → encodeVli v = none) :=
  ⟨encodeVli_eq_spec v, (encodeVli_none_iff v).2⟩

/-- An independent decoder (written from the OASIS text) reads back every length the client writes,
    whatever follows it in the stream. -/
theorem vli_round_trip_independent (v : Nat) (rest : Bytes) (h : v ≤ maxVli) :
    ∃ bs, encodeVli v = some bs ∧ Spec.decVbi (bs ++ rest) = some (v, rest) :=
  ⟨Spec.encVbi v, encodeVli_eq_spec v h, specDecVbi_encVbi v rest h⟩

/-- The length function used for all Remaining Length / Property Length computations agrees with
    the number of bytes actually written. -/
theorem vli_size_matches (v : Nat) (h : v ≤ maxVli) :
    ∃ bs, encodeVli v = some bs ∧ vliSize v = some bs.length :=
  ⟨Spec.encVbi v, encodeVli_eq_spec v h, vliSize_eq_length v h⟩

/-- Chunking invariance of the resumable encoder: for every step list that can be encoded at all and
    every sequence of buffers (any capacity, any prefill) each leaving at least 4 free bytes, the
    concatenation of the chunks handed to the socket is the same byte string, no call fails, and
    `stepsWeight steps + 1` calls always suffice (termination). -/
theorem encoder_chunk_invariant (steps : List Step) (caps : List (Nat × Nat)) (bs : Bytes)
    (h : flattenSteps steps = some bs) (hc : ∀ c ∈ caps, 4 ≤ capFree c) :
    (encodeRun (stepsWeight steps + 1) steps caps []).2 = false ∧
    (encodeRun (stepsWeight steps + 1) steps caps []).1.flatten = bs := by
  have := encodeRun_correct (stepsWeight steps + 1) steps caps [] bs h hc (by omega)
  simpa using this

/-- Two different buffer sequences give the same stream. -/
theorem encoder_stream_independent_of_buffers (steps : List Step) (caps₁ caps₂ : List (Nat × Nat)) (bs : Bytes)
    (h : flattenSteps steps = some bs) (h₁ : ∀ c ∈ caps₁, 4 ≤ capFree c) (h₂ : ∀ c ∈ caps₂, 4 ≤ capFree c) :
    (encodeRun (stepsWeight steps + 1) steps caps₁ []).1.flatten =
    (encodeRun (stepsWeight steps + 1) steps caps₂ []).1.flatten := by
  rw [(encoder_chunk_invariant steps caps₁ bs h h₁).2, (encoder_chunk_invariant steps caps₂ bs h h₂).2]

/-- No call writes past the space it was given (so the output buffer is never resized). -/
theorem encoder_respects_capacity (steps : List Step) (free : Nat) :
    (encodeCall steps free).1.length ≤ free :=
  encodeCall_bound steps free

/-! ### the lengths a packet announces are the lengths it writes

For every packet and every alias resolution the Remaining Length written in the fixed header is exactly the number
of bytes the remaining steps write, and the Property Length is exactly the number of property bytes.  (Whatever the
steps write is what goes on the wire, in order, by `encoder_chunk_invariant`.) -/

/-- **A packet is complete with its last byte.**  When `Encoder::encode` returns with steps left over, those steps still have
    a byte to emit: a packet that ends in an empty field (a present but empty payload, an empty client id) is reported complete
    by the call that writes its last byte, however full the buffer is - it is never left "being written" with nothing more
    to write (which stranded a QoS 0 result, had the server's CONNACK / PUBACK for the completely written packet refused, and
    re-sent a QoS 2 publish as a new message after a reconnect). -/
theorem packet_complete_with_its_last_byte (steps : List Step) (free : Nat) (hok : (encodeCall steps free).2.2 = false)
    (h : flattenSteps (encodeCall steps free).2.1 = some []) : (encodeCall steps free).2.1 = [] :=
  encodeCall_rest_has_bytes steps free hok h

/-- a PUBLISH with an empty payload into a buffer with room for exactly its bytes: complete -/
example : (encodeCall [.u8 48, .vli 5, .u16 3, .slice [116, 47, 49], .slice []] 8).2.1 = [] := by decide

/-- the bytes written have the length the steps add up to -/
theorem wire_length_is_steps_length (steps : List Step) (bs : Bytes) (h : flattenSteps steps = some bs) :
    bs.length = stepsLen steps := flattenSteps_length steps bs h

/-- **PUBLISH (MQTT 5), every alias resolution**: the steps are fixed header, topic/packet-id part, Property Length,
    properties, payload; Property Length = property bytes (the alias property included exactly when the resolution
    carries an alias) and Remaining Length = all bytes after the fixed header. -/
theorem publish5_lengths_exact (p : Publish) (r : Resolution) (rl pl : Nat) (h : publishLengths5 p r = some (rl, pl)) :
    publishSteps5 p r = some ([Step.u8 (publishFirstByte p), .vli rl] ++ publishPre p r ++ [Step.vli pl] ++ publishProps p r ++ payloadSteps p) ∧
    stepsLen (publishProps p r) = pl ∧
    stepsLen (publishPre p r ++ [Step.vli pl] ++ publishProps p r ++ payloadSteps p) = rl := by
  refine ⟨publishSteps5_shape p r rl pl h, ?_⟩
  unfold publishLengths5 at h
  cases hsid : subIdsLen p.subscriptionIds with
  | none => simp [hsid] at h
  | some sidLen =>
    simp only [hsid] at h
    have hprops := publishProps_len p r sidLen hsid
    generalize hpl' : userPropsLen p.userProps + optLen 2 p.payloadFormat + optLen 5 p.messageExpiry
        + optLen 3 r.alias + optBytesPropLen p.contentType + optBytesPropLen p.responseTopic
        + optBytesPropLen p.correlationData + sidLen = propLen at h hprops
    cases hvs : vliSize propLen with
    | none => simp [hvs] at h
    | some s =>
      simp only [hvs, Option.some.injEq, Prod.mk.injEq] at h
      obtain ⟨hrl, hpl⟩ := h
      subst hpl
      refine ⟨hprops, ?_⟩
      have hvpl : stepLen (Step.vli propLen) = s := by simp [stepLen, hvs]
      simp only [stepsLen_append, stepsLen_cons, stepsLen_nil, publishPre_len, hprops, payloadSteps_len, hvpl]
      rw [← hrl]
      unfold payloadLen
      cases p.payload <;> simp only [] <;> omega

/-- **PUBLISH (MQTT 3.1.1)**: Remaining Length = bytes after the fixed header. -/
theorem publish311_length_exact (p : Publish) :
    publishSteps311 p = [Step.u8 (publishFirstByte p), .vli (publishLength311 p)] ++ publishPre p {} ++ payloadSteps p ∧
    stepsLen (publishPre p {} ++ payloadSteps p) = publishLength311 p := by
  constructor
  · simp only [publishSteps311, publishPre, payloadSteps, List.append_assoc]
    cases p.payload <;> rfl
  · simp only [stepsLen_append, publishPre_len, payloadSteps_len, publishLength311]
    unfold payloadLen
    cases p.payload <;> simp

/-- **PUBACK / PUBREC / PUBREL / PUBCOMP (MQTT 5)**: Remaining Length = bytes after the fixed header, in each of the
    three shapes (short form, reason code only, reason code + properties). -/
theorem ack5_length_exact (first : Nat) (p : Ack) (steps : List Step) (h : ackSteps5 first p = some steps) :
    ∃ rl body, steps = [Step.u8 first, .vli rl] ++ body ∧ stepsLen body = rl := by
  unfold ackSteps5 at h
  cases hl : ackLengths p with
  | none => simp [hl] at h
  | some x =>
    obtain ⟨rl, pl⟩ := x
    simp only [hl] at h
    unfold ackLengths at hl
    simp only [] at hl
    by_cases hp0 : userPropsLen p.userProps + optBytesPropLen p.reasonString = 0
    · rw [if_pos hp0] at hl
      by_cases hrc : p.reasonCode = 0
      · rw [if_pos hrc] at hl
        simp only [Option.some.injEq, Prod.mk.injEq] at hl
        obtain ⟨rfl, rfl⟩ := hl
        have hb : (p.reasonCode = 0 && (0 : Nat) = 0) = true := by simp [hrc]
        rw [if_pos hb] at h
        simp only [Option.some.injEq] at h
        subst h
        exact ⟨2, [.u16 p.packetId], rfl, by simp [stepLen]⟩
      · rw [if_neg hrc] at hl
        simp only [Option.some.injEq, Prod.mk.injEq] at hl
        obtain ⟨rfl, rfl⟩ := hl
        have hb : ¬ ((p.reasonCode = 0 && (0 : Nat) = 0) = true) := by simp [hrc]
        rw [if_neg hb, if_pos rfl] at h
        simp only [Option.some.injEq] at h
        subst h
        exact ⟨3, [.u16 p.packetId, .u8 p.reasonCode], rfl, by simp [stepLen]⟩
    · rw [if_neg hp0] at hl
      cases hvs : vliSize (userPropsLen p.userProps + optBytesPropLen p.reasonString) with
      | none => simp [hvs] at hl
      | some s =>
        simp only [hvs, Option.some.injEq, Prod.mk.injEq] at hl
        obtain ⟨rfl, rfl⟩ := hl
        have hb : ¬ ((p.reasonCode = 0 && userPropsLen p.userProps + optBytesPropLen p.reasonString = 0) = true) := by
          simp only [Bool.and_eq_true, decide_eq_true_eq, not_and]; intro _; exact hp0
        rw [if_neg hb, if_neg hp0] at h
        simp only [Option.some.injEq] at h
        subst h
        refine ⟨3 + (userPropsLen p.userProps + optBytesPropLen p.reasonString) + s,
          [.u16 p.packetId, .u8 p.reasonCode, .vli (userPropsLen p.userProps + optBytesPropLen p.reasonString)]
          ++ stOptBytesProp 31 p.reasonString ++ stUserProps p.userProps, by simp, ?_⟩
        simp [stepLen, hvs, stOptBytesProp_len, stUserProps_len]
        omega

/-- **SUBSCRIBE (MQTT 5)**: Remaining Length and Property Length are exact. -/
theorem subscribe5_lengths_exact (p : Subscribe) (rl pl : Nat) (h : subscribeLengths5 p = some (rl, pl)) :
    ∃ props entries, subscribeSteps5 p = some ([Step.u8 130, .vli rl, .u16 p.packetId, .vli pl] ++ props ++ entries) ∧
      stepsLen props = pl ∧ stepsLen ([Step.u16 p.packetId, .vli pl] ++ props ++ entries) = rl := by
  refine ⟨stOptNum .vli 11 p.subscriptionId ++ stUserProps p.userProps,
    p.subscriptions.flatMap (fun s => stLenBytes s.topicFilter ++ [Step.u8 (subscriptionOptions5 s)]), ?_, ?_⟩
  · simp only [subscribeSteps5, h, List.append_assoc, List.cons_append, List.nil_append]
  · unfold subscribeLengths5 at h
    cases hsid : optVliPropLen p.subscriptionId with
    | none => simp [hsid] at h
    | some sidLen =>
      simp only [hsid] at h
      cases hvs : vliSize (userPropsLen p.userProps + sidLen) with
      | none => simp [hvs] at h
      | some s =>
        simp only [hvs, Option.some.injEq, Prod.mk.injEq] at h
        obtain ⟨hrl, hpl⟩ := h
        have hprops : stepsLen (stOptNum .vli 11 p.subscriptionId ++ stUserProps p.userProps) = pl := by
          rw [stepsLen_append, stOptNum_vli_len 11 _ _ hsid, stUserProps_len, ← hpl]; omega
        refine ⟨hprops, ?_⟩
        have hvpl : stepLen (Step.vli pl) = s := by simp [stepLen, ← hpl, hvs]
        simp only [stepsLen_append, stepsLen_cons, stepsLen_nil, hprops, sub_entries_len]
        rw [hvpl]
        simp only [stepLen]
        omega

/-- **UNSUBSCRIBE (MQTT 5)**: Remaining Length and Property Length are exact. -/
theorem unsubscribe5_lengths_exact (p : Unsubscribe) (rl pl : Nat) (h : unsubscribeLengths5 p = some (rl, pl)) :
    unsubscribeSteps5 p = some ([Step.u8 162, .vli rl, .u16 p.packetId, .vli pl] ++ stUserProps p.userProps ++ p.topicFilters.flatMap stLenBytes) ∧
      stepsLen (stUserProps p.userProps) = pl ∧
      stepsLen ([Step.u16 p.packetId, .vli pl] ++ stUserProps p.userProps ++ p.topicFilters.flatMap stLenBytes) = rl := by
  refine ⟨by simp only [unsubscribeSteps5, h], ?_⟩
  unfold unsubscribeLengths5 at h
  simp only [] at h
  cases hvs : vliSize (userPropsLen p.userProps) with
  | none => simp [hvs] at h
  | some s =>
    simp only [hvs, Option.some.injEq, Prod.mk.injEq] at h
    obtain ⟨hrl, hpl⟩ := h
    refine ⟨by rw [stUserProps_len]; exact hpl, ?_⟩
    have hvpl : stepLen (Step.vli pl) = s := by simp [stepLen, ← hpl, hvs]
    simp only [stepsLen_append, stepsLen_cons, stepsLen_nil, stUserProps_len, unsub_filters_len]
    rw [hvpl]
    simp only [stepLen]
    omega

/-- **SUBSCRIBE / UNSUBSCRIBE (MQTT 3.1.1)**: Remaining Length is exact. -/
theorem subscribe311_length_exact (p : Subscribe) :
    ∃ body, subscribeSteps311 p = [Step.u8 130, .vli (subscribeLength311 p)] ++ body ∧ stepsLen body = subscribeLength311 p := by
  refine ⟨[.u16 p.packetId] ++ p.subscriptions.flatMap (fun s => stLenBytes s.topicFilter ++ [Step.u8 s.qos]), by simp [subscribeSteps311], ?_⟩
  simp only [stepsLen_append, stepsLen_cons, stepsLen_nil, sub_entries_len, subscribeLength311, stepLen]
  omega

theorem unsubscribe311_length_exact (p : Unsubscribe) :
    ∃ body, unsubscribeSteps311 p = [Step.u8 162, .vli (unsubscribeLength311 p)] ++ body ∧ stepsLen body = unsubscribeLength311 p := by
  refine ⟨[.u16 p.packetId] ++ p.topicFilters.flatMap stLenBytes, by simp [unsubscribeSteps311], ?_⟩
  simp only [stepsLen_append, stepsLen_cons, stepsLen_nil, unsub_filters_len, unsubscribeLength311, stepLen]
  omega


theorem stOptBool_len (k : Nat) (o : Option Bool) : stepsLen (stOptBool k o) = optLen 2 o := by
  cases o <;> simp [stOptBool, optLen, stepLen]

theorem stLenOptBytes_len (o : Option Bytes) : stepsLen (stLenOptBytes o) = optBytesLen o := by
  cases o <;> simp [stLenOptBytes, optBytesLen, stepLen]

/-- **CONNECT (MQTT 3.1.1)**: Remaining Length is exact. -/
theorem connect311_length_exact (p : Connect) (steps : List Step) (h : connectSteps311 p = some steps) :
    ∃ rl body, steps = [Step.u8 16, .vli rl] ++ body ∧ stepsLen body = rl := by
  unfold connectSteps311 at h
  cases hl : connectLength311 p with
  | none => simp [hl] at h
  | some rl =>
    simp only [hl, Option.some.injEq] at h
    subst h
    refine ⟨rl, _, by simp only [List.cons_append, List.nil_append, List.append_assoc]; rfl, ?_⟩
    unfold connectLength311 at hl
    simp only [] at hl
    cases hw : p.will <;> cases hu : p.username <;> cases hpw : p.password <;> simp only [hw, hu, hpw] at hl ⊢ <;>
      (split at hl
       · simp at hl
       · simp only [Option.some.injEq] at hl
         subst hl
         simp [stepLen, protocolBytes311, stLenBytes, stLenOptBytes_len, stepsLen_append]
         try omega)

theorem connectPropSteps_len (p : Connect) : stepsLen (connectPropSteps p) = connectPropLen p := by
  simp only [connectPropSteps, connectPropLen, stepsLen_append, stOptNum_u32_len, stOptNum_u16_len, stOptBool_len,
    stOptBytesProp_len, stUserProps_len]
  omega

theorem credSteps_len (p : Connect) : stepsLen (credSteps p) = credLen p := by
  unfold credSteps credLen
  cases p.username <;> cases p.password <;> simp [stLenBytes, stepLen] <;> omega

theorem willSteps_len (p : Connect) (wlen wpl : Nat) (h : willPart p = some (wlen, wpl)) : stepsLen (willSteps p wpl) = wlen := by
  unfold willPart at h
  unfold willSteps
  cases hw : p.will with
  | none => simp [hw] at h; simp [h.1]
  | some w =>
    simp only [hw] at h ⊢
    cases hws : vliSize (willPropLen p w) with
    | none => simp [hws] at h
    | some ws =>
      simp only [hws, Option.some.injEq, Prod.mk.injEq] at h
      obtain ⟨hlen, hwpl⟩ := h
      have hv : stepLen (Step.vli wpl) = ws := by simp [stepLen, ← hwpl, hws]
      simp only [stepsLen_append, stepsLen_cons, stepsLen_nil, stOptNum_u32_len, stOptNum_u8_len, stOptBytesProp_len,
        stUserProps_len, stLenBytes_len, stLenOptBytes_len]
      rw [hv, ← hlen]
      simp only [willPropLen]
      omega

/-- **CONNECT (MQTT 5)**: Remaining Length, CONNECT Property Length and Will Property Length are exact. -/
theorem connect5_lengths_exact (p : Connect) (rl pl wpl : Nat) (h : connectLengths5 p = some (rl, pl, wpl)) :
    connectSteps5 p = some ([Step.u8 16, .vli rl, .slice protocolBytes5, .u8 (connectFlags p), .u16 p.keepAlive, .vli pl]
      ++ connectPropSteps p ++ stLenOptBytes p.clientId ++ willSteps p wpl ++ credSteps p) ∧
    stepsLen (connectPropSteps p) = pl ∧
    stepsLen ([Step.slice protocolBytes5, .u8 (connectFlags p), .u16 p.keepAlive, .vli pl]
      ++ connectPropSteps p ++ stLenOptBytes p.clientId ++ willSteps p wpl ++ credSteps p) = rl := by
  refine ⟨by simp only [connectSteps5, h], ?_⟩
  unfold connectLengths5 at h
  cases hvs : vliSize (connectPropLen p) with
  | none => simp [hvs] at h
  | some s =>
    simp only [hvs] at h
    cases hwp : willPart p with
    | none => simp [hwp] at h
    | some x =>
      obtain ⟨wlen, wpl'⟩ := x
      simp only [hwp] at h
      by_cases hgt : optBytesLen p.clientId + wlen + credLen p + (s + 10 + connectPropLen p) > maxVli
      · simp [hgt] at h
      · simp only [hgt, ↓reduceIte, Option.some.injEq, Prod.mk.injEq] at h
        obtain ⟨hrl, hpl, hwpl⟩ := h
        subst hwpl
        refine ⟨by rw [connectPropSteps_len]; exact hpl, ?_⟩
        have hv : stepLen (Step.vli pl) = s := by simp [stepLen, ← hpl, hvs]
        simp only [stepsLen_append, stepsLen_cons, stepsLen_nil, connectPropSteps_len, stLenOptBytes_len,
          willSteps_len p wlen wpl' hwp, credSteps_len]
        rw [hv, ← hrl]
        simp [stepLen, protocolBytes5]
        omega

/-- **DISCONNECT (MQTT 5)**: Remaining Length is exact in each of the three shapes. -/
theorem disconnect5_length_exact (p : Disconnect) (steps : List Step) (h : disconnectSteps5 p = some steps) :
    ∃ rl body, steps = [Step.u8 224, .vli rl] ++ body ∧ stepsLen body = rl := by
  unfold disconnectSteps5 at h
  cases hl : disconnectLengths p with
  | none => simp [hl] at h
  | some x =>
    obtain ⟨rl, pl⟩ := x
    simp only [hl] at h
    unfold disconnectLengths at hl
    simp only [] at hl
    by_cases hp0 : userPropsLen p.userProps + optLen 5 p.sessionExpiry + optBytesPropLen p.reasonString + optBytesPropLen p.serverReference = 0
    · rw [if_pos hp0] at hl
      by_cases hrc : p.reasonCode = 0
      · rw [if_pos hrc] at hl
        simp only [Option.some.injEq, Prod.mk.injEq] at hl
        obtain ⟨rfl, rfl⟩ := hl
        have hb : ((0 : Nat) = 0 && p.reasonCode = 0) = true := by simp [hrc]
        rw [if_pos hb] at h
        simp only [Option.some.injEq] at h
        subst h
        exact ⟨0, [], rfl, rfl⟩
      · rw [if_neg hrc] at hl
        simp only [Option.some.injEq, Prod.mk.injEq] at hl
        obtain ⟨rfl, rfl⟩ := hl
        have hb : ¬ (((0 : Nat) = 0 && p.reasonCode = 0) = true) := by simp [hrc]
        rw [if_neg hb, if_pos rfl] at h
        simp only [Option.some.injEq] at h
        subst h
        exact ⟨1, [.u8 p.reasonCode], rfl, by simp [stepLen]⟩
    · rw [if_neg hp0] at hl
      cases hvs : vliSize (userPropsLen p.userProps + optLen 5 p.sessionExpiry + optBytesPropLen p.reasonString + optBytesPropLen p.serverReference) with
      | none => simp [hvs] at hl
      | some s =>
        simp only [hvs, Option.some.injEq, Prod.mk.injEq] at hl
        obtain ⟨rfl, rfl⟩ := hl
        have hb : ¬ ((userPropsLen p.userProps + optLen 5 p.sessionExpiry + optBytesPropLen p.reasonString + optBytesPropLen p.serverReference = 0 && p.reasonCode = 0) = true) := by
          simp only [Bool.and_eq_true, decide_eq_true_eq, not_and]; intro h0; exact absurd h0 hp0
        rw [if_neg hb, if_neg hp0] at h
        simp only [Option.some.injEq] at h
        subst h
        refine ⟨1 + s + (userPropsLen p.userProps + optLen 5 p.sessionExpiry + optBytesPropLen p.reasonString + optBytesPropLen p.serverReference),
          [.u8 p.reasonCode, .vli (userPropsLen p.userProps + optLen 5 p.sessionExpiry + optBytesPropLen p.reasonString + optBytesPropLen p.serverReference)]
          ++ stOptNum .u32 17 p.sessionExpiry ++ stOptBytesProp 31 p.reasonString ++ stOptBytesProp 28 p.serverReference ++ stUserProps p.userProps, by simp, ?_⟩
        simp [stepLen, hvs, stOptNum_u32_len, stOptBytesProp_len, stUserProps_len]
        omega


/-- Non-vacuity: a concrete PUBLISH with a 9-byte payload through 4- and 5-byte buffers meets the
    hypotheses of `encoder_chunk_invariant` and produces its 19 bytes. -/
def demoPublish : Publish :=
  { topic := [97, 47, 98], qos := 1, packetId := 7, payload := some [1, 2, 3, 4, 5, 6, 7, 8, 9] }

example :
    (do let steps ← publishSteps5 demoPublish {}
        let bs ← flattenSteps steps
        pure ((encodeRun (stepsWeight steps + 1) steps [(4, 0), (5, 1)] []).1.flatten == bs && bs.length == 19
              && ([(4, 0), (5, 1)] : List (Nat × Nat)).all (fun c => decide (4 ≤ capFree c))))
      = some true := by
  decide

end GV.Props.C02
