/-
  Props/C02.lean — Outbound packets are spec-conformant and carry exactly what the user supplied.
  Property theorems only (helper lemmas live in Proofs/).  Statements quantify over every value,
  every step list and every sequence of buffer capacities; nothing here is sampled.
-/
import GV.Model.Encode
import GV.Proofs.Vli
import GV.Proofs.Encoder
namespace GV.Props.C02
open GV

/-- The variable-length integer the client writes is the standard's Variable Byte Integer, for
    every value the standard can express; larger values are refused, never truncated. -/
theorem vli_is_standard (v : Nat) :
    (v ≤ maxVli → encodeVli v = some (Spec.encVbi v)) ∧ (v > maxVli → encodeVli v = none) :=
  ⟨encodeVli_eq_spec v, (encodeVli_none_iff v).2⟩

/-- An independent decoder (written from the OASIS text) reads back every length the client writes,
    whatever follows it in the stream. -/
theorem vli_round_trip_independent (v : Nat) (rest : Bytes) (h : v ≤ maxVli) :
    ∃ bs, encodeVli v = some bs ∧ Spec.decVbi (bs ++ rest) = some (v, rest) :=
  ⟨Spec.encVbi v, encodeVli_eq_spec v h, specDecVbi_encVbi v rest h⟩

/-- The length function used for all Remaining Length / Property Length computations agrees with
    the number of bytes actually written. -/
theorem vli_size_matches (v : Nat) (h : v ≤ maxVli) :
    ∃ bs, encodeVli v = some bs ∧ vliSize v = some bs.length :=
  ⟨Spec.encVbi v, encodeVli_eq_spec v h, vliSize_eq_length v h⟩

/-- Chunking invariance of the resumable encoder: for every step list that can be encoded at all and
    every sequence of buffers (any capacity, any prefill) each leaving at least 4 free bytes, the
    concatenation of the chunks handed to the socket is the same byte string, no call fails, and
    `stepsWeight steps + 1` calls always suffice (termination). -/
theorem encoder_chunk_invariant (steps : List Step) (caps : List (Nat × Nat)) (bs : Bytes)
    (h : flattenSteps steps = some bs) (hc : ∀ c ∈ caps, 4 ≤ capFree c) :
    (encodeRun (stepsWeight steps + 1) steps caps []).2 = false ∧
    (encodeRun (stepsWeight steps + 1) steps caps []).1.flatten = bs := by
  have := encodeRun_correct (stepsWeight steps + 1) steps caps [] bs h hc (by omega)
  simpa using this

/-- Two different buffer sequences give the same stream. -/
theorem encoder_stream_independent_of_buffers (steps : List Step) (caps₁ caps₂ : List (Nat × Nat)) (bs : Bytes)
    (h : flattenSteps steps = some bs) (h₁ : ∀ c ∈ caps₁, 4 ≤ capFree c) (h₂ : ∀ c ∈ caps₂, 4 ≤ capFree c) :
    (encodeRun (stepsWeight steps + 1) steps caps₁ []).1.flatten =
    (encodeRun (stepsWeight steps + 1) steps caps₂ []).1.flatten := by
  rw [(encoder_chunk_invariant steps caps₁ bs h h₁).2, (encoder_chunk_invariant steps caps₂ bs h h₂).2]

/-- No call writes past the space it was given (so the output buffer is never resized). -/
theorem encoder_respects_capacity (steps : List Step) (free : Nat) :
    (encodeCall steps free).1.length ≤ free :=
  encodeCall_bound steps free

/-- Non-vacuity: a concrete PUBLISH with a 9-byte payload through 4- and 5-byte buffers meets the
    hypotheses of `encoder_chunk_invariant` and produces its 19 bytes. -/
def demoPublish : Publish :=
  { topic := [97, 47, 98], qos := 1, packetId := 7, payload := some [1, 2, 3, 4, 5, 6, 7, 8, 9] }

example :
    (do let steps ← publishSteps5 demoPublish {}
        let bs ← flattenSteps steps
        pure ((encodeRun (stepsWeight steps + 1) steps [(4, 0), (5, 1)] []).1.flatten == bs && bs.length == 19
              && ([(4, 0), (5, 1)] : List (Nat × Nat)).all (fun c => decide (4 ≤ capFree c))))
      = some true := by
  decide

end GV.Props.C02
