/-
  Props/C03.lean — Inbound decoding is faithful, chunking-invariant and robust to hostile bytes.
  Property theorems only.
-/
import GV.Model.Decode
import GV.Spec.Tables
import GV.Proofs.Decoder
import GV.Proofs.Vli
import GV.Proofs.DecodeSlice
import GV.Proofs.SizeVerdict
namespace GV.Props.C03
open GV

/-- Chunking invariance: for every decoder state, every byte stream and every way of splitting it
    into reads (empty reads, 1-byte reads, splits inside the length prefix included), the decoded
    packets, the verdict and the resulting decoder state equal those of the unsplit stream. -/
theorem chunk_invariant (cfg : DecodeCfg) (d : Decoder) (chunks : List Bytes) :
    feedChunksB cfg d chunks = feed cfg d chunks.flatten :=
  feedChunks_eq_feed_flatten cfg d chunks

/-- Two partitions of the same stream cannot be told apart. -/
theorem chunkings_agree (cfg : DecodeCfg) (d : Decoder) (c₁ c₂ : List Bytes) (h : c₁.flatten = c₂.flatten) :
    feedChunksB cfg d c₁ = feedChunksB cfg d c₂ := by
  rw [chunk_invariant, chunk_invariant, h]

/-- Feeding is an action of the byte-string monoid. -/
theorem feed_append_law (cfg : DecodeCfg) (d : Decoder) (a b : Bytes) :
    feed cfg d (a ++ b) = (feed cfg d a).andThen (fun d' => feed cfg d' b) :=
  feed_append cfg d a b

/-- Once failed, always failed: a terminal decoder rejects every further byte. -/
theorem terminal_absorbs (cfg : DecodeCfg) (d : Decoder) (b : UInt8) (h : d.state = .terminal) :
    stepByte cfg d b = (d, [], some .decodingFailure) :=
  stepByte_terminal cfg d b h

/-- Early rejection: the byte that completes a Remaining Length announcing more than the maximum
    packet size in force makes the decoder fail at once; no body byte is ever buffered. -/
theorem early_reject (cfg : DecodeCfg) (d : Decoder) (b : UInt8) (rl : Nat) (rest : Bytes)
    (hs : d.state = .readLength) (hv : decodeVli (d.scratch ++ [b]) = .value rl rest)
    (hbig : ¬ rl + 1 + (d.scratch ++ [b]).length ≤ cfg.limit) :
    (stepByte cfg d b).2.2 = some .decodingFailure ∧ (stepByte cfg d b).1.state = .terminal ∧
    (stepByte cfg d b).2.1 = [] := by
  simp only [stepByte, hs, stepLength, hv]
  rw [if_neg hbig]
  exact ⟨rfl, rfl, rfl⟩

/-- The other half of the size verdict: a completed Remaining Length whose packet fits the maximum in force is
    accepted and the decoder waits for exactly `rl` body bytes.  With `early_reject`: the verdict at the header is a
    function of the total size `1 + prefix length + rl` alone — the prefix bytes are counted from the scratch buffer,
    which holds all of them wherever the reads ended (`chunk_invariant`). -/
theorem within_limit_accepted (cfg : DecodeCfg) (d : Decoder) (b : UInt8) (rl : Nat) (rest : Bytes)
    (hs : d.state = .readLength) (hv : decodeVli (d.scratch ++ [b]) = .value rl rest)
    (hfit : rl + 1 + (d.scratch ++ [b]).length ≤ cfg.limit) (hrl : rl ≠ 0) :
    stepByte cfg d b = ({ d with state := .readBody, scratch := [], remaining := rl }, [], none) := by
  simp only [stepByte, hs, stepLength, hv]
  rw [if_pos hfit, if_neg hrl]

/-- Non-vacuity (the instance a seeded change got wrong): a PUBLISH of 203 bytes (`30 C8 01 ...`, Remaining Length
    200) under a maximum of 202 is rejected at the third byte wherever the reads end; under 203 it is accepted. -/
example : (feedChunksB { version := .v5, maxSize := 202 } {} [[0x30, 0xC8], [0x01]]).err = some .decodingFailure ∧
    (feedChunksB { version := .v5, maxSize := 202 } {} [[0x30], [0xC8], [0x01]]).err = some .decodingFailure ∧
    (feedChunksB { version := .v5, maxSize := 202 } {} [[0x30, 0xC8, 0x01]]).err = some .decodingFailure ∧
    (feedChunksB { version := .v5, maxSize := 203 } {} [[0x30, 0xC8], [0x01]]).err = none := by
  decide

/-- **Size verdict on the stream (reject).**  A fixed header whose Remaining Length `c ++ [last]` (continuation
    bytes, then the final byte) announces a packet larger than the maximum in force fails the decoder at the byte that
    completes the length — no packet, nothing of the body consumed — and by `chunk_invariant` this holds wherever
    the reads end, inside the prefix included. -/
theorem oversize_rejected_on_stream (cfg : DecodeCfg) (fb last : UInt8) (c rest : Bytes) (rl : Nat) (tl : Bytes)
    (hc : AllCont c) (hl : c.length ≤ 3) (hv : decodeVli (c ++ [last]) = .value rl tl)
    (hbig : cfg.limit < rl + 1 + (c.length + 1)) :
    (feed cfg {} (fb :: (c ++ last :: rest))).err = some .decodingFailure ∧
    (feed cfg {} (fb :: (c ++ last :: rest))).packets = [] ∧
    (feed cfg {} (fb :: (c ++ last :: rest))).dec.state = .terminal := by
  let d1 : Decoder := { state := .readLength, firstByte := fb, scratch := [] }
  have h0 : feed cfg {} (fb :: (c ++ last :: rest)) = feed cfg d1 (c ++ last :: rest) := by
    simp [feed, stepByte, d1]
  have h1 := feed_cont cfg c d1 (last :: rest) rfl (by simpa [d1] using hc) (by simp [d1]; omega)
  have h2 := early_reject cfg { d1 with scratch := d1.scratch ++ c } last rl tl rfl (by simpa [d1] using hv)
    (by simp [d1]; omega)
  rw [h0, h1]
  simp only [feed]
  rcases hst : stepByte cfg { d1 with scratch := d1.scratch ++ c } last with ⟨d', ps, e⟩
  rw [hst] at h2
  simp only at h2
  obtain ⟨he, hs, hp⟩ := h2
  subst he
  simp [hs, hp]

/-- **Size verdict on the stream (accept).**  The same header within the limit leaves the decoder waiting for exactly
    `rl` body bytes. -/
theorem fitting_header_accepted_on_stream (cfg : DecodeCfg) (fb last : UInt8) (c : Bytes) (rl : Nat) (tl : Bytes)
    (hc : AllCont c) (hl : c.length ≤ 3) (hv : decodeVli (c ++ [last]) = .value rl tl)
    (hfit : rl + 1 + (c.length + 1) ≤ cfg.limit) (hrl : rl ≠ 0) :
    feed cfg {} (fb :: (c ++ [last])) =
      { dec := { state := .readBody, firstByte := fb, scratch := [], remaining := rl }, packets := [], err := none } := by
  let d1 : Decoder := { state := .readLength, firstByte := fb, scratch := [] }
  have h0 : feed cfg {} (fb :: (c ++ [last])) = feed cfg d1 (c ++ [last]) := by
    simp [feed, stepByte, d1]
  have h1 := feed_cont cfg c d1 [last] rfl (by simpa [d1] using hc) (by simp [d1]; omega)
  have h2 := within_limit_accepted cfg { d1 with scratch := d1.scratch ++ c } last rl tl rfl (by simpa [d1] using hv)
    (by simp [d1]; omega) hrl
  rw [h0, h1]
  simp only [feed, h2]
  simp [d1]

/-- **Every conformant header.**  Whatever packet type and flags, a Remaining Length `rl` written as the standard
    prescribes and announcing `1 + prefix + rl` bytes above the maximum in force fails a fresh decoder at the last prefix
    byte, with no packet surfaced, whatever follows and (by `chunk_invariant`) wherever the reads end. -/
theorem conformant_oversize_header_rejected (cfg : DecodeCfg) (fb : UInt8) (rl : Nat) (rest : Bytes) (h : rl ≤ maxVli)
    (hbig : cfg.limit < rl + 1 + (Spec.encVbi rl).length) :
    (feed cfg {} (fb :: (Spec.encVbi rl ++ rest))).err = some .decodingFailure ∧
    (feed cfg {} (fb :: (Spec.encVbi rl ++ rest))).packets = [] := by
  obtain ⟨c, last, he, hc, hl⟩ := encVbi_split rl
  have hv := decodeVli_encVbi rl [] h
  rw [he] at hv hbig
  simp only [List.append_nil] at hv
  have := oversize_rejected_on_stream cfg fb last c rest rl [] hc hl hv (by simpa using hbig)
  rw [he]
  simp only [List.append_assoc, List.singleton_append]
  exact ⟨this.1, this.2.1⟩

/-- the same for every way of cutting that stream into reads -/
theorem conformant_oversize_any_chunking (cfg : DecodeCfg) (fb : UInt8) (rl : Nat) (rest : Bytes) (chunks : List Bytes)
    (h : rl ≤ maxVli) (hbig : cfg.limit < rl + 1 + (Spec.encVbi rl).length) (hch : chunks.flatten = fb :: (Spec.encVbi rl ++ rest)) :
    (feedChunksB cfg {} chunks).err = some .decodingFailure ∧ (feedChunksB cfg {} chunks).packets = [] := by
  rw [chunk_invariant, hch]; exact conformant_oversize_header_rejected cfg fb rl rest h hbig
/-- non-vacuity: the prefix `C8 01` (Remaining Length 200) meets the hypotheses -/
example : AllCont [0xC8] ∧ decodeVli ([0xC8] ++ [0x01]) = .value 200 [] := by
  refine ⟨?_, by decide⟩
  intro b hb; simp at hb; subst hb; decide

/-- The reason-code tables the decoder accepts are exactly the standard's, packet by packet. -/
theorem tables_match_standard :
    connectCodes = Spec.connackCodes ∧ pubackCodes = Spec.pubackCodes ∧ pubrecCodes = Spec.pubrecCodes ∧
    pubrelCodes = Spec.pubrelCodes ∧ pubcompCodes = Spec.pubcompCodes ∧ subackCodes = Spec.subackCodes ∧
    unsubackCodes = Spec.unsubackCodes ∧ disconnectCodes = Spec.disconnectCodes ∧ authCodes = Spec.authCodes ∧
    suback311Codes = Spec.suback311Codes ∧ connect311Map.map (·.1) = Spec.connack311Codes := by
  decide

/-- Length prefixes written by a conformant peer are read back exactly, whatever follows. -/
theorem length_prefix_round_trip (v : Nat) (rest : Bytes) (h : v ≤ maxVli) :
    decodeVli (Spec.encVbi v ++ rest) = .value v rest :=
  decodeVli_encVbi v rest h

/-! ### the decoder that is executed and compared with the implementation

`decodeBytes` is the literal, slice-level transcription of `Decoder::decode_bytes` (it takes the body out of
the read buffer in one piece and only uses the scratch buffer across calls); it is what `gvdriver` runs and what
the correspondence check compares with the real decoder.  The theorems above are about the byte-at-a-time
machine `feed`; the two are the same function on every decoder state that can occur between calls. -/

/-- **The executed decoder is the proven one**, for every slice and every between-calls decoder state. -/
theorem executed_decoder_is_feed (cfg : DecodeCfg) (d : Decoder) (bs : Bytes) (h : DInv d) :
    decodeBytes cfg d bs = feed cfg d bs :=
  decodeBytes_eq_feed cfg d bs h

/-- successive `decode_bytes` calls, one per read (a failed decoder ignores the rest) -/
def sliceChunks (cfg : DecodeCfg) : Decoder → List Bytes → FeedResult
  | d, [] => { dec := d, packets := [], err := none }
  | d, c :: cs => (decodeBytes cfg d c).andThen (fun d' => sliceChunks cfg d' cs)

theorem sliceChunks_eq_feedChunks (cfg : DecodeCfg) : ∀ (chunks : List Bytes) (d : Decoder), DInv d →
    sliceChunks cfg d chunks = feedChunksB cfg d chunks
  | [], _, _ => rfl
  | c :: cs, d, h => by
    simp only [sliceChunks, feedChunksB, decodeBytes_eq_feed cfg d c h]
    cases herr : (feed cfg d c).err with
    | some e => simp [FeedResult.andThen, herr]
    | none =>
      have hinv := feed_keeps_inv cfg c d h herr
      simp only [FeedResult.andThen, herr, sliceChunks_eq_feedChunks cfg cs _ hinv]

/-- **Chunking invariance of the executed decoder**: starting from a fresh decoder (or any between-calls
    state), every way of splitting a stream into reads yields the packets, verdict and state of the unsplit stream. -/
theorem executed_decoder_chunk_invariant (cfg : DecodeCfg) (d : Decoder) (h : DInv d) (chunks : List Bytes) :
    sliceChunks cfg d chunks = decodeBytes cfg d chunks.flatten := by
  rw [sliceChunks_eq_feedChunks cfg chunks d h, chunk_invariant, decodeBytes_eq_feed cfg d _ h]

theorem fresh_decoder_ok : DInv {} := DInv_init

/-- Non-vacuity: a PUBACK and a SUBACK split in the middle of the length prefix and of the body. -/
example :
    (feedChunksB { version := .v5, maxSize := 0 } {} [[0x40], [0x02, 0x00], [0x05, 0x90, 0x04], [0x00, 0x07, 0x00], [0x01]]).packets
      = [.puback { packetId := 5 }, .suback { packetId := 7, reasonCodes := [1] }] := by
  decide

end GV.Props.C03
