/-
  Props/C03.lean — Inbound decoding is faithful, chunking-invariant and robust to hostile bytes.
  Property theorems only.
-/
import GV.Model.Decode
import GV.Spec.Tables
import GV.Proofs.Decoder
import GV.Proofs.Vli
import GV.Proofs.DecodeSlice
namespace GV.Props.C03
open GV

/-- Chunking invariance: for every decoder state, every byte stream and every way of splitting it
    into reads (empty reads, 1-byte reads, splits inside the length prefix included), the decoded
    packets, the verdict and the resulting decoder state equal those of the unsplit stream. -/
theorem chunk_invariant (cfg : DecodeCfg) (d : Decoder) (chunks : List Bytes) :
    feedChunksB cfg d chunks = feed cfg d chunks.flatten :=
  feedChunks_eq_feed_flatten cfg d chunks

/-- Two partitions of the same stream cannot be told apart. -/
theorem chunkings_agree (cfg : DecodeCfg) (d : Decoder) (c₁ c₂ : List Bytes) (h : c₁.flatten = c₂.flatten) :
    feedChunksB cfg d c₁ = feedChunksB cfg d c₂ := by
  rw [chunk_invariant, chunk_invariant, h]

/-- Feeding is an action of the byte-string monoid. -/
theorem feed_append_law (cfg : DecodeCfg) (d : Decoder) (a b : Bytes) :
    feed cfg d (a ++ b) = (feed cfg d a).andThen (fun d' => feed cfg d' b) :=
  feed_append cfg d a b

/-- Once failed, always failed: a terminal decoder rejects every further byte. -/
theorem terminal_absorbs (cfg : DecodeCfg) (d : Decoder) (b : UInt8) (h : d.state = .terminal) :
    stepByte cfg d b = (d, [], some .decodingFailure) :=
  stepByte_terminal cfg d b h

/-- Early rejection: the byte that completes a Remaining Length announcing more than the maximum
    packet size in force makes the decoder fail at once; no body byte is ever buffered. -/
theorem early_reject (cfg : DecodeCfg) (d : Decoder) (b : UInt8) (rl : Nat) (rest : Bytes)
    (hs : d.state = .readLength) (hv : decodeVli (d.scratch ++ [b]) = .value rl rest)
    (hbig : ¬ rl + 1 + (d.scratch ++ [b]).length ≤ cfg.limit) :
    (stepByte cfg d b).2.2 = some .decodingFailure ∧ (stepByte cfg d b).1.state = .terminal ∧
    (stepByte cfg d b).2.1 = [] := by
  simp only [stepByte, hs, stepLength, hv]
  rw [if_neg hbig]
  exact ⟨rfl, rfl, rfl⟩

/-- The reason-code tables the decoder accepts are exactly the standard's, packet by packet. -/
theorem tables_match_standard :
    connectCodes = Spec.connackCodes ∧ pubackCodes = Spec.pubackCodes ∧ pubrecCodes = Spec.pubrecCodes ∧
    pubrelCodes = Spec.pubrelCodes ∧ pubcompCodes = Spec.pubcompCodes ∧ subackCodes = Spec.subackCodes ∧
    unsubackCodes = Spec.unsubackCodes ∧ disconnectCodes = Spec.disconnectCodes ∧ authCodes = Spec.authCodes ∧
    suback311Codes = Spec.suback311Codes ∧ connect311Map.map (·.1) = Spec.connack311Codes := by
  decide

/-- Length prefixes written by a conformant peer are read back exactly, whatever follows. -/
theorem length_prefix_round_trip (v : Nat) (rest : Bytes) (h : v ≤ maxVli) :
    decodeVli (Spec.encVbi v ++ rest) = .value v rest :=
  decodeVli_encVbi v rest h

/-! ### the decoder that is executed and compared with the implementation

`decodeBytes` is the literal, slice-level transcription of `Decoder::decode_bytes` (it takes the body out of
the read buffer in one piece and only uses the scratch buffer across calls); it is what `gvdriver` runs and what
the correspondence check compares with the real decoder.  The theorems above are about the byte-at-a-time
machine `feed`; the two are the same function on every decoder state that can occur between calls. -/

/-- **The executed decoder is the proven one**, for every slice and every between-calls decoder state. -/
theorem executed_decoder_is_feed (cfg : DecodeCfg) (d : Decoder) (bs : Bytes) (h : DInv d) :
    decodeBytes cfg d bs = feed cfg d bs :=
  decodeBytes_eq_feed cfg d bs h

/-- successive `decode_bytes` calls, one per read (a failed decoder ignores the rest) -/
def sliceChunks (cfg : DecodeCfg) : Decoder → List Bytes → FeedResult
  | d, [] => { dec := d, packets := [], err := none }
  | d, c :: cs => (decodeBytes cfg d c).andThen (fun d' => sliceChunks cfg d' cs)

theorem sliceChunks_eq_feedChunks (cfg : DecodeCfg) : ∀ (chunks : List Bytes) (d : Decoder), DInv d →
    sliceChunks cfg d chunks = feedChunksB cfg d chunks
  | [], _, _ => rfl
  | c :: cs, d, h => by
    simp only [sliceChunks, feedChunksB, decodeBytes_eq_feed cfg d c h]
    cases herr : (feed cfg d c).err with
    | some e => simp [FeedResult.andThen, herr]
    | none =>
      have hinv := feed_keeps_inv cfg c d h herr
      simp only [FeedResult.andThen, herr, sliceChunks_eq_feedChunks cfg cs _ hinv]

/-- **Chunking invariance of the executed decoder**: starting from a fresh decoder (or any between-calls
    state), every way of splitting a stream into reads yields the packets, verdict and state of the unsplit stream. -/
theorem executed_decoder_chunk_invariant (cfg : DecodeCfg) (d : Decoder) (h : DInv d) (chunks : List Bytes) :
    sliceChunks cfg d chunks = decodeBytes cfg d chunks.flatten := by
  rw [sliceChunks_eq_feedChunks cfg chunks d h, chunk_invariant, decodeBytes_eq_feed cfg d _ h]

theorem fresh_decoder_ok : DInv {} := DInv_init

/-- Non-vacuity: a PUBACK and a SUBACK split in the middle of the length prefix and of the body. -/
example :
    (feedChunksB { version := .v5, maxSize := 0 } {} [[0x40], [0x02, 0x00], [0x05, 0x90, 0x04], [0x00, 0x07, 0x00], [0x01]]).packets
      = [.puback { packetId := 5 }, .suback { packetId := 7, reasonCodes := [1] }] := by
  decide

end GV.Props.C03
