import GV.Model.Decode
namespace GV.Props.C03
end GV.Props.C03
