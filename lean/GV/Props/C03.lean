/-
  Props/C03.lean — Inbound decoding is faithful, chunking-invariant and robust to hostile bytes.
  Property theorems only.
-/
import GV.Model.Decode
import GV.Spec.Tables
import GV.Proofs.Decoder
import GV.Proofs.Vli
namespace GV.Props.C03
open GV

/-- Chunking invariance: for every decoder state, every byte stream and every way of splitting it
    into reads (empty reads, 1-byte reads, splits inside the length prefix included), the decoded
    packets, the verdict and the resulting decoder state equal those of the unsplit stream. -/
theorem chunk_invariant (cfg : DecodeCfg) (d : Decoder) (chunks : List Bytes) :
    feedChunksB cfg d chunks = feed cfg d chunks.flatten :=
  feedChunks_eq_feed_flatten cfg d chunks

/-- Two partitions of the same stream cannot be told apart. -/
theorem chunkings_agree (cfg : DecodeCfg) (d : Decoder) (c₁ c₂ : List Bytes) (h : c₁.flatten = c₂.flatten) :
    feedChunksB cfg d c₁ = feedChunksB cfg d c₂ := by
  rw [chunk_invariant, chunk_invariant, h]

/-- Feeding is an action of the byte-string monoid. -/
theorem feed_append_law (cfg : DecodeCfg) (d : Decoder) (a b : Bytes) :
    feed cfg d (a ++ b) = (feed cfg d a).andThen (fun d' => feed cfg d' b) :=
  feed_append cfg d a b

/-- Once failed, always failed: a terminal decoder rejects every further byte. -/
theorem terminal_absorbs (cfg : DecodeCfg) (d : Decoder) (b : UInt8) (h : d.state = .terminal) :
    stepByte cfg d b = (d, [], some .decodingFailure) :=
  stepByte_terminal cfg d b h

/-- Early rejection: the byte that completes a Remaining Length announcing more than the maximum
    packet size in force makes the decoder fail at once; no body byte is ever buffered. -/
theorem early_reject (cfg : DecodeCfg) (d : Decoder) (b : UInt8) (rl : Nat) (rest : Bytes)
    (hs : d.state = .readLength) (hv : decodeVli (d.scratch ++ [b]) = .value rl rest)
    (hbig : ¬ rl + 1 + (d.scratch ++ [b]).length ≤ cfg.limit) :
    (stepByte cfg d b).2.2 = some .decodingFailure ∧ (stepByte cfg d b).1.state = .terminal ∧
    (stepByte cfg d b).2.1 = [] := by
  simp only [stepByte, hs, hv]
  rw [if_neg hbig]
  exact ⟨rfl, rfl, rfl⟩

/-- The reason-code tables the decoder accepts are exactly the standard's, packet by packet. -/
theorem tables_match_standard :
    connectCodes = Spec.connackCodes ∧ pubackCodes = Spec.pubackCodes ∧ pubrecCodes = Spec.pubrecCodes ∧
    pubrelCodes = Spec.pubrelCodes ∧ pubcompCodes = Spec.pubcompCodes ∧ subackCodes = Spec.subackCodes ∧
    unsubackCodes = Spec.unsubackCodes ∧ disconnectCodes = Spec.disconnectCodes ∧ authCodes = Spec.authCodes ∧
    suback311Codes = Spec.suback311Codes ∧ connect311Map.map (·.1) = Spec.connack311Codes := by
  decide

/-- Length prefixes written by a conformant peer are read back exactly, whatever follows. -/
theorem length_prefix_round_trip (v : Nat) (rest : Bytes) (h : v ≤ maxVli) :
    decodeVli (Spec.encVbi v ++ rest) = .value v rest :=
  decodeVli_encVbi v rest h

/-- Non-vacuity: a PUBACK and a SUBACK split in the middle of the length prefix and of the body. -/
example :
    (feedChunksB { version := .v5, maxSize := 0 } {} [[0x40], [0x02, 0x00], [0x05, 0x90, 0x04], [0x00, 0x07, 0x00], [0x01]]).packets
      = [.puback { packetId := 5 }, .suback { packetId := 7, reasonCodes := [1] }] := by
  decide

end GV.Props.C03
