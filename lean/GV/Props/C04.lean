import GV.Model.Engine
namespace GV.Props.C04
end GV.Props.C04
