/-
  Props/C04.lean — QoS 1/2 publishes follow the delivery protocol across reconnects and sessions.
  About Model/Engine.lean: `handle_pubrec`, the packet choice in `service_queue_aux`, the DUP handling in
  `handle_network_event_connection_closed` and `apply_session_present_to_connection` (protocol.rs).
-/
import GV.Proofs.EngineWF
import GV.Proofs.EngineClose
namespace GV.Props.C04
open GV

/-- what `service_queue_aux` puts on the wire for an operation: the PUBREL once there is one, else its packet -/
def wirePacket (o : Op) : Packet := o.pubrel.getD o.packet

/-- **Once a PUBREC has been received the PUBLISH is never sent again**: from then on the operation's wire
    packet is a PUBREL with the same packet identifier. -/
theorem after_pubrec_only_pubrel (e : Engine) (a : Ack) (opId : Nat) (o : Op) (p : Publish)
    (hs : stateBlocksAcks e.state = false) (hl : e.pendingPub.lookup a.packetId = some opId)
    (ho : e.op? opId = some o) (hid : o.id = opId) (hp : o.packet = .publish p) (hq : p.qos = 2) (hrc : a.reasonCode < 128)
    (hfirst : o.pubrel = none) :
    let e' := (e.handlePubrec a).1
    (e.handlePubrec a).2 = .ok ∧
    (e'.op? opId).map wirePacket = some (.pubrel { packetId := a.packetId }) ∧ e'.highQ = e.highQ ++ [opId] := by
  subst hid
  have hn : ¬ (a.reasonCode ≥ 128) := by omega
  unfold Engine.op? at ho
  simp [Engine.handlePubrec, hs, hl, ho, hp, hq, hn, hfirst, Engine.setOp, Engine.enqueue, Engine.op?, lookup_mapInsert_self, wirePacket]

/-- **A second PUBREC for the same delivery is a protocol error**: its PUBREL is already queued, being written or sent, and
    is not queued a second time - neither packet of a delivery is ever repeated within one connection, whatever the server
    repeats.  (Whole-history counterpart: `Props/C04.pubrel_queued_at_most_once`.) -/
theorem second_pubrec_is_an_error (e : Engine) (a : Ack) (opId : Nat) (o : Op) (p : Publish)
    (hs : stateBlocksAcks e.state = false) (hl : e.pendingPub.lookup a.packetId = some opId)
    (ho : e.op? opId = some o) (hp : o.packet = .publish p) (hq : p.qos = 2) (hpr : o.pubrel.isSome = true) :
    e.handlePubrec a = (e, .err "ProtocolError") := by
  simp [Engine.handlePubrec, hs, hl, ho, hp, hq, hpr]

/-- a failing PUBREC ends the delivery: the operation completes with it and nothing more is sent for it -/
theorem failing_pubrec_completes (e : Engine) (a : Ack) (opId : Nat) (o : Op) (p : Publish)
    (hs : stateBlocksAcks e.state = false) (hl : e.pendingPub.lookup a.packetId = some opId)
    (ho : e.op? opId = some o) (hp : o.packet = .publish p) (hq : p.qos = 2) (hrc : a.reasonCode ≥ 128)
    (hfirst : o.pubrel = none) (hnc : e.current ≠ some opId) (hnq : opId ∉ e.highQ) :
    e.handlePubrec a = e.completeSuccess opId (some (.pubrec a.packetId a.reasonCode)) := by
  have : (e.current == some opId) = false := by simpa using hnc
  simp [Engine.handlePubrec, hs, hl, ho, hp, hq, hrc, hfirst, this, hnq]

/-- ... but not while the PUBREL of that operation is queued or being written (a successful PUBREC came first): the server
    cannot have seen the PUBREL yet, and completing the operation would drop the PUBREL (or pull it from under the encoder),
    so the (non-conformant) PUBREC is answered with a protocol error and the operation stays as it is -/
theorem failing_pubrec_before_pubrel_sent_is_an_error (e : Engine) (a : Ack) (opId : Nat) (o : Op) (p : Publish)
    (hs : stateBlocksAcks e.state = false) (hl : e.pendingPub.lookup a.packetId = some opId)
    (ho : e.op? opId = some o) (hp : o.packet = .publish p) (hq : p.qos = 2) (hrc : a.reasonCode ≥ 128)
    (hc : e.current = some opId ∨ opId ∈ e.highQ) : e.handlePubrec a = (e, .err "ProtocolError") := by
  cases hpr : o.pubrel.isSome with
  | true => simp [Engine.handlePubrec, hs, hl, ho, hp, hq, hpr]
  | false =>
    rcases hc with hc | hc
    · simp [Engine.handlePubrec, hs, hl, ho, hp, hq, hrc, hc, hpr]
    · simp [Engine.handlePubrec, hs, hl, ho, hp, hq, hrc, hc, hpr]

/-- **A PUBCOMP completes the delivery only after the PUBREL has left the client**: while the PUBREL is still queued or half
    written the PUBCOMP cannot be its answer - it is refused with a protocol error and the operation keeps its place, so
    the PUBREL is still sent (after the reconnect the error causes) until a PUBCOMP that answers it arrives. -/
theorem pubcomp_before_pubrel_sent_is_an_error (e : Engine) (a : Ack) (opId : Nat) (o : Op) (p : Publish)
    (hs : stateBlocksAcks e.state = false) (hl : e.pendingPub.lookup a.packetId = some opId)
    (ho : e.op? opId = some o) (hp : o.packet = .publish p) (hq : p.qos = 2)
    (hc : e.current = some opId ∨ opId ∈ e.highQ ∨ o.pubrel = none) : e.handlePubcomp a = (e, .err "ProtocolError") := by
  rcases hc with hc | hc | hc
  · cases hpr : o.pubrel <;> simp [Engine.handlePubcomp, hs, hl, ho, hp, hq, hc, hpr]
  · cases hpr : o.pubrel <;> simp [Engine.handlePubcomp, hs, hl, ho, hp, hq, hc, hpr]
  · simp [Engine.handlePubcomp, hs, hl, ho, hp, hq, hc]

theorem pubcomp_after_pubrel_sent_completes (e : Engine) (a : Ack) (opId : Nat) (o : Op) (p : Publish)
    (hs : stateBlocksAcks e.state = false) (hl : e.pendingPub.lookup a.packetId = some opId)
    (ho : e.op? opId = some o) (hp : o.packet = .publish p) (hq : p.qos = 2) (hpr : o.pubrel.isSome = true)
    (hnc : e.current ≠ some opId) (hnq : opId ∉ e.highQ) :
    e.handlePubcomp a = e.completeSuccess opId (some (.pubcomp a.packetId a.reasonCode)) := by
  have : (e.current == some opId) = false := by simpa using hnc
  simp [Engine.handlePubcomp, hs, hl, ho, hp, hq, hpr, this, hnq]

/-- **The first transmission has DUP = 0 and a retransmission DUP = 1 with everything else unchanged**: setting
    the flag changes only the flag. -/
theorem dup_changes_only_the_flag (p : Publish) (v : Bool) :
    setDup (.publish p) v = .publish { p with dup := v } := rfl

theorem dup_leaves_other_packets (p : Packet) (v : Bool) (h : ∀ pb, p ≠ .publish pb) : setDup p v = p := by
  cases p <;> simp [setDup] <;> exact absurd rfl (h _)

/-- marking an operation as a duplicate keeps its packet id, its PUBREL state and its content -/
theorem setDupFlag_keeps_identity (e : Engine) (id : Nat) (o : Op) (v : Bool) (ho : e.op? id = some o) (hid : o.id = id) :
    (e.setDupFlag id v).op? id = some { o with packet := setDup o.packet v } := by
  subst hid
  unfold Engine.op? at ho
  simp [Engine.setDupFlag, ho, Engine.setOp, Engine.op?, lookup_mapInsert_self]

/-- **Session lost: a retained publish restarts as a fresh message** — DUP cleared, packet id and PUBREL state
    dropped (the operation then gets a new id when it is sent). -/
theorem restart_clears_qos2_state (e : Engine) (id : Nat) (o : Op) (ho : e.op? id = some o) (hid : o.id = id) :
    ((e.clearQos2 id).op? id).bind (·.pubrel) = none := by
  subst hid
  unfold Engine.op? at ho
  simp [Engine.clearQos2, ho, Engine.setOp, Engine.op?, lookup_mapInsert_self]

/-- **A message reported complete is never transmitted again**: completion stops tracking the operation, and the
    service loop skips queue entries without an operation. -/
theorem completed_is_skipped (e : Engine) (all : Bool) (e1 : Engine) (id : Nat) (hc : e.current = none)
    (hd : e.dequeue all = (e1, some id)) (hgone : e1.op? id = none) :
    ∃ e', e.seatCurrent all = .cont e' ∧ e'.current = none := by
  have : ({ e1 with current := some id } : Engine).op? id = none := hgone
  simp [Engine.seatCurrent, hc, hd, this]

/-- within one connection a fully written publish waits in the pending table, it is not queued again -/
theorem written_publish_waits_for_ack (e : Engine) (id : Nat) (o : Op) (p : Publish)
    (hc : e.current = some id) (ho : e.op? id = some o) (hp : o.packet = .publish p) (hq : p.qos ≠ 0) :
    ∃ e', e.onFullyWritten = some e' ∧ e'.pendingPub.lookup p.packetId = some id ∧ e'.current = none ∧
      e'.userQ = e.userQ ∧ e'.resubQ = e.resubQ ∧ e'.highQ = e.highQ := by
  have harm : ∀ en : Engine, en.armPingDeadline o = en := by
    intro en; unfold Engine.armPingDeadline; rw [hp]
  simp only [Engine.onFullyWritten, hc, ho]
  rw [harm]
  simp only [Engine.fileWritten, hp, hq, ↓reduceIte]
  refine ⟨_, rfl, ?_⟩
  simp only [Engine.startAckTimeout]
  split <;> simp [Engine.setOp, lookup_mapInsert_self]

end GV.Props.C04

namespace GV.Props.C04
open GV

/-! ### every history -/

/-- **A PUBREL belongs to a delivery in progress.**  After any history: an operation that holds a PUBREL (its PUBREC was
    received) is either still in the pending-publish table of this connection or marked DUP for retransmission on a
    resumed session; whatever waits in the high-priority queue as a publish holds a PUBREL (a PUBLISH is never queued
    there), and a queued PUBREL belongs to an operation that is still pending. -/
theorem pubrel_belongs_to_a_delivery_in_progress (cfg : Config) (evs : List Event) (id : Nat) (o : Op)
    (h : (runEvents (Engine.new cfg) evs).1.ops.lookup id = some o) :
    (o.pubrel.isSome = true → pktDup o.packet = true ∨ id ∈ vals (runEvents (Engine.new cfg) evs).1.pendingPub) ∧
    (id ∈ (runEvents (Engine.new cfg) evs).1.highQ → isAckedPublish o.packet = true → o.pubrel.isSome = true) ∧
    (id ∈ (runEvents (Engine.new cfg) evs).1.highQ → o.pubrel.isSome = true → id ∈ vals (runEvents (Engine.new cfg) evs).1.pendingPub) := by
  have b := (inv_after cfg evs).2.1
  refine ⟨?_, fun hi hk => b.h2 id hi o h hk, fun hi hp => b.pr2 id hi o h hp⟩
  intro hp
  rcases b.pr id o h hp with a | a | a
  · exact .inl a
  · exact .inr a
  · cases a

/-- **Only a QoS 2 publish ever holds a PUBREL**, after any history; and while a PUBLISH (not yet its PUBREL) is the
    packet being written, its operation is not yet in the pending-publish table - so an acknowledgement arriving then
    cannot be taken for it. -/
theorem pubrel_only_for_qos2 (cfg : Config) (evs : List Event) (id : Nat) (o : Op)
    (h : (runEvents (Engine.new cfg) evs).1.ops.lookup id = some o) :
    (o.pubrel.isSome = true → publishQos o.packet = some 2) ∧
    ((runEvents (Engine.new cfg) evs).1.current = some id → id ∈ vals (runEvents (Engine.new cfg) evs).1.pendingPub →
      o.pubrel.isSome = true) :=
  let x := (inv2_after cfg evs).2
  ⟨x.x8 id o h, fun hc hm => x.x1c rfl id hc hm o h⟩

/-- **A PUBREL is queued at most once.**  After any history - whatever the server sent, repeated PUBRECs included - the
    high-priority queue names no operation twice: the PUBREL of a delivery (like every acknowledgement, ping, CONNECT and
    DISCONNECT queued there) is written once per connection, never repeated within it. -/
theorem pubrel_queued_at_most_once (cfg : Config) (evs : List Event) : (runEvents (Engine.new cfg) evs).1.highQ.Nodup :=
  (inv2_after cfg evs).2.x7

end GV.Props.C04
