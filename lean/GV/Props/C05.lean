/-
  Props/C05.lean — Inbound publishes are acked correctly; QoS 2 messages surface exactly once.
  About Model/Engine.lean: `handle_publish`, `handle_pubrel` (protocol.rs).
-/
import GV.Proofs.EngineBasics
namespace GV.Props.C05
open GV

theorem createOp_enqueue_high (e : Engine) (p : Packet) :
    let (e2, id) := e.createOp p none
    e2.enqueue id .high false = some { e2 with highQ := e2.highQ ++ [id] } := by
  simp [Engine.createOp, Engine.enqueue, Engine.op?, lookup_mapInsert_self]

/-- the operation created to answer an inbound packet -/
def answerOf (e : Engine) (p : Packet) : Op := { id := e.nextOpId, packet := p, user := none }

/-- **QoS 0**: surfaced, nothing to acknowledge. -/
theorem qos0_surfaced (e : Engine) (p : Publish) (hs : stateBlocksAcks e.state = false) (hq : p.qos = 0) :
    e.handlePublish p = ({ e with outEvents := e.outEvents ++ [Packet.publish p] }, .ok) := by
  simp [Engine.handlePublish, hs, hq]

/-- **QoS 1**: surfaced once, and exactly one PUBACK with the publish's identifier joins the back of the
    high-priority queue (so acknowledgements leave in arrival order). -/
theorem qos1_surfaced_and_acked (e : Engine) (p : Publish) (hs : stateBlocksAcks e.state = false) (hq : p.qos = 1) :
    let e' := (e.handlePublish p).1
    (e.handlePublish p).2 = .ok ∧ e'.outEvents = e.outEvents ++ [Packet.publish p] ∧
    e'.highQ = e.highQ ++ [e.nextOpId] ∧ e'.op? e.nextOpId = some (answerOf e (.puback { packetId := p.packetId })) ∧
    e'.inQos2 = e.inQos2 := by
  simp [Engine.handlePublish, hs, hq, Engine.createOp, Engine.enqueue, Engine.op?, lookup_mapInsert_self, answerOf]

/-- **QoS 2**: always answered with a PUBREC for the same identifier; surfaced only if the identifier is not
    already awaiting its PUBREL (a duplicate is acknowledged but not delivered again). -/
theorem qos2_acked_surfaced_once (e : Engine) (p : Publish) (hs : stateBlocksAcks e.state = false) (hq : p.qos = 2) :
    let e' := (e.handlePublish p).1
    (e.handlePublish p).2 = .ok ∧
    e'.highQ = e.highQ ++ [e.nextOpId] ∧ e'.op? e.nextOpId = some (answerOf e (.pubrec { packetId := p.packetId })) ∧
    e'.outEvents = (if e.inQos2.contains p.packetId then e.outEvents else e.outEvents ++ [Packet.publish p]) ∧
    e'.inQos2.contains p.packetId = true := by
  have h0 : ¬ (p.qos = 0) := by omega
  have h1 : ¬ (p.qos = 1) := by omega
  simp only [Engine.handlePublish, hs, Bool.false_eq_true, ↓reduceIte, h0, h1]
  by_cases hin : e.inQos2.contains p.packetId = true
  · have hmem : p.packetId ∈ e.inQos2 := by simpa using hin
    simp [hmem, Engine.createOp, Engine.enqueue, Engine.op?, lookup_mapInsert_self, answerOf]
  · simp only [hin, Bool.false_eq_true, ↓reduceIte]
    have hmem : (insertSorted p.packetId e.inQos2).contains p.packetId = true := by
      have := (insertSorted_perm p.packetId e.inQos2).mem_iff (a := p.packetId)
      simp only [List.contains_iff_mem]
      exact this.mpr (List.mem_cons_self ..)
    have hnm : ¬ (p.packetId ∈ e.inQos2) := by simpa using hin
    have hmem' : p.packetId ∈ insertSorted p.packetId e.inQos2 := by simpa using hmem
    simp [hnm, hmem', Engine.createOp, Engine.enqueue, Engine.op?, lookup_mapInsert_self, answerOf]

/-- **PUBREL**: answered with a PUBCOMP for the same identifier and the identifier is released, so that a
    later PUBLISH with it is a new message. -/
theorem pubrel_answered_and_released (e : Engine) (a : Ack) (hs : stateBlocksAcks e.state = false) :
    let e' := (e.handlePubrel a).1
    (e.handlePubrel a).2 = .ok ∧ e'.highQ = e.highQ ++ [e.nextOpId] ∧
    e'.op? e.nextOpId = some (answerOf e (.pubcomp { packetId := a.packetId })) ∧
    e'.inQos2.contains a.packetId = false ∧ e'.outEvents = e.outEvents := by
  simp [Engine.handlePubrel, hs, Engine.createOp, Engine.enqueue, Engine.op?, lookup_mapInsert_self, answerOf]

/-- before the connection is established inbound application packets are a protocol error -/
theorem not_before_connack (e : Engine) (p : Publish) (hs : stateBlocksAcks e.state = true) :
    e.handlePublish p = (e, .err "ProtocolError") := by
  simp [Engine.handlePublish, hs]

/-- **A lost session forgets the QoS 2 receive state; a resumed one keeps it.** -/
theorem session_lost_forgets (e : Engine) : (e.applySessionPresent false).1.inQos2 = [] := by
  have key : ∀ (l : List Nat) (en : Engine), en.inQos2 = [] → (l.foldl (fun en id => (en.unbind id).clearQos2 id) en).inQos2 = [] := by
    intro l en h
    exact foldl_preserves (fun en id => (en.unbind id).clearQos2 id) (fun en => en.inQos2 = [])
      (fun en id h => by rw [clearQos2_inQos2, unbind_inQos2]; exact h) l en h
  have hlost : e.sessionLostStage.1.inQos2 = [] := by
    unfold Engine.sessionLostStage
    simp only []
  have hre : e.sessionLostStage.1.sessionRequeueStage.inQos2 = [] := by
    unfold Engine.sessionRequeueStage
    exact key _ _ hlost
  unfold Engine.applySessionPresent
  simp only [Bool.not_false, ↓reduceIte]
  repeat (first | split | exact hre)

end GV.Props.C05
