/-
  Props/C05.lean — Inbound publishes are acked correctly; QoS 2 messages surface exactly once.
  About Model/Engine.lean: `handle_publish`, `handle_pubrel` (protocol.rs).
-/
import GV.Proofs.EngineBasics
namespace GV.Props.C05
open GV

theorem createOp_enqueue_high (e : Engine) (p : Packet) :
    let (e2, id) := e.createOp p none
    e2.enqueue id .high false = some { e2 with highQ := e2.highQ ++ [id] } := by
  simp [Engine.createOp, Engine.enqueue, Engine.op?, lookup_mapInsert_self]

/-- the operation created to answer an inbound packet -/
def answerOf (e : Engine) (p : Packet) : Op := { id := e.nextOpId, packet := p, user := none }

/-- **QoS 0**: surfaced, nothing to acknowledge. -/
theorem qos0_surfaced (e : Engine) (p : Publish) (hs : stateBlocksAcks e.state = false) (hq : p.qos = 0) :
    e.handlePublish p = ({ e with outEvents := e.outEvents ++ [Packet.publish p] }, .ok) := by
  simp [Engine.handlePublish, hs, hq]

/-- **QoS 1**: surfaced once, and exactly one PUBACK with the publish's identifier joins the back of the
    high-priority queue (so acknowledgements leave in arrival order). -/
theorem qos1_surfaced_and_acked (e : Engine) (p : Publish) (hs : stateBlocksAcks e.state = false) (hq : p.qos = 1) :
    let e' := (e.handlePublish p).1
    (e.handlePublish p).2 = .ok ∧ e'.outEvents = e.outEvents ++ [Packet.publish p] ∧
    e'.highQ = e.highQ ++ [e.nextOpId] ∧ e'.op? e.nextOpId = some (answerOf e (.puback { packetId := p.packetId })) ∧
    e'.inQos2 = e.inQos2 := by
  simp [Engine.handlePublish, hs, hq, Engine.createOp, Engine.enqueue, Engine.op?, lookup_mapInsert_self, answerOf]

/-- **QoS 2**: always answered with a PUBREC for the same identifier; surfaced only if the identifier is not
    already awaiting its PUBREL (a duplicate is acknowledged but not delivered again). -/
theorem qos2_acked_surfaced_once (e : Engine) (p : Publish) (hs : stateBlocksAcks e.state = false) (hq : p.qos = 2) :
    let e' := (e.handlePublish p).1
    (e.handlePublish p).2 = .ok ∧
    e'.highQ = e.highQ ++ [e.nextOpId] ∧ e'.op? e.nextOpId = some (answerOf e (.pubrec { packetId := p.packetId })) ∧
    e'.outEvents = (if e.inQos2.contains p.packetId then e.outEvents else e.outEvents ++ [Packet.publish p]) ∧
    e'.inQos2.contains p.packetId = true := by
  have h0 : ¬ (p.qos = 0) := by omega
  have h1 : ¬ (p.qos = 1) := by omega
  simp only [Engine.handlePublish, hs, Bool.false_eq_true, ↓reduceIte, h0, h1]
  by_cases hin : e.inQos2.contains p.packetId = true
  · have hmem : p.packetId ∈ e.inQos2 := by simpa using hin
    simp [hmem, Engine.createOp, Engine.enqueue, Engine.op?, lookup_mapInsert_self, answerOf]
  · simp only [hin, Bool.false_eq_true, ↓reduceIte]
    have hmem : (insertSorted p.packetId e.inQos2).contains p.packetId = true := by
      have := (insertSorted_perm p.packetId e.inQos2).mem_iff (a := p.packetId)
      simp only [List.contains_iff_mem]
      exact this.mpr (List.mem_cons_self ..)
    have hnm : ¬ (p.packetId ∈ e.inQos2) := by simpa using hin
    have hmem' : p.packetId ∈ insertSorted p.packetId e.inQos2 := by simpa using hmem
    simp [hnm, hmem', Engine.createOp, Engine.enqueue, Engine.op?, lookup_mapInsert_self, answerOf]

/-- **PUBREL**: answered with a PUBCOMP for the same identifier and the identifier is released, so that a
    later PUBLISH with it is a new message. -/
theorem pubrel_answered_and_released (e : Engine) (a : Ack) (hs : stateBlocksAcks e.state = false) :
    let e' := (e.handlePubrel a).1
    (e.handlePubrel a).2 = .ok ∧ e'.highQ = e.highQ ++ [e.nextOpId] ∧
    e'.op? e.nextOpId = some (answerOf e (.pubcomp { packetId := a.packetId })) ∧
    e'.inQos2.contains a.packetId = false ∧ e'.outEvents = e.outEvents := by
  simp [Engine.handlePubrel, hs, Engine.createOp, Engine.enqueue, Engine.op?, lookup_mapInsert_self, answerOf]

/-- before the connection is established inbound application packets are a protocol error -/
theorem not_before_connack (e : Engine) (p : Publish) (hs : stateBlocksAcks e.state = true) :
    e.handlePublish p = (e, .err "ProtocolError") := by
  simp [Engine.handlePublish, hs]

/-- **A lost session forgets the QoS 2 receive state; a resumed one keeps it.** -/
theorem session_lost_forgets (e : Engine) : (e.applySessionPresent false).1.inQos2 = [] := by
  have key : ∀ (l : List Nat) (en : Engine), en.inQos2 = [] → (l.foldl (fun en id => (en.unbind id).clearQos2 id) en).inQos2 = [] := by
    intro l en h
    exact foldl_preserves (fun en id => (en.unbind id).clearQos2 id) (fun en => en.inQos2 = [])
      (fun en id h => by rw [clearQos2_inQos2, unbind_inQos2]; exact h) l en h
  have hlost : e.sessionLostStage.1.inQos2 = [] := by
    unfold Engine.sessionLostStage
    simp only []
  have hre : e.sessionLostStage.1.sessionRequeueStage.inQos2 = [] := by
    unfold Engine.sessionRequeueStage
    exact key _ _ hlost
  unfold Engine.applySessionPresent
  simp only [Bool.not_false, ↓reduceIte]
  repeat (first | split | exact hre)

/-! ### order of the answers, for any run of inbound packets -/

/-- the answer an inbound packet is owed -/
def inboundAnswer : Packet → Option Packet
  | .publish p => if p.qos = 1 then some (.puback { packetId := p.packetId })
                  else if p.qos = 2 then some (.pubrec { packetId := p.packetId }) else none
  | .pubrel a => some (.pubcomp { packetId := a.packetId })
  | _ => none

def handleInbound (e : Engine) : Packet → Engine × Res
  | .publish p => e.handlePublish p
  | .pubrel a => e.handlePubrel a
  | _ => (e, .ok)

/-- one inbound packet that is owed an answer: the answer is a new operation at the back of the high-priority queue, and
    nothing else about the queue, the older operations or the connection state changes -/
theorem answer_joins_the_back (e : Engine) (p : Packet) (a : Packet) (hs : stateBlocksAcks e.state = false)
    (ha : inboundAnswer p = some a) :
    let e' := (handleInbound e p).1
    e'.highQ = e.highQ ++ [e.nextOpId] ∧ e'.nextOpId = e.nextOpId + 1 ∧ e'.state = e.state ∧
    (e'.op? e.nextOpId).map (·.packet) = some a ∧ (∀ id, id ≠ e.nextOpId → e'.op? id = e.op? id) := by
  cases p with
  | publish pb =>
    simp only [inboundAnswer] at ha
    by_cases h1 : pb.qos = 1
    · simp only [h1, ↓reduceIte, Option.some.injEq] at ha
      subst ha
      have h0 : ¬ (pb.qos = 0) := by omega
      simp only [handleInbound, Engine.handlePublish, hs, Bool.false_eq_true, ↓reduceIte, h0, h1, Engine.createOp, Engine.enqueue,
        Engine.op?, lookup_mapInsert_self, Option.isNone_some, (by decide : ¬ ((1 : Nat) = 0))]
      refine ⟨trivial, trivial, trivial, rfl, fun id hid => lookup_mapInsert_ne _ _ _ _ hid⟩
    · by_cases h2 : pb.qos = 2
      · have h20 : ¬ ((2 : Nat) = 1) := by decide
        simp only [h2, h20, ↓reduceIte, Option.some.injEq] at ha
        subst ha
        have h0 : ¬ (pb.qos = 0) := by omega
        by_cases hin : e.inQos2.contains pb.packetId = true
        · simp only [handleInbound, Engine.handlePublish, hs, Bool.false_eq_true, ↓reduceIte, h0, h1, h2, hin,
            (by decide : ¬ ((2 : Nat) = 0)), (by decide : ¬ ((2 : Nat) = 1)),
            Engine.createOp, Engine.enqueue, Engine.op?, lookup_mapInsert_self, Option.isNone_some]
          exact ⟨trivial, trivial, trivial, rfl, fun id hid => lookup_mapInsert_ne _ _ _ _ hid⟩
        · simp only [handleInbound, Engine.handlePublish, hs, Bool.false_eq_true, ↓reduceIte, h0, h1, h2, hin,
            (by decide : ¬ ((2 : Nat) = 0)), (by decide : ¬ ((2 : Nat) = 1)),
            Engine.createOp, Engine.enqueue, Engine.op?, lookup_mapInsert_self, Option.isNone_some]
          exact ⟨trivial, trivial, trivial, rfl, fun id hid => lookup_mapInsert_ne _ _ _ _ hid⟩
      · simp [h1, h2] at ha
  | pubrel ak =>
    simp only [inboundAnswer, Option.some.injEq] at ha
    subst ha
    simp only [handleInbound, Engine.handlePubrel, hs, Bool.false_eq_true, ↓reduceIte, Engine.createOp, Engine.enqueue,
      Engine.op?, lookup_mapInsert_self, Option.isNone_some]
    exact ⟨trivial, trivial, trivial, rfl, fun id hid => lookup_mapInsert_ne _ _ _ _ hid⟩
  | _ => simp [inboundAnswer] at ha

/-- **Acknowledgements leave in the order the packets they answer arrived** - for any run of inbound QoS 1 / QoS 2 publishes
    and PUBRELs, of any length: the answers are new operations with consecutive numbers, they stand at the back of the
    high-priority queue in arrival order behind whatever stood there, the k-th of them is the answer the k-th packet is owed
    (PUBACK / PUBREC / PUBCOMP with its identifier), and the queue is served from its head (C10:
    `dequeue_takes_heads_in_priority_order`). -/
theorem answers_leave_in_arrival_order : ∀ (ps : List Packet) (e : Engine), stateBlocksAcks e.state = false →
    (∀ p ∈ ps, (inboundAnswer p).isSome = true) →
    let e' := ps.foldl (fun en p => (handleInbound en p).1) e
    e'.highQ = e.highQ ++ (List.range ps.length).map (e.nextOpId + ·) ∧ e'.nextOpId = e.nextOpId + ps.length ∧
    e'.state = e.state ∧
    (∀ i (h : i < ps.length), (e'.op? (e.nextOpId + i)).map (·.packet) = inboundAnswer ps[i]) ∧
    (∀ id, id < e.nextOpId → e'.op? id = e.op? id)
  | [], e, _, _ => by
    simp
  | p :: ps, e, hs, hall => by
    obtain ⟨a, ha⟩ := Option.isSome_iff_exists.mp (hall p (by simp))
    have h1 := answer_joins_the_back e p a hs ha
    simp only [] at h1
    obtain ⟨q1, n1, s1, o1, k1⟩ := h1
    have ih := answers_leave_in_arrival_order ps (handleInbound e p).1 (by rw [s1]; exact hs) (fun x hx => hall x (by simp [hx]))
    simp only [] at ih
    obtain ⟨q2, n2, s2, o2, k2⟩ := ih
    simp only [List.foldl_cons, List.length_cons]
    refine ⟨?_, ?_, ?_, ?_, ?_⟩
    · rw [q2, q1, n1, List.append_assoc]
      congr 1
      rw [List.range_succ_eq_map]
      simp only [List.map_cons, List.map_map, Nat.add_zero, List.singleton_append]
      congr 1
      apply List.map_congr_left
      intro x _
      simp only [Function.comp]
      omega
    · rw [n2, n1]; omega
    · rw [s2, s1]
    · intro i hi
      cases i with
      | zero =>
        simp only [Nat.add_zero, List.getElem_cons_zero]
        rw [k2 e.nextOpId (by rw [n1]; omega), o1, ha]
      | succ j =>
        simp only [List.getElem_cons_succ]
        have := o2 j (by simpa using hi)
        rw [n1] at this
        rw [show e.nextOpId + (j + 1) = e.nextOpId + 1 + j by omega]
        exact this
    · intro id hid
      rw [k2 id (by rw [n1]; omega), k1 id (by omega)]

/-- non-vacuity: three packets, three answers, in order -/
example :
    let e : Engine := { (Engine.new {}) with state := .connected }
    let e' := [Packet.publish { topic := [97], qos := 2, packetId := 5 }, Packet.pubrel { packetId := 9 },
               Packet.publish { topic := [97], qos := 1, packetId := 6 }].foldl (fun en p => (handleInbound en p).1) e
    (e'.highQ.map (fun id => (e'.op? id).map (·.packet))) =
      [some (.pubrec { packetId := 5 }), some (.pubcomp { packetId := 9 }), some (.puback { packetId := 6 })] := by
  decide

end GV.Props.C05
