import GV.Model.Engine
namespace GV.Props.C05
end GV.Props.C05
