import GV.Model.Engine
namespace GV.Props.C06
end GV.Props.C06
