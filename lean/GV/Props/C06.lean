/-
  Props/C06.lean — Packet ids are non-zero, unique among in-flight operations, and never leak.
  About Model/Engine.lean: `acquire_free_packet_id`, `acquire_packet_id_for_operation`,
  `unbind_operation_packet_id`, the release in `complete_operation_as_success/failure` (protocol.rs).
-/
import GV.Proofs.PacketIds
namespace GV.Props.C06
open GV

/-- **The search loop is sound for every cursor position and any number of wrap-arounds**: an id it returns
    is non-zero, at most 65535 and not reserved; the cursor it leaves behind is again a legal id.
    (Proved in Proofs/PacketIds.lean by induction over the loop.) -/
theorem search_loop_sound (allocated : List (Nat × Nat)) (start fuel check next : Nat) (hc : inRange check) (hn : inRange next) :
    inRange (acquireLoop allocated start fuel check next).2 ∧
    ∀ pid, (acquireLoop allocated start fuel check next).1 = some pid → inRange pid ∧ allocated.lookup pid = none :=
  acquireLoop_sound allocated start fuel check next hc hn

/-- **Allocation.**  With the cursor at a legal id, a successful allocation returns a non-zero id that no
    in-flight operation holds, reserves it for the requesting operation and for nobody else, and leaves every
    other reservation as it was. -/
theorem acquireFreeId_spec (e : Engine) (opId : Nat) (h : inRange e.nextPacketId) :
    inRange (e.acquireFreeId opId).1.nextPacketId ∧
    ∀ pid, (e.acquireFreeId opId).2 = some pid →
      inRange pid ∧ e.allocated.lookup pid = none ∧ (e.acquireFreeId opId).1.allocated.lookup pid = some opId ∧
      ∀ other, other ≠ pid → (e.acquireFreeId opId).1.allocated.lookup other = e.allocated.lookup other := by
  have hs := acquireLoop_sound e.allocated e.nextPacketId 65536 e.nextPacketId e.nextPacketId h h
  simp only [Engine.acquireFreeId]
  cases hf : (acquireLoop e.allocated e.nextPacketId 65536 e.nextPacketId e.nextPacketId).1 with
  | none =>
    have : acquireLoop e.allocated e.nextPacketId 65536 e.nextPacketId e.nextPacketId =
        (none, (acquireLoop e.allocated e.nextPacketId 65536 e.nextPacketId e.nextPacketId).2) := by rw [← hf]
    rw [this]
    exact ⟨hs.1, by intro pid hp; simp at hp⟩
  | some p =>
    have : acquireLoop e.allocated e.nextPacketId 65536 e.nextPacketId e.nextPacketId =
        (some p, (acquireLoop e.allocated e.nextPacketId 65536 e.nextPacketId e.nextPacketId).2) := by rw [← hf]
    rw [this]
    refine ⟨hs.1, ?_⟩
    intro pid hp
    simp only [Option.some.injEq] at hp; subst hp
    have := hs.2 p hf
    exact ⟨this.1, this.2, lookup_mapInsert_self _ _ _, fun other ho => lookup_mapInsert_ne _ _ _ _ ho⟩

/-- **An operation that already has an id keeps it** (a retransmission after a resumed reconnect reuses the
    identifier of the original); operations that need none get none. -/
theorem bound_operation_keeps_its_id (e : Engine) (id : Nat) (o : Op) (ho : e.op? id = some o) (hb : o.packetId.isSome = true) :
    e.acquireIdFor id = (e, .ok) := by
  simp [Engine.acquireIdFor, ho, hb]

theorem qos0_gets_no_id (e : Engine) (id : Nat) (o : Op) (ho : e.op? id = some o) (hb : o.packetId = none)
    (hn : needsPacketId o.packet = false) : e.acquireIdFor id = (e, .ok) := by
  simp [Engine.acquireIdFor, ho, hb, hn]

/-- marking a publish as duplicate for retransmission does not touch its packet id -/
theorem dup_flag_keeps_id (p : Publish) (v : Bool) : (match setDup (.publish p) v with | .publish q => q.packetId | _ => 0) = p.packetId := rfl

/-- **Release.**  Completing an operation (success or failure) frees its id: afterwards the id is not
    reserved and the operation is no longer tracked. -/
theorem release_frees_id (e : Engine) (o : Op) (pid : Nat) (h : o.packetId = some pid) :
    (e.releaseIds o).allocated.lookup pid = none ∧ (e.releaseIds o).pendingPub.lookup pid = none ∧
    (e.releaseIds o).pendingNonPub.lookup pid = none := by
  simp [Engine.releaseIds, h, lookup_mapErase_self]

theorem release_keeps_others (e : Engine) (o : Op) (pid other : Nat) (h : o.packetId = some pid) (hne : other ≠ pid) :
    (e.releaseIds o).allocated.lookup other = e.allocated.lookup other := by
  simp [Engine.releaseIds, h, lookup_mapErase_ne _ _ _ hne]

/-- **Session lost: the id is given back** and the operation restarts without one. -/
theorem unbind_frees_id (e : Engine) (id : Nat) (o : Op) (pid : Nat) (ho : e.op? id = some o) (hid : o.id = id) (h : o.packetId = some pid) :
    (e.unbind id).allocated.lookup pid = none ∧ ((e.unbind id).op? id).bind (·.packetId) = none := by
  subst hid
  unfold Engine.op? at ho
  simp only [Engine.unbind, Engine.op?, ho, h, Engine.setOp]
  exact ⟨lookup_mapErase_self _ _, by rw [lookup_mapInsert_self]; rfl⟩

/-- after a reset nothing stays reserved and the cursor restarts at 1 -/
theorem reset_frees_everything (e : Engine) : e.reset.allocated = [] ∧ e.reset.nextPacketId = 1 ∧ e.reset.ops = [] := by
  simp [Engine.reset]

/-- non-vacuity: ids 1 and 2 taken, cursor at 1: the search yields 3; cursor at 65535 with 65535 taken wraps to 1 -/
example : acquireLoop [(1, 10), (2, 11)] 1 65536 1 1 = (some 3, 4) := by decide
example : acquireLoop [(65535, 10)] 65535 65536 65535 65535 = (some 1, 2) := by decide

end GV.Props.C06
