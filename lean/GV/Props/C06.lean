/-
  Props/C06.lean — Packet ids are non-zero, unique among in-flight operations, and never leak.
  About Model/Engine.lean: `acquire_free_packet_id`, `acquire_packet_id_for_operation`,
  `unbind_operation_packet_id`, the release in `complete_operation_as_success/failure` (protocol.rs).
-/
import GV.Proofs.PacketIds
import GV.Proofs.EngineWF
import GV.Proofs.EngineClose
namespace GV.Props.C06
open GV

/-- **The search loop is sound for every cursor position and any number of wrap-arounds**: an id it returns
    is non-zero, at most 65535 and not reserved; the cursor it leaves behind is again a legal id.
    (Proved in Proofs/PacketIds.lean by induction over the loop.) -/
theorem search_loop_sound (allocated : List (Nat × Nat)) (start fuel check next : Nat) (hc : inRange check) (hn : inRange next) :
    inRange (acquireLoop allocated start fuel check next).2 ∧
    ∀ pid, (acquireLoop allocated start fuel check next).1 = some pid → inRange pid ∧ allocated.lookup pid = none :=
  acquireLoop_sound allocated start fuel check next hc hn

/-- **Allocation.**  With the cursor at a legal id, a successful allocation returns a non-zero id that no
    in-flight operation holds, reserves it for the requesting operation and for nobody else, and leaves every
    other reservation as it was. -/
theorem acquireFreeId_spec (e : Engine) (opId : Nat) (h : inRange e.nextPacketId) :
    inRange (e.acquireFreeId opId).1.nextPacketId ∧
    ∀ pid, (e.acquireFreeId opId).2 = some pid →
      inRange pid ∧ e.allocated.lookup pid = none ∧ (e.acquireFreeId opId).1.allocated.lookup pid = some opId ∧
      ∀ other, other ≠ pid → (e.acquireFreeId opId).1.allocated.lookup other = e.allocated.lookup other := by
  have hs := acquireLoop_sound e.allocated e.nextPacketId 65536 e.nextPacketId e.nextPacketId h h
  simp only [Engine.acquireFreeId]
  cases hf : (acquireLoop e.allocated e.nextPacketId 65536 e.nextPacketId e.nextPacketId).1 with
  | none =>
    have : acquireLoop e.allocated e.nextPacketId 65536 e.nextPacketId e.nextPacketId =
        (none, (acquireLoop e.allocated e.nextPacketId 65536 e.nextPacketId e.nextPacketId).2) := by rw [← hf]
    rw [this]
    exact ⟨hs.1, by intro pid hp; simp at hp⟩
  | some p =>
    have : acquireLoop e.allocated e.nextPacketId 65536 e.nextPacketId e.nextPacketId =
        (some p, (acquireLoop e.allocated e.nextPacketId 65536 e.nextPacketId e.nextPacketId).2) := by rw [← hf]
    rw [this]
    refine ⟨hs.1, ?_⟩
    intro pid hp
    simp only [Option.some.injEq] at hp; subst hp
    have := hs.2 p hf
    exact ⟨this.1, this.2, lookup_mapInsert_self _ _ _, fun other ho => lookup_mapInsert_ne _ _ _ _ ho⟩

/-- **An operation that already has an id keeps it** (a retransmission after a resumed reconnect reuses the
    identifier of the original); operations that need none get none. -/
theorem bound_operation_keeps_its_id (e : Engine) (id : Nat) (o : Op) (ho : e.op? id = some o) (hb : o.packetId.isSome = true) :
    e.acquireIdFor id = (e, .ok) := by
  simp [Engine.acquireIdFor, ho, hb]

theorem qos0_gets_no_id (e : Engine) (id : Nat) (o : Op) (ho : e.op? id = some o) (hb : o.packetId = none)
    (hn : needsPacketId o.packet = false) : e.acquireIdFor id = (e, .ok) := by
  simp [Engine.acquireIdFor, ho, hb, hn]

/-- marking a publish as duplicate for retransmission does not touch its packet id -/
theorem dup_flag_keeps_id (p : Publish) (v : Bool) : (match setDup (.publish p) v with | .publish q => q.packetId | _ => 0) = p.packetId := rfl

/-- **Release.**  Completing an operation (success or failure) frees its id: afterwards the id is not
    reserved and the operation is no longer tracked. -/
theorem release_frees_id (e : Engine) (o : Op) (pid : Nat) (h : o.packetId = some pid) :
    (e.releaseIds o).allocated.lookup pid = none ∧ (e.releaseIds o).pendingPub.lookup pid = none ∧
    (e.releaseIds o).pendingNonPub.lookup pid = none := by
  simp [Engine.releaseIds, h, lookup_mapErase_self]

theorem release_keeps_others (e : Engine) (o : Op) (pid other : Nat) (h : o.packetId = some pid) (hne : other ≠ pid) :
    (e.releaseIds o).allocated.lookup other = e.allocated.lookup other := by
  simp [Engine.releaseIds, h, lookup_mapErase_ne _ _ _ hne]

/-- **Session lost: the id is given back** and the operation restarts without one. -/
theorem unbind_frees_id (e : Engine) (id : Nat) (o : Op) (pid : Nat) (ho : e.op? id = some o) (hid : o.id = id) (h : o.packetId = some pid) :
    (e.unbind id).allocated.lookup pid = none ∧ ((e.unbind id).op? id).bind (·.packetId) = none := by
  subst hid
  unfold Engine.op? at ho
  simp only [Engine.unbind, Engine.op?, ho, h, Engine.setOp]
  exact ⟨lookup_mapErase_self _ _, by rw [lookup_mapInsert_self]; rfl⟩

/-- after a reset nothing stays reserved and the cursor restarts at 1 -/
theorem reset_frees_everything (e : Engine) : e.reset.allocated = [] ∧ e.reset.nextPacketId = 1 ∧ e.reset.ops = [] := by
  simp [Engine.reset]

/-- non-vacuity: ids 1 and 2 taken, cursor at 1: the search yields 3; cursor at 65535 with 65535 taken wraps to 1 -/
example : acquireLoop [(1, 10), (2, 11)] 1 65536 1 1 = (some 3, 4) := by decide
example : acquireLoop [(65535, 10)] 65535 65536 65535 65535 = (some 1, 2) := by decide

end GV.Props.C06

namespace GV.Props.C06
open GV

/-! ### every history

  After any sequence of events (user submissions, connection opened / closed, any inbound bytes, write completions,
  service calls with any buffer size, time queries, resets — in any order) from a fresh engine, for any configuration.
  Corollaries of the engine invariant (`inv_after`, Proofs/EngineWF.lean). -/

/-- **Non-zero and in range.**  Every reserved packet id is between 1 and 65535, and so is the allocator's cursor. -/
theorem reserved_ids_in_range (cfg : Config) (evs : List Event) :
    (∀ x ∈ (runEvents (Engine.new cfg) evs).1.allocated, 1 ≤ x.1 ∧ x.1 ≤ 65535) ∧
    1 ≤ (runEvents (Engine.new cfg) evs).1.nextPacketId ∧ (runEvents (Engine.new cfg) evs).1.nextPacketId ≤ 65535 :=
  (inv_after cfg evs).2.1.p1r

/-- **Never leaks.**  Every reserved id is held by a tracked operation that carries exactly that id: once an operation
    is resolved (and no longer tracked) its id is free again. -/
theorem reserved_id_is_held (cfg : Config) (evs : List Event) (pid id : Nat)
    (h : (runEvents (Engine.new cfg) evs).1.allocated.lookup pid = some id) :
    ∃ o, (runEvents (Engine.new cfg) evs).1.ops.lookup id = some o ∧ o.packetId = some pid ∧ pktPid o.packet = pid := by
  obtain ⟨o, ho, hp⟩ := (inv_after cfg evs).2.1.p2 pid id h
  exact ⟨o, ho, hp, (inv_after cfg evs).2.1.p4 id o pid ho hp⟩

/-- **Unique among in-flight operations.**  Two tracked operations never carry the same packet id. -/
theorem in_flight_ids_unique (cfg : Config) (evs : List Event) (id1 id2 pid : Nat) (o1 o2 : Op)
    (h1 : (runEvents (Engine.new cfg) evs).1.ops.lookup id1 = some o1) (h2 : (runEvents (Engine.new cfg) evs).1.ops.lookup id2 = some o2)
    (p1 : o1.packetId = some pid) (p2 : o2.packetId = some pid) : id1 = id2 := by
  have b := (inv_after cfg evs).2.1
  rcases b.p3 id1 o1 pid h1 p1 with a | a
  · rcases b.p3 id2 o2 pid h2 p2 with c | c
    · rw [a] at c; cases c; rfl
    · cases c.1
  · cases a.1

/-- an operation that carries an id has it reserved for itself, needs one, and its packet carries the same id -/
theorem carried_id_is_reserved (cfg : Config) (evs : List Event) (id pid : Nat) (o : Op)
    (h : (runEvents (Engine.new cfg) evs).1.ops.lookup id = some o) (p : o.packetId = some pid) :
    (runEvents (Engine.new cfg) evs).1.allocated.lookup pid = some id ∧ needsPacketId o.packet = true ∧ pktPid o.packet = pid := by
  have b := (inv_after cfg evs).2.1
  refine ⟨?_, b.n id o h (by rw [p]; rfl), b.p4 id o pid h p⟩
  rcases b.p3 id o pid h p with a | a
  · exact a
  · cases a.1

/-- the operation being written while connected has a packet id if its packet needs one (no packet goes out with id 0) -/
theorem written_operation_has_its_id (cfg : Config) (evs : List Event) (id : Nat) (o : Op)
    (hs : (runEvents (Engine.new cfg) evs).1.state = .connected) (hc : (runEvents (Engine.new cfg) evs).1.current = some id)
    (h : (runEvents (Engine.new cfg) evs).1.ops.lookup id = some o) (hn : needsPacketId o.packet = true) :
    ∃ pid, o.packetId = some pid ∧ 1 ≤ pid ∧ pid ≤ 65535 := by
  have b := (inv_after cfg evs).2.1
  obtain ⟨pid, hp⟩ := Option.isSome_iff_exists.mp (b.c1 hs id hc o h hn)
  have hr := (carried_id_is_reserved cfg evs id pid o h hp).1
  exact ⟨pid, hp, b.p1r.1 (pid, id) (mem_of_lookup hr)⟩

/-- non-vacuity: a history after which an id is reserved and held (QoS 1 publish written on an established connection) -/
example : ((runEvents (Engine.new {}) [.user 0 (.publish { qos := 1, topic := [97] } 7 none), .opened 1 100, .service 2 4096 0,
      .writeDone 3, .data 4 [0x20, 0x03, 0x00, 0x00, 0x00], .service 5 4096 0]).1.allocated) = [(1, 1)] := by
  decide +kernel

/-- **Two packet ids never await acknowledgement for the same operation**: after any history the operations named by the
    pending-publish table are pairwise distinct, and so are those named by the pending-subscribe table. -/
theorem pending_tables_name_distinct_operations (cfg : Config) (evs : List Event) :
    (vals (runEvents (Engine.new cfg) evs).1.pendingPub).Nodup ∧ (vals (runEvents (Engine.new cfg) evs).1.pendingNonPub).Nodup := by
  have b := (inv_after cfg evs).2.1
  exact ⟨vals_nodup _ b.tps (runEvents (Engine.new cfg) evs).1.ops (fun pid id hl => by
      obtain ⟨o, ho, hpid, _⟩ := b.tp pid id hl; exact ⟨o, ho, hpid⟩),
    vals_nodup _ b.tns (runEvents (Engine.new cfg) evs).1.ops (fun pid id hl => by
      obtain ⟨o, ho, hpid, _⟩ := b.tn pid id hl; exact ⟨o, ho, hpid⟩)⟩

/-- **No leak, every history.**  When every operation has completed (the operation table is empty) no packet
    identifier remains reserved — whatever mix of operations, acknowledgement orders, timeouts, validation failures
    after an id was bound, disconnect points, session outcomes and allocator wrap-arounds the history contains. -/
theorem nothing_reserved_when_all_complete (cfg : Config) (evs : List Event)
    (hdone : (runEvents (Engine.new cfg) evs).1.ops = []) :
    (runEvents (Engine.new cfg) evs).1.allocated = [] := by
  cases hal : (runEvents (Engine.new cfg) evs).1.allocated with
  | nil => rfl
  | cons x xs =>
    exfalso
    have hm : (runEvents (Engine.new cfg) evs).1.allocated.lookup x.1 = some x.2 := by
      rw [hal]; obtain ⟨a, b⟩ := x; simp [List.lookup]
    obtain ⟨o, ho, _⟩ := reserved_id_is_held cfg evs x.1 x.2 hm
    simp [hdone] at ho

/-- non-vacuity: the QoS 1 publish of the example above, acknowledged: the table is empty again and so is the reservation -/
example : let e := (runEvents (Engine.new {}) [.user 0 (.publish { qos := 1, topic := [97] } 7 none), .opened 1 100, .service 2 4096 0,
      .writeDone 3, .data 4 [0x20, 0x03, 0x00, 0x00, 0x00], .service 5 4096 0, .writeDone 6, .data 7 [0x40, 0x02, 0x00, 0x01]]).1
    e.ops.length = 0 ∧ e.allocated = [] := by
  decide +kernel

end GV.Props.C06
