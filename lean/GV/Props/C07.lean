/-
  Props/C07.lean — One faithful CONNECT first, nothing before CONNACK, nothing after DISCONNECT.
  About Model/Engine.lean: `handle_network_event_connection_opened`, `create_connect`, `handle_connack`,
  `build_negotiated_settings`, the state gate of `service_queue_aux` (protocol.rs).
-/
import GV.Proofs.EngineWF
namespace GV.Props.C07
open GV

/-- **Opening a connection queues exactly one CONNECT at the very front** and arms the CONNACK deadline. -/
theorem opened_queues_connect_first (e : Engine) (deadline : Nat) (h : e.state = .disconnected) :
    let e' := (e.handleOpened deadline).1
    (e.handleOpened deadline).2 = .ok ∧ e'.state = .pendingConnack ∧ e'.highQ = e.nextOpId :: e.highQ ∧
    (e'.op? e.nextOpId).map (·.packet) = some e.createConnect ∧ e'.connackDeadline = some deadline ∧
    e'.current = none ∧ e'.pendingWrite = false := by
  simp [Engine.handleOpened, h, Engine.createOp, Engine.enqueue, Engine.op?, lookup_mapInsert_self]
  rfl

/-- a second "connection opened" without a close in between is an internal error and halts the engine -/
theorem opened_twice_is_error (e : Engine) (deadline : Nat) (h : e.state ≠ .disconnected) :
    (e.handleOpened deadline).2 = .err "InternalStateError" ∧ (e.handleOpened deadline).1.state = .halted := by
  have : (e.state != .disconnected) = true := by simp [h]
  simp [Engine.handleOpened, this]

/-- **The CONNECT reflects the configured options.**  Clean start follows the rejoin policy and the history. -/
theorem connect_reflects_options (o : ConnectOpts) (prev : Bool) :
    let c := o.toPacket prev
    c.keepAlive = o.keepAlive.getD 0 ∧ c.clientId = o.clientId ∧ c.username = o.username ∧ c.password = o.password ∧
    c.sessionExpiry = o.sessionExpiry ∧ c.requestResponseInfo = o.requestResponseInfo ∧ c.requestProblemInfo = o.requestProblemInfo ∧
    c.receiveMaximum = o.receiveMaximum ∧ c.topicAliasMaximum = o.topicAliasMaximum ∧ c.maximumPacketSize = o.maximumPacketSize ∧
    c.willDelay = o.willDelay ∧ c.will = o.will ∧ c.userProps = o.userProps ∧
    c.cleanStart = (match o.rejoin with | .postSuccess => !prev | .always => false | .never => true) := by
  simp only [ConnectOpts.toPacket]
  cases o.rejoin <;> simp

/-- the CONNECT the engine builds is the options' CONNECT with the client id completed; only the clean-start bit may be raised -/
theorem createConnect_shape (e : Engine) :
    ∃ c, e.createConnect = .connect c ∧ c.clientId = e.createConnectBase.clientId ∧
      (c = e.createConnectBase ∨ c = { e.createConnectBase with cleanStart := true }) := by
  unfold Engine.createConnect
  simp only []
  split
  · exact ⟨_, rfl, rfl, Or.inr rfl⟩
  · exact ⟨_, rfl, rfl, Or.inl rfl⟩

/-- **A server-assigned client id is reused** on later connections when the user configured none - or the empty string,
    which asks the server for an assigned id just the same. -/
theorem assigned_client_id_reused (e : Engine) (s : Settings) (hs : e.settings = some s)
    (hc : e.cfg.connect.clientId = none ∨ e.cfg.connect.clientId = some []) :
    ∃ c, e.createConnect = .connect c ∧ c.clientId = some s.clientId := by
  obtain ⟨c, h1, h2, _⟩ := createConnect_shape e
  refine ⟨c, h1, ?_⟩
  rw [h2]
  rcases hc with hc | hc <;> simp [Engine.createConnectBase, ConnectOpts.toPacket, hc, hs]

theorem configured_client_id_kept (e : Engine) (cid : Bytes) (hc : e.cfg.connect.clientId = some cid) (hne : cid ≠ []) :
    ∃ c, e.createConnect = .connect c ∧ c.clientId = some cid := by
  obtain ⟨c, h1, h2, _⟩ := createConnect_shape e
  refine ⟨c, h1, ?_⟩
  rw [h2]
  have : (cid.isEmpty) = false := by cases cid <;> simp_all
  simp only [Engine.createConnectBase, ConnectOpts.toPacket, hc, Option.getD_some, this]

/-- **Clean start is chosen by the rejoin policy and the connection history** - except that a 3.1.1 CONNECT with a
    zero-byte client identifier always asks for a clean session ([MQTT-3.1.3-7]; there is no session a server could resume
    for a client it has to name itself). -/
theorem clean_start_by_policy (e : Engine) :
    ∃ c, e.createConnect = .connect c ∧
      c.cleanStart = ((e.cfg.version == .v311 && (c.clientId.getD []).isEmpty) ||
        (match e.cfg.connect.rejoin with | .postSuccess => !e.hasConnected | .always => false | .never => true)) := by
  have hb : e.createConnectBase.cleanStart =
      (match e.cfg.connect.rejoin with | .postSuccess => !e.hasConnected | .always => false | .never => true) := by
    unfold Engine.createConnectBase
    simp only []
    split <;> simp only [ConnectOpts.toPacket] <;> cases e.cfg.connect.rejoin <;> rfl
  unfold Engine.createConnect
  simp only []
  split
  · rename_i h
    exact ⟨_, rfl, by simp only [h]; rfl⟩
  · rename_i h
    refine ⟨_, rfl, ?_⟩
    rw [hb]
    cases hx : (e.cfg.version == .v311 && (e.createConnectBase.clientId.getD []).isEmpty)
    · rfl
    · exact absurd hx h

/-- **A 3.1.1 CONNECT never pairs a zero-byte client identifier with CleanSession = 0** (what a conformant server must
    refuse with return code 2) -/
theorem connect311_empty_client_id_is_clean (e : Engine) (c : Connect) (hv : e.cfg.version = .v311)
    (hc : e.createConnect = .connect c) (hcid : c.clientId.getD [] = []) : c.cleanStart = true := by
  obtain ⟨c', h1, h2⟩ := clean_start_by_policy e
  rw [hc] at h1
  cases h1
  rw [h2, hv, hcid]
  rfl

/-- **In MQTT 3.1.1 mode a CONNECT with a password and no user name never passes last-chance validation**
    ([MQTT-3.1.2-22]; MQTT 5 allows it). -/
theorem connect311_password_without_username_is_refused (e4 : Engine) (c : Connect) (r : Resolution)
    (hv : e4.cfg.version = .v311) (hp : c.password.isSome = true) (hu : c.username = none) :
    ∃ x, e4.lastChance (.connect c) r = .error x := by
  unfold Engine.lastChance
  split
  · exact ⟨_, rfl⟩
  · simp [validateForVersion, hv, hp, hu, okIf]
    exact ⟨_, rfl⟩

/-- **A CONNECT that fails last-chance validation fails the connection attempt**: the service call returns an error (the
    engine halts), instead of leaving a handshake without a CONNECT in which an unsolicited CONNACK would be taken for the
    answer. -/
theorem rejected_connect_fails_the_attempt (e4 : Engine) (id : Nat) (r : Resolution) (x : VErr)
    (hc : isConnectOp e4 id = true) : ∃ e5 k, e4.rejectCurrent id r x = .ret e5 (.err k) ∨ ∃ s, e4.rejectCurrent id r x = .ret e5 (.panic s) := by
  unfold Engine.rejectCurrent
  simp only []
  generalize ({ (if r.alias.isSome = true then ({ e4 with outRes := e4.outRes.reset ((e4.settings.map (·.topicAliasMaximum)).getD 0) } : Engine) else e4) with current := none } : Engine).completeFailure id x.name = z
  obtain ⟨e5, r5⟩ := z
  simp only []
  split
  · rename_i hnok
    cases r5 with
    | ok => exact absurd hnok (by decide)
    | err k => exact ⟨e5, k, .inl rfl⟩
    | panic s => exact ⟨e5, "", .inr ⟨s, rfl⟩⟩
  · exact ⟨e5, _, .inl rfl⟩

/-- **Nothing but the high-priority queue is served before CONNACK**: in the handshake the queue service never
    takes from the user or resubmit queue. -/
theorem handshake_sends_only_high_priority (e : Engine) (hq : e.highQ = []) : (e.dequeue false).2 = none := by
  unfold Engine.dequeue
  split
  · rfl
  · simp [hq]

/-- **After a DISCONNECT has been written (state PendingDisconnect) or in any state but PendingConnack /
    Connected the queue service emits nothing.** -/
theorem nothing_sent_outside_connection (e : Engine) (all : Bool) (cap fuel : Nat)
    (h : e.state ≠ .pendingConnack ∧ e.state ≠ .connected) :
    Engine.serviceQueueAux all cap fuel e = (e, .ok) := by
  cases fuel with
  | zero => rfl
  | succ f =>
    have : (e.state == .pendingConnack || e.state == .connected) = false := by simp [h.1, h.2]
    simp [Engine.serviceQueueAux, this]

/-- writing the DISCONNECT moves the engine to PendingDisconnect -/
theorem disconnect_written_ends_sending (e : Engine) (id : Nat) (o : Op) (d : Disconnect)
    (hc : e.current = some id) (ho : e.op? id = some o) (hp : o.packet = .disconnect d) :
    ∃ e', e.onFullyWritten = some e' ∧ e'.state = .pendingDisconnect := by
  have harm : ∀ en : Engine, en.armPingDeadline o = en := by
    intro en; unfold Engine.armPingDeadline; rw [hp]
  simp only [Engine.onFullyWritten, hc, ho]
  rw [harm]
  simp only [Engine.fileWritten, hp]
  refine ⟨_, rfl, ?_⟩
  simp only [Engine.startAckTimeout]
  split <;> simp [Engine.setOp]

/-- **A failing CONNACK is a connection error**, reported to the application, and the engine does not become connected. -/
theorem failing_connack_is_error (e : Engine) (c : Connack) (hs : e.state = .pendingConnack) (hrc : c.reasonCode ≠ 0) :
    (e.handleConnack c).2 = .err "ConnectionEstablishmentFailure" ∧ (e.handleConnack c).1.state = .pendingConnack := by
  simp [Engine.handleConnack, hs, hrc]

/-- **A CONNACK in any state other than PendingConnack (repeated, unsolicited) is a protocol error.** -/
theorem unsolicited_connack_is_error (e : Engine) (c : Connack) (hs : e.state ≠ .pendingConnack) :
    e.handleConnack c = (e, .err "ProtocolError") := by
  have : (e.state != .pendingConnack) = true := by simp [hs]
  simp [Engine.handleConnack, this]

/-- **Data arriving before the CONNECT has completely left the client is a protocol error** (CONNACK before CONNECT):
    while the CONNECT is still queued, and also while it is only partially encoded (the current operation). -/
theorem data_before_connect_is_error (e : Engine) (bs : Bytes) (hs : e.state = .pendingConnack)
    (hq : e.highQ.any (isConnectOp e) = true ∨ ∃ id, e.current = some id ∧ isConnectOp e id = true) :
    (e.handleData bs).2 = .err "ProtocolError" ∧ (e.handleData bs).1.state = .halted := by
  have hu : e.connectUnsent = true := by
    unfold Engine.connectUnsent
    rcases hq with hq | ⟨id, hc, hi⟩
    · simp [hq]
    · simp [hc, hi]
  simp [Engine.handleData, hs, hu]

/-- **No CONNACK by the deadline is a connection-establishment failure.** -/
theorem connack_timeout (e : Engine) (cap prefill d : Nat) (hs : e.state = .pendingConnack) (hd : e.connackDeadline = some d)
    (ht : e.now ≥ d) : (e.service cap prefill).2 = .err "ConnectionEstablishmentFailure" ∧ (e.service cap prefill).1.state = .halted := by
  simp [Engine.service, Engine.serviceCore, hs, hd, ht]

/-- **Negotiated settings are the CONNACK's values, completed with the CONNECT's values or the
    specification's defaults** - with one exception, stated as it is: for an absent Maximum Packet Size the code takes
    268,435,455, five bytes below the largest MQTT packet (1 + 4 + 268,435,455 bytes), which is what "no limit" would mean.
    The crate's own tests pin that value, so it is recorded as known finding D50 rather than repaired. -/
theorem settings_are_connack_values (e : Engine) (c : Connack) :
    let s := e.buildSettings c
    s.maximumQos = c.maximumQos.getD 2 ∧ s.receiveMaximum = c.receiveMaximum.getD 65535 ∧
    s.maximumPacketSize = c.maximumPacketSize.getD 268435455 ∧ s.topicAliasMaximum = c.topicAliasMaximum.getD 0 ∧
    s.retainAvailable = c.retainAvailable.getD true ∧ s.wildcardSubsAvailable = c.wildcardSubsAvailable.getD true ∧
    s.subIdsAvailable = c.subIdsAvailable.getD true ∧ s.sharedSubsAvailable = c.sharedSubsAvailable.getD true ∧
    s.sessionExpiry = c.sessionExpiry.getD (e.cfg.connect.sessionExpiry.getD 0) ∧
    s.serverKeepAlive = c.serverKeepAlive.getD (e.cfg.connect.keepAlive.getD 0) ∧ s.rejoinedSession = c.sessionPresent := by
  simp [Engine.buildSettings, maxVli]

end GV.Props.C07

namespace GV.Props.C07
open GV

/-! ### every history -/

/-- **Nothing but the CONNECT before the CONNACK.**  After any sequence of events, for any configuration: while the
    handshake is pending, whatever is queued with high priority, being written or written-but-unflushed is the
    CONNECT operation, no acknowledgement is awaited and no ack timeout is armed — user operations wait in the
    user / resubmit queues, which the handshake service (`handshake_serves_only_high_priority`) never touches. -/
theorem handshake_only_connect (cfg : Config) (evs : List Event)
    (hs : (runEvents (Engine.new cfg) evs).1.state = .pendingConnack) :
    (∀ id ∈ (runEvents (Engine.new cfg) evs).1.highQ ++ (runEvents (Engine.new cfg) evs).1.pendingWC,
       ∀ o, (runEvents (Engine.new cfg) evs).1.ops.lookup id = some o → isConnectPacket o.packet = true) ∧
    (∀ id, (runEvents (Engine.new cfg) evs).1.current = some id →
       ∀ o, (runEvents (Engine.new cfg) evs).1.ops.lookup id = some o → isConnectPacket o.packet = true) ∧
    (runEvents (Engine.new cfg) evs).1.pendingPub = [] ∧ (runEvents (Engine.new cfg) evs).1.pendingNonPub = [] ∧
    (runEvents (Engine.new cfg) evs).1.timeouts = [] := by
  obtain ⟨a, b, c, d, e⟩ := (inv_after cfg evs).2.1.h1 hs
  exact ⟨a, b, c, d, List.isEmpty_iff.mp e⟩

/-- **A closed connection leaves nothing in flight.**  After any history: while Disconnected there is no current
    operation, nothing queued with high priority (no stale PUBREL, ack or DISCONNECT can be written on the next
    connection before its CONNECT), no pending-ack entry, nothing unflushed and no ack timeout. -/
theorem disconnected_is_clean (cfg : Config) (evs : List Event)
    (hs : (runEvents (Engine.new cfg) evs).1.state = .disconnected) :
    (runEvents (Engine.new cfg) evs).1.current = none ∧ (runEvents (Engine.new cfg) evs).1.highQ = [] ∧
    (runEvents (Engine.new cfg) evs).1.pendingPub = [] ∧ (runEvents (Engine.new cfg) evs).1.pendingNonPub = [] ∧
    (runEvents (Engine.new cfg) evs).1.pendingWC = [] ∧ (runEvents (Engine.new cfg) evs).1.timeouts = [] := by
  obtain ⟨a, b, c, d, e, f⟩ := (inv_after cfg evs).2.2.1 hs
  exact ⟨a, b, c, d, e, List.isEmpty_iff.mp f⟩

/-- non-vacuity: a handshake in progress with a user operation waiting -/
example : ((runEvents (Engine.new {}) [.user 0 (.publish { qos := 1, topic := [97] } 7 none), .opened 1 100]).1.state,
    (runEvents (Engine.new {}) [.user 0 (.publish { qos := 1, topic := [97] } 7 none), .opened 1 100]).1.highQ,
    (runEvents (Engine.new {}) [.user 0 (.publish { qos := 1, topic := [97] } 7 none), .opened 1 100]).1.userQ) = (.pendingConnack, [2], [1]) := by
  decide +kernel

end GV.Props.C07
