import GV.Model.Engine
namespace GV.Props.C07
end GV.Props.C07
