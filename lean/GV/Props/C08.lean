/-
  Props/C08.lean — Service-time contract never strands work.
  About Model/Engine.lean: `get_next_service_timepoint*` (protocol.rs).
-/
import GV.Proofs.EngineBasics
import GV.Proofs.EngineWrite
namespace GV.Props.C08
open GV

theorem minOpt_le_left (a : Option Nat) (x : Nat) (b : Option Nat) (h : a = some x) : ∃ y, minOpt a b = some y ∧ y ≤ x := by
  subst h
  cases b with
  | none => exact ⟨x, rfl, Nat.le_refl _⟩
  | some z => simp only [minOpt]; split <;> exact ⟨_, rfl, by omega⟩

theorem minOpt_le_right (a : Option Nat) (x : Nat) (b : Option Nat) (h : b = some x) : ∃ y, minOpt a b = some y ∧ y ≤ x := by
  subst h
  cases a with
  | none => exact ⟨x, rfl, Nat.le_refl _⟩
  | some z => simp only [minOpt]; split <;> exact ⟨_, rfl, by omega⟩

theorem foldTime_le (base : Option Nat) (d : Nat) : ∃ y, foldTime base d = some y ∧ y ≤ d ∧ (∀ b, base = some b → y ≤ b) := by
  cases base with
  | none => exact ⟨d, rfl, Nat.le_refl _, by intro b h; cases h⟩
  | some b =>
    simp only [foldTime]
    split
    · exact ⟨b, rfl, by omega, by intro b' h; cases h; exact Nat.le_refl _⟩
    · exact ⟨d, rfl, Nat.le_refl _, by intro b' h; cases h; omega⟩

/-- **Sendable high-priority work wakes the engine now**: with no write pending and something in the
    high-priority queue (an ack to send, a PUBREL, a PINGREQ, the CONNECT, a DISCONNECT) or an operation half
    encoded, the queue wants service at the current time. -/
theorem high_priority_work_wakes_now (e : Engine) (all : Bool) (hw : e.pendingWrite = false)
    (h : e.current.isSome = true ∨ e.highQ ≠ []) : e.nextQueueTime all = some e.now := by
  simp only [Engine.nextQueueTime, hw, Bool.false_eq_true, ↓reduceIte]
  rcases h with h | h
  · simp [h]
  · cases hc : e.current.isSome
    · have : e.highQ.isEmpty = false := by cases hq : e.highQ <;> simp_all
      simp [this]
    · simp

/-- **Queued user work wakes the engine now** when connected, unless it is legitimately held back (write
    pending, slow start with an ack outstanding, receive maximum reached for a QoS 1/2 publish at the head). -/
theorem user_work_wakes_now (e : Engine) (hw : e.pendingWrite = false) (hc : e.current = none) (hq : e.highQ = [])
    (hth : (e.slowStartThrottled && e.hasPendingAck) = false) (hset : e.settings = none ∨ ∃ s, e.settings = some s ∧ e.pendingPub.length < s.receiveMaximum)
    (hwork : e.resubQ ≠ [] ∨ e.userQ ≠ []) : e.nextQueueTime true = some e.now := by
  have hne : (!e.resubQ.isEmpty || !e.userQ.isEmpty) = true := by
    rcases hwork with h | h
    · cases hr : e.resubQ <;> simp_all
    · cases hu : e.userQ <;> simp_all
  simp only [Engine.nextQueueTime, hw, hc, hq, hth, Bool.false_eq_true, ↓reduceIte, Option.isSome_none, List.isEmpty_nil, Bool.not_true]
  rcases hset with h | ⟨s, h, hlt⟩
  · simp [h, hne]
  · have : ¬ (e.pendingPub.length ≥ s.receiveMaximum) := by omega
    simp [h, this, hne]

/-- the fold picking the earliest record: its result is below every record it has seen -/
theorem foldl_earliest_le (l : List (Nat × Nat)) (init : Option (Nat × Nat)) :
    ∃ x, l.foldl (fun best x => match best with | none => some x | some b => if x.2 < b.2 then some x else some b) init = x ∧
      (∀ y ∈ l, ∃ b, x = some b ∧ b.2 ≤ y.2) ∧ (∀ i, init = some i → ∃ b, x = some b ∧ b.2 ≤ i.2) := by
  induction l generalizing init with
  | nil =>
    refine ⟨init, rfl, ?_, ?_⟩
    · intro y hy; cases hy
    · intro i hi; exact ⟨i, hi, Nat.le_refl _⟩
  | cons z zs ih =>
    simp only [List.foldl]
    obtain ⟨x, hx, h1, h2⟩ := ih (match init with | none => some z | some b => if z.2 < b.2 then some z else some b)
    refine ⟨x, hx, ?_, ?_⟩
    · intro y hy
      rcases List.mem_cons.mp hy with rfl | hy
      · cases init with
        | none => exact h2 y rfl
        | some b =>
          by_cases hlt : y.2 < b.2
          · exact h2 y (by simp [hlt])
          · obtain ⟨c, hc, hle⟩ := h2 b (by simp [hlt])
            exact ⟨c, hc, by omega⟩
      · exact h1 y hy
    · intro i hi
      subst hi
      by_cases hlt : z.2 < i.2
      · obtain ⟨c, hc, hle⟩ := h2 z (by simp [hlt])
        exact ⟨c, hc, by omega⟩
      · exact h2 i (by simp [hlt])

/-- **Connected: the reported time is never later than due queue work, the ping deadline, the next ping
    (when no write is pending) or the ack timeout of ANY operation that is not being written** (the record of the operation
    being written is deferred until its packet is complete, and hides no other record). -/
theorem connected_time_covers_all_work (e : Engine) (hs : e.state = .connected) :
    ∃ t, e.nextServiceTime = some t ∧
      (∀ d, e.pingDeadline = some d → ∃ y, t = some y ∧ y ≤ d) ∧
      (∀ id d, (id, d) ∈ e.timeouts → e.current ≠ some id → ∃ y, t = some y ∧ y ≤ d) ∧
      (e.pendingWrite = false → ∀ np, e.nextPing = some np → ∃ y, t = some y ∧ y ≤ np) ∧
      (e.pendingWrite = false → ∀ q, e.nextQueueTime true = some q → ∃ y, t = some y ∧ y ≤ q) := by
  simp only [Engine.nextServiceTime, hs]
  -- t1: ping deadline folded with the earliest applicable ack timeout
  have hping : ∀ d, e.pingDeadline = some d → ∃ y, e.foldAckTimeout (minOpt none e.pingDeadline) = some y ∧ y ≤ d := by
    intro d hd
    simp only [Engine.foldAckTimeout]
    cases hn : e.nextDueTimeout with
    | none => simp [minOpt, hd]
    | some x =>
      obtain ⟨id, d'⟩ := x
      simp only []
      obtain ⟨y, hy, _, hb⟩ := foldTime_le (minOpt none e.pingDeadline) d'
      exact ⟨y, hy, hb d (by simp [minOpt, hd])⟩
  have hack : ∀ id d, (id, d) ∈ e.timeouts → e.current ≠ some id →
      ∃ y, e.foldAckTimeout (minOpt none e.pingDeadline) = some y ∧ y ≤ d := by
    intro id d hmem hne
    have hf : (id, d) ∈ e.timeouts.filter (fun x => e.current != some x.1) := by
      refine List.mem_filter.mpr ⟨hmem, ?_⟩
      simp [hne]
    obtain ⟨x, hx, h1, _⟩ := foldl_earliest_le (e.timeouts.filter (fun x => e.current != some x.1)) none
    obtain ⟨b, hb, hle⟩ := h1 _ hf
    have hnd : e.nextDueTimeout = some b := hx.trans hb
    simp only [Engine.foldAckTimeout, hnd]
    obtain ⟨y, hy, hle2, _⟩ := foldTime_le (minOpt none e.pingDeadline) b.2
    exact ⟨y, hy, by simp only at hle; omega⟩
  generalize e.foldAckTimeout (minOpt none e.pingDeadline) = t1 at hping hack ⊢
  by_cases hw : e.pendingWrite = true
  · simp only [hw, ↓reduceIte]
    exact ⟨t1, rfl, hping, hack, by intro h; simp [hw] at h, by intro h; simp [hw] at h⟩
  · simp only [hw, Bool.false_eq_true, ↓reduceIte]
    refine ⟨_, rfl, ?_, ?_, ?_, ?_⟩
    · intro d hd
      obtain ⟨y, hy, hle⟩ := hping d hd
      obtain ⟨y2, hy2, hle2⟩ := minOpt_le_left t1 y e.nextPing hy
      obtain ⟨y3, hy3, hle3⟩ := minOpt_le_right (e.nextQueueTime true) y2 _ hy2
      exact ⟨y3, hy3, by omega⟩
    · intro id d hn hne
      obtain ⟨y, hy, hle⟩ := hack id d hn hne
      obtain ⟨y2, hy2, hle2⟩ := minOpt_le_left t1 y e.nextPing hy
      obtain ⟨y3, hy3, hle3⟩ := minOpt_le_right (e.nextQueueTime true) y2 _ hy2
      exact ⟨y3, hy3, by omega⟩
    · intro _ np hnp
      obtain ⟨y2, hy2, hle2⟩ := minOpt_le_right t1 np e.nextPing hnp
      obtain ⟨y3, hy3, hle3⟩ := minOpt_le_right (e.nextQueueTime true) y2 _ hy2
      exact ⟨y3, hy3, by omega⟩
    · intro _ q hq
      exact minOpt_le_left (e.nextQueueTime true) q _ hq

/-- handshake: the reported time never exceeds the CONNACK deadline -/
theorem handshake_time_covers_deadline (e : Engine) (d : Nat) (hs : e.state = .pendingConnack) (hd : e.connackDeadline = some d) :
    ∃ y, e.nextServiceTime = some (some y) ∧ y ≤ d := by
  simp only [Engine.nextServiceTime, hs, hd]
  obtain ⟨y, hy, hle, _⟩ := foldTime_le (e.nextQueueTime false) d
  exact ⟨y, by rw [hy], hle⟩

/-- **No idle spinning on a pending write**: while a write is pending the queue never asks for service. -/
theorem no_queue_wakeup_while_write_pending (e : Engine) (all : Bool) (h : e.pendingWrite = true) : e.nextQueueTime all = none := by
  simp [Engine.nextQueueTime, h]

/-- a halted or disconnected engine asks for no service -/
theorem idle_states_ask_nothing (e : Engine) (h : e.state = .halted ∨ e.state = .disconnected) : e.nextServiceTime = some none := by
  rcases h with h | h <;> simp [Engine.nextServiceTime, h]

/-! ### every history: the write path never strands an operation -/

/-- **An operation that waits for a write completion has a write pending.**  After any history (service calls offering room for
    a fixed header): the written-but-unflushed list is empty unless the driver owes the engine a write completion - so the
    result of a QoS 0 publish (and every other operation completed by the write itself) is never left waiting for an event that
    will not come.  The reported next-service time may be 'never' only because that completion is due. -/
theorem unflushed_operation_has_a_write_pending (cfg : Config) (evs : List Event) (hc : ∀ ev ∈ evs, ev.capOk)
    (h : (runEvents (Engine.new cfg) evs).1.pendingWC ≠ []) : (runEvents (Engine.new cfg) evs).1.pendingWrite = true :=
  (pw_after cfg evs hc).1 h

/-- **The operation being written always has a byte left to write**: while the engine runs, a current operation has encoding
    steps left and they begin with a step that emits a byte - a packet whose last byte is out is never still "being written". -/
theorem current_operation_has_a_byte_left (cfg : Config) (evs : List Event) (hc : ∀ ev ∈ evs, ev.capOk) (id : Nat)
    (hs : (runEvents (Engine.new cfg) evs).1.state = .connected ∨ (runEvents (Engine.new cfg) evs).1.state = .pendingConnack)
    (hcur : (runEvents (Engine.new cfg) evs).1.current = some id) :
    (runEvents (Engine.new cfg) evs).1.encSteps ≠ [] ∧ GoodHead (runEvents (Engine.new cfg) evs).1.encSteps :=
  (pw_after cfg evs hc).2 hs id hcur

/-- non-vacuity: a QoS 0 publish with an empty payload through an 11-byte buffer (3 bytes left after its last byte) is complete with its last byte, and waits for
    the write completion with a write pending -/
example :
    let e := (runEvents (Engine.new {}) [.opened 0 100, .service 0 64 0, .writeDone 0, .data 0 [32, 3, 0, 0, 0],
      .user 1 (.publish { topic := [116, 47, 49], payload := some [] } 0 none), .service 1 11 0]).1
    (e.pendingWC == [2] && e.pendingWrite && e.current == none) = true := by decide

end GV.Props.C08
