import GV.Model.Engine
namespace GV.Props.C08
end GV.Props.C08
