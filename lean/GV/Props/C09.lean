/-
  Props/C09.lean — Receive-maximum and post-reconnect slow-start flow control are never exceeded.
  About Model/Engine.lean: `dequeue_operation`, `does_operation_pass_receive_maximum_flow_control`,
  `should_external_operations_be_slow_start_throttled` (protocol.rs).
-/
import GV.Proofs.EngineBasics
namespace GV.Props.C09
open GV

def isQos12Publish (e : Engine) (id : Nat) : Bool :=
  match (e.op? id).bind (fun o => publishQos o.packet) with
  | some q => q != 0
  | none => false

/-- **Receive maximum gates the queues.**  An operation taken from the resubmit or the user queue that is a
    QoS 1/2 publish is taken only while the number of unacknowledged publishes is below the server's Receive
    Maximum. -/
theorem dequeue_respects_receive_maximum (e : Engine) (id : Nat) (e' : Engine) (s : Settings)
    (hs : e.settings = some s) (hq : e.highQ = []) (h : e.dequeue true = (e', some id)) (hp : isQos12Publish e id = true) :
    e.pendingPub.length < s.receiveMaximum := by
  unfold Engine.dequeue at h
  split at h
  · simp at h
  · simp only [hq, Bool.not_true, Bool.false_eq_true, ↓reduceIte] at h
    split at h
    · simp at h
    · have key : ∀ x, e.passesReceiveMaximum x = true → isQos12Publish e x = true → e.pendingPub.length < s.receiveMaximum := by
        intro x hx hpx
        simp only [Engine.passesReceiveMaximum, hs] at hx
        by_cases hge : e.pendingPub.length ≥ s.receiveMaximum
        · simp only [hge, ↓reduceIte] at hx
          simp only [isQos12Publish] at hpx
          cases hb : (e.op? x).bind (fun o => publishQos o.packet) with
          | none => simp [hb] at hpx
          | some q => simp [hb] at hx hpx; exact absurd hx hpx
        · omega
      cases hr : e.resubQ with
      | cons x r =>
        simp only [hr] at h
        split at h
        · rename_i hpass
          simp only [Prod.mk.injEq, Option.some.injEq] at h
          obtain ⟨_, rfl⟩ := h
          exact key _ hpass hp
        · simp at h
      | nil =>
        simp only [hr] at h
        cases hu : e.userQ with
        | cons x r =>
          simp only [hu] at h
          split at h
          · rename_i hpass
            simp only [Prod.mk.injEq, Option.some.injEq] at h
            obtain ⟨_, rfl⟩ := h
            exact key _ hpass hp
          · simp at h
        | nil => simp [hu] at h

/-- **Slow start (one-at-a-time drain).**  While operations interrupted by the disconnection are unresolved
    (`slowStartCount ≠ 0`) and something already awaits an acknowledgement, nothing further is taken from the
    resubmit or user queues. -/
theorem slow_start_holds_back (e : Engine) (hq : e.highQ = [])
    (hth : e.slowStartThrottled = true) (hpend : e.hasPendingAck = true) : (e.dequeue true).2 = none := by
  unfold Engine.dequeue
  split
  · rfl
  · simp [hq, hth, hpend]

/-- the throttle is in force exactly when the policy is configured, the connection is established and
    interrupted operations remain -/
theorem throttle_condition (e : Engine) :
    e.slowStartThrottled = (e.cfg.drainOneAtATime && e.state == .connected && e.slowStartCount != 0) := rfl

/-- the count of interrupted operations is initialised at CONNACK to the operations that were in flight -/
theorem slow_start_initialised (e : Engine) (h : e.cfg.drainOneAtATime = true) :
    e.initSlowStart.slowStartCount = (e.ops.map (fun x => x.2.slowStart)).sum := by
  simp [Engine.initSlowStart, h]

/-- nothing is sent while a write is pending (one batch at a time) -/
theorem no_dequeue_while_write_pending (e : Engine) (all : Bool) (h : e.pendingWrite = true) : (e.dequeue all).2 = none := by
  simp [Engine.dequeue, h]

end GV.Props.C09
