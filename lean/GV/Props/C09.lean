/-
  Props/C09.lean — Receive-maximum and post-reconnect slow-start flow control are never exceeded.
  About Model/Engine.lean: `dequeue_operation`, `does_operation_pass_receive_maximum_flow_control`,
  `should_external_operations_be_slow_start_throttled` (protocol.rs).
-/
import GV.Proofs.EngineWF
namespace GV.Props.C09
open GV

def isQos12Publish (e : Engine) (id : Nat) : Bool :=
  match (e.op? id).bind (fun o => publishQos o.packet) with
  | some q => q != 0
  | none => false

/-- **Receive maximum gates the queues.**  An operation taken from the resubmit or the user queue that is a
    QoS 1/2 publish is taken only while the number of unacknowledged publishes is below the server's Receive
    Maximum. -/
theorem dequeue_respects_receive_maximum (e : Engine) (id : Nat) (e' : Engine) (s : Settings)
    (hs : e.settings = some s) (hq : e.highQ = []) (h : e.dequeue true = (e', some id)) (hp : isQos12Publish e id = true) :
    e.pendingPub.length < s.receiveMaximum := by
  unfold Engine.dequeue at h
  split at h
  · simp at h
  · simp only [hq, Bool.not_true, Bool.false_eq_true, ↓reduceIte] at h
    split at h
    · simp at h
    · have key : ∀ x, e.passesReceiveMaximum x = true → isQos12Publish e x = true → e.pendingPub.length < s.receiveMaximum := by
        intro x hx hpx
        simp only [Engine.passesReceiveMaximum, hs] at hx
        by_cases hge : e.pendingPub.length ≥ s.receiveMaximum
        · simp only [hge, ↓reduceIte] at hx
          simp only [isQos12Publish] at hpx
          cases hb : (e.op? x).bind (fun o => publishQos o.packet) with
          | none => simp [hb] at hpx
          | some q => simp [hb] at hx hpx; exact absurd hx hpx
        · omega
      cases hr : e.resubQ with
      | cons x r =>
        simp only [hr] at h
        split at h
        · rename_i hpass
          simp only [Prod.mk.injEq, Option.some.injEq] at h
          obtain ⟨_, rfl⟩ := h
          exact key _ hpass hp
        · simp at h
      | nil =>
        simp only [hr] at h
        cases hu : e.userQ with
        | cons x r =>
          simp only [hu] at h
          split at h
          · rename_i hpass
            simp only [Prod.mk.injEq, Option.some.injEq] at h
            obtain ⟨_, rfl⟩ := h
            exact key _ hpass hp
          · simp at h
        | nil => simp [hu] at h

/-- **Slow start (one-at-a-time drain).**  While operations interrupted by the disconnection are unresolved
    (`slowStartCount ≠ 0`) and something already awaits an acknowledgement, nothing further is taken from the
    resubmit or user queues. -/
theorem slow_start_holds_back (e : Engine) (hq : e.highQ = [])
    (hth : e.slowStartThrottled = true) (hpend : e.hasPendingAck = true) : (e.dequeue true).2 = none := by
  unfold Engine.dequeue
  split
  · rfl
  · simp [hq, hth, hpend]

/-- the throttle is in force exactly when the policy is configured, the connection is established and
    interrupted operations remain -/
theorem throttle_condition (e : Engine) :
    e.slowStartThrottled = (e.cfg.drainOneAtATime && e.state == .connected && e.slowStartCount != 0) := rfl

/-- the count of interrupted operations is initialised at CONNACK to the operations that were in flight -/
theorem slow_start_initialised (e : Engine) (h : e.cfg.drainOneAtATime = true) :
    e.initSlowStart.slowStartCount = (e.ops.map (fun x => x.2.slowStart)).sum := by
  simp [Engine.initSlowStart, h]

/-- nothing is sent while a write is pending (one batch at a time) -/
theorem no_dequeue_while_write_pending (e : Engine) (all : Bool) (h : e.pendingWrite = true) : (e.dequeue all).2 = none := by
  simp [Engine.dequeue, h]

end GV.Props.C09

namespace GV.Props.C09
open GV

/-! ### every history -/

/-- **Receive maximum is never exceeded.**  After any sequence of events, for any configuration: while connected, the
    number of publishes awaiting an acknowledgement is at most the Receive Maximum the server announced in this
    connection's CONNACK (65535 when it announced none). -/
theorem receive_maximum_never_exceeded (cfg : Config) (evs : List Event)
    (hs : (runEvents (Engine.new cfg) evs).1.state = .connected) :
    ∃ s, (runEvents (Engine.new cfg) evs).1.settings = some s ∧
      (runEvents (Engine.new cfg) evs).1.pendingPub.length ≤ s.receiveMaximum := by
  obtain ⟨rm, hrm, hlen, _⟩ := (inv_after cfg evs).2.1.f hs
  cases hset : (runEvents (Engine.new cfg) evs).1.settings with
  | none =>
    have : (runEvents (Engine.new cfg) evs).1.view.rm = none := by simp [Engine.view, hset]
    rw [this] at hrm; cases hrm
  | some s =>
    have : (runEvents (Engine.new cfg) evs).1.view.rm = some s.receiveMaximum := by simp [Engine.view, hset]
    rw [this] at hrm; cases hrm
    exact ⟨s, rfl, hlen⟩

/-- every entry of the pending-publish table is a distinct tracked QoS 1/2 publish carrying the id it is filed under: the
    table's length is the number of unacknowledged publishes -/
theorem pending_publish_entries (cfg : Config) (evs : List Event) (pid id : Nat)
    (h : (runEvents (Engine.new cfg) evs).1.pendingPub.lookup pid = some id) :
    ∃ o, (runEvents (Engine.new cfg) evs).1.ops.lookup id = some o ∧ o.packetId = some pid ∧ isAckedPublish o.packet = true :=
  (inv_after cfg evs).2.1.tp pid id h

/-- while a QoS 1/2 publish that is not yet in the table is being written, there is room for it -/
theorem room_for_the_publish_being_written (cfg : Config) (evs : List Event) (id : Nat) (o : Op)
    (hs : (runEvents (Engine.new cfg) evs).1.state = .connected) (hc : (runEvents (Engine.new cfg) evs).1.current = some id)
    (h : (runEvents (Engine.new cfg) evs).1.ops.lookup id = some o) (hk : isAckedPublish o.packet = true)
    (hn : id ∉ vals (runEvents (Engine.new cfg) evs).1.pendingPub) :
    ∃ s, (runEvents (Engine.new cfg) evs).1.settings = some s ∧ (runEvents (Engine.new cfg) evs).1.pendingPub.length < s.receiveMaximum := by
  obtain ⟨rm, hrm, _, hcur⟩ := (inv_after cfg evs).2.1.f hs
  cases hset : (runEvents (Engine.new cfg) evs).1.settings with
  | none =>
    have : (runEvents (Engine.new cfg) evs).1.view.rm = none := by simp [Engine.view, hset]
    rw [this] at hrm; cases hrm
  | some s =>
    have : (runEvents (Engine.new cfg) evs).1.view.rm = some s.receiveMaximum := by simp [Engine.view, hset]
    rw [this] at hrm; cases hrm
    rcases hcur id hc o h hk with a | a
    · exact absurd a hn
    · exact ⟨s, rfl, a⟩

/-- non-vacuity: receive maximum 1 announced; two QoS 1 publishes submitted; after servicing only one is in flight -/
example : ((runEvents (Engine.new {}) [.user 0 (.publish { qos := 1, topic := [97] } 7 none), .user 0 (.publish { qos := 1, topic := [98] } 8 none),
      .opened 1 100, .service 2 4096 0, .writeDone 3, .data 4 [0x20, 0x06, 0x00, 0x00, 0x03, 0x21, 0x00, 0x01], .service 5 4096 0, .writeDone 6,
      .service 7 4096 0]).1.pendingPub.length, (runEvents (Engine.new {}) [.user 0 (.publish { qos := 1, topic := [97] } 7 none), .user 0 (.publish { qos := 1, topic := [98] } 8 none),
      .opened 1 100, .service 2 4096 0, .writeDone 3, .data 4 [0x20, 0x06, 0x00, 0x00, 0x03, 0x21, 0x00, 0x01], .service 5 4096 0, .writeDone 6,
      .service 7 4096 0]).1.userQ.length) = (1, 1) := by
  decide +kernel

/-- **The throttle is on exactly while an interrupted operation is unresolved - after any sequence of events**: with the
    one-at-a-time drain configured, a Connected engine's slow-start count is the number of marks carried by the operations it
    still tracks (a mark is put on every operation the disconnection interrupted, and leaves with the operation when it is
    resolved); so the count is zero if and only if none of them is left.  (Clause `slow` of the engine invariant.) -/
theorem slow_start_count_is_the_marks_left (cfg : Config) (evs : List Event)
    (hd : (runEvents (Engine.new cfg) evs).1.cfg.drainOneAtATime = true)
    (hc : (runEvents (Engine.new cfg) evs).1.state = .connected) :
    (runEvents (Engine.new cfg) evs).1.slowStartCount =
      ((runEvents (Engine.new cfg) evs).1.ops.map (·.2.slowStart)).sum := by
  have h := (inv_after cfg evs).1.slow hd (by simp [Engine.core, hc])
  exact h

theorem sum_zero_iff (l : List Nat) : l.sum = 0 ↔ ∀ x ∈ l, x = 0 := by
  induction l with
  | nil => simp
  | cons a r ih =>
    simp only [List.sum_cons, List.mem_cons, forall_eq_or_imp]
    constructor
    · intro h; exact ⟨by omega, ih.mp (by omega)⟩
    · intro ⟨h1, h2⟩; rw [h1, ih.mpr h2]

theorem throttle_off_iff_no_mark_left (cfg : Config) (evs : List Event)
    (hd : (runEvents (Engine.new cfg) evs).1.cfg.drainOneAtATime = true)
    (hc : (runEvents (Engine.new cfg) evs).1.state = .connected) :
    (runEvents (Engine.new cfg) evs).1.slowStartThrottled = false ↔
      ∀ x ∈ (runEvents (Engine.new cfg) evs).1.ops, x.2.slowStart = 0 := by
  have hs := slow_start_count_is_the_marks_left cfg evs hd hc
  unfold Engine.slowStartThrottled
  rw [hd, hc, hs]
  simp only [Bool.true_and, beq_self_eq_true]
  constructor
  · intro h x hx
    have h0 : ((runEvents (Engine.new cfg) evs).1.ops.map (·.2.slowStart)).sum = 0 := by simpa using h
    exact (sum_zero_iff _).mp h0 x.2.slowStart (List.mem_map_of_mem (f := fun y => y.2.slowStart) hx)
  · intro h
    have h0 : ((runEvents (Engine.new cfg) evs).1.ops.map (·.2.slowStart)).sum = 0 := by
      apply (sum_zero_iff _).mpr
      intro y hy
      obtain ⟨x, hx, rfl⟩ := List.mem_map.mp hy
      exact h x hx
    simp [h0]

end GV.Props.C09
