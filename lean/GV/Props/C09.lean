import GV.Model.Engine
namespace GV.Props.C09
end GV.Props.C09
