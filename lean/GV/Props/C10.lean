/-
  Props/C10.lean — Operations go out in submission order; retransmissions first after reconnect.
  About Model/Engine.lean: `create_operation` (ids increase with submission), `dequeue_operation`
  (queue priority), `sort_operation_deque` at CONNACK (protocol.rs).
-/
import GV.Proofs.EngineWF
import GV.Proofs.EngineClose
namespace GV.Props.C10
open GV

/-- **Operation ids are handed out in submission order**: each new operation gets an id strictly above every
    earlier one. -/
theorem ids_increase (e : Engine) (p : Packet) (u : Option (Nat × Option Nat)) :
    (e.createOp p u).2 = e.nextOpId ∧ (e.createOp p u).1.nextOpId = e.nextOpId + 1 := by
  simp [Engine.createOp]

/-- **The CONNACK-time sort puts a queue into submission (id) order without losing or inventing entries.** -/
theorem sort_is_ordered_permutation (q : List Nat) : sortedNat (sortIds q) = true ∧ (sortIds q).Perm q :=
  ⟨sortIds_sorted q, sortIds_perm q⟩

/-- **Queue priority**: the next operation to be sent is the head of the high-priority queue (acks, PUBREL,
    CONNECT, PINGREQ, DISCONNECT) if any; otherwise — only on an established connection — the head of the
    resubmit queue (in-flight publishes of a resumed session), and only when that queue is empty the head of the
    user queue.  Nothing is taken from the middle of a queue, so nothing overtakes an earlier queued operation. -/
theorem dequeue_takes_heads_in_priority_order (e : Engine) (all : Bool) (id : Nat) (e' : Engine)
    (h : e.dequeue all = (e', some id)) :
    (e.highQ = id :: e'.highQ ∧ e'.resubQ = e.resubQ ∧ e'.userQ = e.userQ) ∨
    (e.highQ = [] ∧ all = true ∧ e.resubQ = id :: e'.resubQ ∧ e'.userQ = e.userQ) ∨
    (e.highQ = [] ∧ all = true ∧ e.resubQ = [] ∧ e.userQ = id :: e'.userQ) := by
  unfold Engine.dequeue at h
  split at h
  · simp at h
  · cases hq : e.highQ with
    | cons x r =>
      simp only [hq, Prod.mk.injEq, Option.some.injEq] at h
      obtain ⟨rfl, rfl⟩ := h
      exact .inl ⟨rfl, rfl, rfl⟩
    | nil =>
      simp only [hq] at h
      cases hall : all with
      | false => simp [hall] at h
      | true =>
        simp only [hall, Bool.not_true, Bool.false_eq_true, ↓reduceIte] at h
        split at h
        · simp at h
        · cases hr : e.resubQ with
          | cons x r =>
            simp only [hr] at h
            split at h
            · simp only [Prod.mk.injEq, Option.some.injEq] at h
              obtain ⟨rfl, rfl⟩ := h
              exact .inr (.inl ⟨rfl, rfl, rfl, rfl⟩)
            · simp at h
          | nil =>
            simp only [hr] at h
            cases hu : e.userQ with
            | cons x r =>
              simp only [hu] at h
              split at h
              · simp only [Prod.mk.injEq, Option.some.injEq] at h
                obtain ⟨rfl, rfl⟩ := h
                exact .inr (.inr ⟨rfl, rfl, rfl, rfl⟩)
              · simp at h
            | nil => simp [hu] at h

/-- a dequeue that yields nothing leaves every queue untouched -/
theorem dequeue_none_changes_nothing (e : Engine) (all : Bool) (e' : Engine) (h : e.dequeue all = (e', none)) : e' = e := by
  unfold Engine.dequeue at h
  split at h
  · simp at h; exact h.symm
  · cases hq : e.highQ with
    | cons x r => simp [hq] at h
    | nil =>
      simp only [hq] at h
      split at h
      · simp at h; exact h.symm
      · split at h
        · simp at h; exact h.symm
        · cases hr : e.resubQ with
          | cons x r => simp only [hr] at h; split at h <;> simp at h; exact h.symm
          | nil =>
            simp only [hr] at h
            cases hu : e.userQ with
            | cons x r => simp only [hu] at h; split at h <;> simp at h; exact h.symm
            | nil => simp [hu] at h; exact h.symm

/-- new submissions join the back of the user queue (`handle_user_event`), see C15 `preserved_is_queued`;
    before CONNACK only the high-priority queue is served -/
theorem handshake_serves_only_high_priority (e : Engine) (id : Nat) (e' : Engine) (h : e.dequeue false = (e', some id)) :
    e.highQ = id :: e'.highQ := by
  rcases dequeue_takes_heads_in_priority_order e false id e' h with h1 | h1 | h1
  · exact h1.1
  · simp at h1
  · simp at h1

/-- non-vacuity -/
example : sortIds [7, 3, 9, 1] = [1, 3, 7, 9] := by decide

end GV.Props.C10

namespace GV.Props.C10
open GV

/-! ### every history -/

/-- **Submission order.**  After any sequence of events, for any configuration: while connected, the resubmit queue
    (retransmissions) and the user queue are both in ascending operation-id order — the order of submission — and
    `dequeue_takes_heads_in_priority_order` takes operations from their heads, the resubmit queue first.  So
    operations leave each queue in submission order, retransmissions before new traffic. -/
theorem queues_in_submission_order (cfg : Config) (evs : List Event)
    (hs : (runEvents (Engine.new cfg) evs).1.state = .connected) :
    sortedNat (runEvents (Engine.new cfg) evs).1.resubQ = true ∧ sortedNat (runEvents (Engine.new cfg) evs).1.userQ = true :=
  let h := (inv_after cfg evs).2.2.2 hs
  ⟨h.2, h.1⟩

/-- every queued operation id was handed out earlier: ids are handed out in increasing order, so a later submission has
    a larger id than anything queued -/
theorem queued_ids_are_older (cfg : Config) (evs : List Event) :
    ∀ id ∈ (runEvents (Engine.new cfg) evs).1.userQ ++ (runEvents (Engine.new cfg) evs).1.resubQ ++
           (runEvents (Engine.new cfg) evs).1.highQ ++ (runEvents (Engine.new cfg) evs).1.pendingWC,
      id < (runEvents (Engine.new cfg) evs).1.nextOpId :=
  (inv_after cfg evs).2.1.qb.1

/-- non-vacuity: three operations submitted offline are queued in submission order once connected -/
example : (runEvents (Engine.new {}) [.user 0 (.publish { qos := 1, topic := [97] } 7 none), .user 0 (.publish { qos := 0, topic := [98] } 8 none),
      .user 0 (.subscribe { subscriptions := [{ topicFilter := [97] }] } 9 none),
      .opened 1 100, .service 2 4096 0, .writeDone 3, .data 4 [0x20, 0x03, 0x00, 0x00, 0x00]]).1.userQ = [1, 2, 3] := by
  decide +kernel

/-- **No operation waits twice.**  After any history the user queue and the resubmit queue together hold no operation
    twice, and nothing they hold is also in the high-priority queue, written-but-unflushed or awaiting its acknowledgement:
    an operation cannot be transmitted a second time on a connection by being dequeued again. -/
theorem queues_never_repeat (cfg : Config) (evs : List Event) :
    ((runEvents (Engine.new cfg) evs).1.userQ ++ (runEvents (Engine.new cfg) evs).1.resubQ).Nodup ∧
    ∀ id ∈ (runEvents (Engine.new cfg) evs).1.userQ ++ (runEvents (Engine.new cfg) evs).1.resubQ,
      id ∉ (runEvents (Engine.new cfg) evs).1.highQ ∧ id ∉ (runEvents (Engine.new cfg) evs).1.pendingWC ∧
      id ∉ vals (runEvents (Engine.new cfg) evs).1.pendingPub ∧ id ∉ vals (runEvents (Engine.new cfg) evs).1.pendingNonPub :=
  let x := (inv2_after cfg evs).2
  ⟨x.x5.1, fun id hi => ⟨x.x5.2 id hi, (x.x2 id hi).1, (x.x2 id hi).2.1, (x.x2 id hi).2.2⟩⟩

end GV.Props.C10
