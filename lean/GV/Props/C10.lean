import GV.Model.Engine
namespace GV.Props.C10
end GV.Props.C10
