/-
  Props/C11.lean — Server misbehaviour or odd event timing gives a clean error, never a panic.
  About Model/Engine.lean: the error discipline of `handle_network_event` / `service` and the Halted state.
  (Byte-level robustness of the decoder — no panic site, terminal errors — is Props/C03.)
-/
import GV.Proofs.EngineState
namespace GV.Props.C11
open GV

/-- **Any error from a network event halts the engine.** -/
theorem error_halts (x : Engine × Res) (k : String) (h : x.2 = .err k) : (haltOnErr x).1.state = .halted ∧ (haltOnErr x).2 = .err k := by
  simp [haltOnErr, h]

theorem success_does_not_halt (x : Engine × Res) (h : x.2 = .ok) : haltOnErr x = x := by
  simp [haltOnErr, h]

/-- **A halted engine accepts no more traffic and emits nothing**: data, write completions and service calls
    are answered with an error, produce no bytes, no completions and no events, and leave it halted. -/
theorem halted_rejects_data (e : Engine) (t : Nat) (bs : Bytes) (h : e.state = .halted) :
    (step e (.data t bs)).2.result = .err "InternalStateError" ∧ (step e (.data t bs)).2.bytes = [] ∧
    (step e (.data t bs)).2.completions = [] ∧ (step e (.data t bs)).2.events = [] ∧ (step e (.data t bs)).1.state = .halted := by
  simp [step, Engine.begin, Engine.handleData, h, haltOnErr, Engine.finish]

theorem halted_rejects_service (e : Engine) (t cap pre : Nat) (h : e.state = .halted) :
    (step e (.service t cap pre)).2.result = .err "InternalStateError" ∧ (step e (.service t cap pre)).2.bytes = [] ∧
    (step e (.service t cap pre)).2.completions = [] ∧ (step e (.service t cap pre)).1.state = .halted := by
  simp [step, Engine.begin, Engine.service, h, Engine.finish]

theorem halted_rejects_write_completion (e : Engine) (t : Nat) (h : e.state = .halted) :
    (step e (.writeDone t)).2.result = .err "InternalStateError" ∧ (step e (.writeDone t)).2.bytes = [] ∧
    (step e (.writeDone t)).1.state = .halted := by
  simp [step, Engine.begin, Engine.handleWriteCompletion, h, haltOnErr, Engine.finish]

/-- a halted engine asks for no further service -/
theorem halted_wants_no_service (e : Engine) (h : e.state = .halted) : e.nextServiceTime = some none := by
  simp [Engine.nextServiceTime, h]

/-- **The close event brings the engine — halted by an error or not — back to Disconnected**, ready for the
    next connection, whatever else the close handler does. -/
theorem close_recovers (e : Engine) (h : e.state ≠ .disconnected) : (e.handleClosed).1.state = .disconnected :=
  handleClosed_state e h

/-- **A decoding failure or a protocol violation in inbound data halts the engine and leaves every tracked
    operation and every queue as it was** (they survive for the next connection or for failure by policy). -/
theorem decode_error_keeps_operations (e : Engine) (bs : Bytes) (hs : e.state = .connected ∨ e.state = .pendingDisconnect)
    (x : DecErr)
    (hd : (decodeBytes { version := e.cfg.version, maxSize := e.cfg.connect.maximumPacketSize.getD maxVli } e.dec bs).err = some x) :
    let e' := (e.handleData bs).1
    e'.state = .halted ∧ e'.ops = e.ops ∧ e'.userQ = e.userQ ∧ e'.resubQ = e.resubQ ∧ e'.highQ = e.highQ ∧
    e'.pendingPub = e.pendingPub ∧ e'.pendingNonPub = e.pendingNonPub ∧ e'.outBytes = e.outBytes ∧ e'.outComps = e.outComps ∧
    (∃ k, (e.handleData bs).2 = .err k) := by
  have h1 : (e.state == .disconnected || e.state == .halted) = false := by rcases hs with h | h <;> simp [h]
  have h2 : (e.state == .pendingConnack) = false := by rcases hs with h | h <;> simp [h]
  simp [Engine.handleData, h1, h2, hd]

/-- AUTH is answered with an error, not a panic -/
theorem auth_is_an_error (e : Engine) (a : Auth) : e.handlePacket (.auth a) = (e, .err "Unimplemented") := rfl

/-- packets only a client sends (CONNECT, SUBSCRIBE, UNSUBSCRIBE, PINGREQ) are a protocol error when received -/
theorem client_packets_are_errors (e : Engine) :
    (∀ c, e.handlePacket (.connect c) = (e, .err "ProtocolError")) ∧ (∀ s, e.handlePacket (.subscribe s) = (e, .err "ProtocolError")) ∧
    (∀ s, e.handlePacket (.unsubscribe s) = (e, .err "ProtocolError")) ∧ e.handlePacket .pingreq = (e, .err "ProtocolError") :=
  ⟨fun _ => rfl, fun _ => rfl, fun _ => rfl, rfl⟩

/-- an acknowledgement for a packet id nothing is waiting on is a protocol error and completes nothing -/
theorem unknown_ack_is_error (e : Engine) (a : Ack) (hs : stateBlocksAcks e.state = false) (hl : e.pendingPub.lookup a.packetId = none) :
    e.handlePuback a = (e, .err "ProtocolError") ∧ e.handlePubrec a = (e, .err "ProtocolError") ∧
    e.handlePubcomp a = (e, .err "ProtocolError") := by
  simp [Engine.handlePuback, Engine.handlePubrec, Engine.handlePubcomp, hs, hl]

theorem unknown_suback_is_error (e : Engine) (s : Suback) (hs : stateBlocksAcks e.state = false) (hl : e.pendingNonPub.lookup s.packetId = none) :
    e.handleSuback s = (e, .err "ProtocolError") ∧ e.handleUnsuback s = (e, .err "ProtocolError") := by
  simp [Engine.handleSuback, Engine.handleUnsuback, hs, hl]

end GV.Props.C11
