import GV.Model.Engine
namespace GV.Props.C11
end GV.Props.C11
