/-
  Props/C11.lean — Server misbehaviour or odd event timing gives a clean error, never a panic.
  About Model/Engine.lean: the error discipline of `handle_network_event` / `service` and the Halted state.
  (Byte-level robustness of the decoder — no panic site, terminal errors — is Props/C03.)
-/
import GV.Proofs.EngineState
import GV.Proofs.EngineNoPanic
namespace GV.Props.C11
open GV

/-- **Any error from a network event halts the engine.** -/
theorem error_halts (x : Engine × Res) (k : String) (h : x.2 = .err k) : (haltOnErr x).1.state = .halted ∧ (haltOnErr x).2 = .err k := by
  simp [haltOnErr, h]

theorem success_does_not_halt (x : Engine × Res) (h : x.2 = .ok) : haltOnErr x = x := by
  simp [haltOnErr, h]

/-- **A halted engine accepts no more traffic and emits nothing**: data, write completions and service calls
    are answered with an error, produce no bytes, no completions and no events, and leave it halted. -/
theorem halted_rejects_data (e : Engine) (t : Nat) (bs : Bytes) (h : e.state = .halted) :
    (step e (.data t bs)).2.result = .err "InternalStateError" ∧ (step e (.data t bs)).2.bytes = [] ∧
    (step e (.data t bs)).2.completions = [] ∧ (step e (.data t bs)).2.events = [] ∧ (step e (.data t bs)).1.state = .halted := by
  simp [step, Engine.begin, Engine.handleData, h, haltOnErr, Engine.finish]

theorem halted_rejects_service (e : Engine) (t cap pre : Nat) (h : e.state = .halted) :
    (step e (.service t cap pre)).2.result = .err "InternalStateError" ∧ (step e (.service t cap pre)).2.bytes = [] ∧
    (step e (.service t cap pre)).2.completions = [] ∧ (step e (.service t cap pre)).1.state = .halted := by
  simp [step, Engine.begin, Engine.service, Engine.serviceCore, h, Engine.finish]

theorem halted_rejects_write_completion (e : Engine) (t : Nat) (h : e.state = .halted) :
    (step e (.writeDone t)).2.result = .err "InternalStateError" ∧ (step e (.writeDone t)).2.bytes = [] ∧
    (step e (.writeDone t)).1.state = .halted := by
  simp [step, Engine.begin, Engine.handleWriteCompletion, h, haltOnErr, Engine.finish]

/-- a halted engine asks for no further service -/
theorem halted_wants_no_service (e : Engine) (h : e.state = .halted) : e.nextServiceTime = some none := by
  simp [Engine.nextServiceTime, h]

/-- **The close event brings the engine — halted by an error or not — back to Disconnected**, ready for the
    next connection, whatever else the close handler does. -/
theorem close_recovers (e : Engine) (h : e.state ≠ .disconnected) : (e.handleClosed).1.state = .disconnected :=
  handleClosed_state e h

/-- **A decoding failure in inbound data halts the engine and leaves every tracked operation and every queue as it was**
    (they survive for the next connection or for failure by policy) - here for a read that holds nothing well-formed in front of
    the bad bytes; well-formed packets in front of them are handled first, exactly as if they had arrived in an earlier read
    (`bad_bytes_do_not_hide_what_came_before`). -/
theorem decode_error_keeps_operations (e : Engine) (bs : Bytes) (hs : e.state = .connected ∨ e.state = .pendingDisconnect)
    (x : DecErr)
    (hd : (decodeBytes { version := e.cfg.version, maxSize := e.inboundMax } e.dec bs).err = some x)
    (hp : (decodeBytes { version := e.cfg.version, maxSize := e.inboundMax } e.dec bs).packets = []) :
    let e' := (e.handleData bs).1
    e'.state = .halted ∧ e'.ops = e.ops ∧ e'.userQ = e.userQ ∧ e'.resubQ = e.resubQ ∧ e'.highQ = e.highQ ∧
    e'.pendingPub = e.pendingPub ∧ e'.pendingNonPub = e.pendingNonPub ∧ e'.outBytes = e.outBytes ∧ e'.outComps = e.outComps ∧
    (∃ k, (e.handleData bs).2 = .err k) := by
  have h1 : (e.state == .disconnected || e.state == .halted) = false := by rcases hs with h | h <;> simp [h]
  have h2 : (e.state == .pendingConnack) = false := by rcases hs with h | h <;> simp [h]
  simp [Engine.handleData, h1, h2, hd, hp, Engine.handlePackets, Res.isOk]

/-- **Bad bytes do not hide what came before them**: what a read does is what its well-formed packets do, one after the
    other, and only then the verdict on the rest of the read - a well-formed PUBLISH or acknowledgement is handled the same
    whether the bytes that break the stream arrive in the same read or in the next one. -/
theorem bad_bytes_do_not_hide_what_came_before (e : Engine) (bs : Bytes) (hs : e.state = .connected ∨ e.state = .pendingDisconnect) :
    let r := decodeBytes { version := e.cfg.version, maxSize := e.inboundMax } e.dec bs
    let x := ({ e with dec := r.dec } : Engine).handlePackets r.packets
    (x.2.isOk = false → e.handleData bs = x) ∧
    (x.2.isOk = true → r.err = none → e.handleData bs = (x.1, .ok)) ∧
    (x.2.isOk = true → ∀ d, r.err = some d → (e.handleData bs).1 = { x.1 with state := .halted } ∧ ∃ k, (e.handleData bs).2 = .err k) := by
  have h1 : (e.state == .disconnected || e.state == .halted) = false := by rcases hs with h | h <;> simp [h]
  have h2 : (e.state == .pendingConnack) = false := by rcases hs with h | h <;> simp [h]
  simp only []
  refine ⟨fun hx => ?_, fun hx he => ?_, fun hx d he => ?_⟩
  · simp [Engine.handleData, h1, h2, hx]
  · simp [Engine.handleData, h1, h2, hx, he]
  · simp [Engine.handleData, h1, h2, hx, he]

/-- AUTH is answered with an error, not a panic -/
theorem auth_is_an_error (e : Engine) (a : Auth) : e.handlePacket (.auth a) = (e, .err "Unimplemented") := rfl

/-- packets only a client sends (CONNECT, SUBSCRIBE, UNSUBSCRIBE, PINGREQ) are a protocol error when received -/
theorem client_packets_are_errors (e : Engine) :
    (∀ c, e.handlePacket (.connect c) = (e, .err "ProtocolError")) ∧ (∀ s, e.handlePacket (.subscribe s) = (e, .err "ProtocolError")) ∧
    (∀ s, e.handlePacket (.unsubscribe s) = (e, .err "ProtocolError")) ∧ e.handlePacket .pingreq = (e, .err "ProtocolError") :=
  ⟨fun _ => rfl, fun _ => rfl, fun _ => rfl, rfl⟩

/-- an acknowledgement for a packet id nothing is waiting on is a protocol error and completes nothing -/
theorem unknown_ack_is_error (e : Engine) (a : Ack) (hs : stateBlocksAcks e.state = false) (hl : e.pendingPub.lookup a.packetId = none) :
    e.handlePuback a = (e, .err "ProtocolError") ∧ e.handlePubrec a = (e, .err "ProtocolError") ∧
    e.handlePubcomp a = (e, .err "ProtocolError") := by
  simp [Engine.handlePuback, Engine.handlePubrec, Engine.handlePubcomp, hs, hl]

theorem unknown_suback_is_error (e : Engine) (s : Suback) (hs : stateBlocksAcks e.state = false) (hl : e.pendingNonPub.lookup s.packetId = none) :
    e.handleSuback s = (e, .err "ProtocolError") ∧ e.handleUnsuback s = (e, .err "ProtocolError") := by
  simp [Engine.handleSuback, Engine.handleUnsuback, hs, hl]

end GV.Props.C11

namespace GV.Props.C11
open GV

/-! ### after an error: every continuation until the connection is closed -/

/-- events a driver may still deliver to a halted engine before it closes the connection (everything except
    "connection closed" and the client-level reset) -/
def beforeClose : Event → Bool
  | .closed _ => false
  | .reset _ => false
  | _ => true

theorem submit_halted (e : Engine) (packet : Packet) (user : Option (Nat × Option Nat)) (q : QueueKind) (front : Bool) (h : e.state = .halted) :
    (e.submit packet user q front).1.state = .halted ∧ (e.submit packet user q front).1.outBytes = e.outBytes ∧
    (e.submit packet user q front).1.outEvents = e.outEvents := by
  unfold Engine.submit
  simp only []
  have hc : (e.createOp packet user).1.state = .halted ∧ (e.createOp packet user).1.outBytes = e.outBytes ∧
      (e.createOp packet user).1.outEvents = e.outEvents := by simp [Engine.createOp, h]
  split
  · have hs := completeFailure_state (e.createOp packet user).1 (e.createOp packet user).2 "OfflineQueuePolicyFailed" (by rw [hc.1]; decide)
    have hk := completeFailure_same (e.createOp packet user).1 (e.createOp packet user).2 "OfflineQueuePolicyFailed"
    exact ⟨by simp only []; rw [hs]; exact hc.1, by simp only []; rw [hk.outBytes]; exact hc.2.1, by simp only []; rw [hk.outEvents]; exact hc.2.2⟩
  · cases henq : (e.createOp packet user).1.enqueue (e.createOp packet user).2 q front with
    | none => exact hc
    | some e2 =>
      simp only []
      unfold Engine.enqueue at henq
      split at henq
      · cases henq
      · cases q <;> simp only [] at henq <;> cases henq <;> exact hc

theorem handleUser_halted (e : Engine) (u : UserEvent) (h : e.state = .halted) :
    (e.handleUser u).1.state = .halted ∧ (e.handleUser u).1.outBytes = e.outBytes ∧ (e.handleUser u).1.outEvents = e.outEvents := by
  cases u <;> exact submit_halted e _ _ _ _ h

/-- **A halted engine stays halted and silent under every event a driver can still deliver before it closes the
    connection** — user submissions, inbound bytes, write completions, service calls, time queries, even a
    spurious "connection opened": no byte is emitted, no packet is surfaced, and the state stays Halted. -/
theorem halted_step_silent (e : Engine) (ev : Event) (h : e.state = .halted) (hb : beforeClose ev = true) :
    (step e ev).1.state = .halted ∧ (step e ev).2.bytes = [] ∧ (step e ev).2.events = [] := by
  cases ev with
  | closed t => simp [beforeClose] at hb
  | reset t => simp [beforeClose] at hb
  | user t u =>
    have hu := handleUser_halted (e.begin t) u (by simp [Engine.begin, h])
    simp only [step, Engine.finish]
    exact ⟨hu.1, by rw [hu.2.1]; rfl, by rw [hu.2.2]; rfl⟩
  | opened t d =>
    have hs : ((e.begin t).state != .disconnected) = true := by simp [Engine.begin, h]
    have ho : (e.begin t).handleOpened d = ({ (e.begin t) with state := .halted }, .err "InternalStateError") := by
      simp only [Engine.handleOpened, hs, ↓reduceIte]
    simp only [step]
    rw [ho]
    simp [haltOnErr, Engine.finish, Engine.begin]
  | data t bs => exact ⟨(halted_rejects_data e t bs h).2.2.2.2, (halted_rejects_data e t bs h).2.1, (halted_rejects_data e t bs h).2.2.2.1⟩
  | writeDone t =>
    simp [step, Engine.begin, Engine.handleWriteCompletion, h, haltOnErr, Engine.finish]
  | service t cap pre =>
    simp [step, Engine.begin, Engine.service, Engine.serviceCore, h, Engine.finish]
  | queryNext t => simp [step, Engine.begin, h]

/-- **Every continuation.**  After an error has halted the engine, for every sequence of such events, of any length
    and in any order, the engine emits nothing at all and accepts no traffic, until the connection is closed. -/
theorem halted_run_silent (evs : List Event) : ∀ (e : Engine), e.state = .halted → (∀ ev ∈ evs, beforeClose ev = true) →
    (evs.foldl (fun (acc : Engine × Bytes × List Packet) ev =>
        let (e', o) := step acc.1 ev
        (e', acc.2.1 ++ o.bytes, acc.2.2 ++ o.events)) (e, [], [])).2 = ([], []) ∧
    (evs.foldl (fun (acc : Engine × Bytes × List Packet) ev =>
        let (e', o) := step acc.1 ev
        (e', acc.2.1 ++ o.bytes, acc.2.2 ++ o.events)) (e, [], [])).1.state = .halted := by
  induction evs with
  | nil => intro e h _; exact ⟨rfl, h⟩
  | cons ev rest ih =>
    intro e h hall
    have hs := halted_step_silent e ev h (hall ev (List.mem_cons_self ..))
    simp only [List.foldl, hs.2.1, hs.2.2, List.append_nil]
    exact ih (step e ev).1 hs.1 (fun x hx => hall x (List.mem_cons_of_mem _ hx))

/-! ### every history -/

/-- **The engine never panics.**  After any sequence of events whatsoever from a fresh engine - user submissions, opened /
    closed notifications, any inbound bytes, write completions, service calls with any clock and buffer, time queries,
    resets, in any order, legal for a driver or not, under any configuration - the next event, whatever it is, is answered
    with success or with an error value: none of the engine's `unwrap()`, `assert!` or `panic!` sites (every one of them is
    an explicit `Res.panic` outcome of the model: missing operation, missing negotiated settings, missing CONNACK timeout,
    slow-start underflow, the five assertions of `apply_session_present_to_connection`, a completion without result, a
    pending publish that is no publish) is reachable.  The one demand on the driver: a service call offers room for a
    fixed header (capacity ≥ 4, `Event.capOk`) - below that the encoder itself refuses (`encode_target_buffer_too_small`),
    and both drivers use 4 KiB and more. -/
theorem engine_never_panics (cfg : Config) (evs : List Event) (ev : Event) (hcap : ev.capOk) (site : String) :
    (step (runEvents (Engine.new cfg) evs).1 ev).2.result ≠ .panic site :=
  step_np _ ev (inv2_after cfg evs) hcap site

/-- the capacity demand is needed: with room for less than a fixed header the encoder's own check fires -/
example : (step (step (Engine.new {}) (.opened 0 100)).1 (.service 0 3 0)).2.result = .panic "encode_target_buffer_too_small" := by
  decide

/-- non-vacuity: the same history with a 64-byte buffer writes the CONNECT -/
example : (step (step (Engine.new {}) (.opened 0 100)).1 (.service 0 64 0)).2.result = .ok := by decide

/-- **The inbound size limit is in force only where the CONNECT announces it.**  Under MQTT 3.1.1 - whose CONNECT has no
    Maximum Packet Size - the decoder is given the protocol's own limit whatever the connect options say, so a server that
    sends a large packet follows the protocol and is not reported as violating it; under MQTT 5 the configured value (sent in
    the CONNECT) is the limit, and none configured means the protocol's limit. -/
theorem inbound_limit_only_where_announced (e : Engine) :
    (e.cfg.version = .v311 → e.inboundMax = maxPacket) ∧
    (e.cfg.version = .v5 → e.inboundMax = e.cfg.connect.maximumPacketSize.getD maxPacket) := by
  unfold Engine.inboundMax
  constructor
  · intro h; rw [h]; rfl
  · intro h; rw [h]; rfl

/-- **Session Present = 1 in answer to a clean start is a protocol error** ([MQTT-3.2.2-1], [MQTT-3.2.2-2], [MQTT-3.2.2-4]): a successful CONNACK that
    reports a session although the CONNECT of this connection asked for a clean start / clean session fails the connection;
    nothing is taken for resumed. -/
theorem session_present_after_clean_start_is_refused (e : Engine) (c : Connack) (hs : e.state = .pendingConnack)
    (hrc : c.reasonCode = 0) (hv : vConnackInbound c = .ok ()) (hsp : c.sessionPresent = true) (hcl : e.connectClean = true) :
    e.handleConnack c = (e, .err "ProtocolError") := by
  unfold Engine.handleConnack
  simp [hs, hrc, hv, hsp, hcl]

/-- the flag is the Clean Start of the CONNECT queued for this connection -/
theorem opened_records_clean_start (e : Engine) (d : Nat) (hs : e.state = .disconnected) :
    (e.handleOpened d).1.connectClean = connectIsClean e.createConnect := by
  unfold Engine.handleOpened
  simp only [hs, bne_self_eq_false, Bool.false_eq_true, ↓reduceIte, Engine.createOp]
  unfold Engine.enqueue
  simp only [Engine.op?, lookup_mapInsert_self, Option.isNone_some, Bool.false_eq_true, ↓reduceIte]
  rfl

end GV.Props.C11
