import GV.Model.Client
namespace GV.Props.C12
end GV.Props.C12
