/-
  Props/C12.lean — Lifecycle: well-formed event stream; stop always stops; close is terminal.
  About Model/Client.lean (client/mod.rs `MqttClientImpl`: `handle_incoming_operation`,
  `compute_optional_state_transition`, `transition_to_state`, `dispatch_packet_events`).
  The network drivers' loops only request the transitions listed in `legal`.
-/
import GV.Model.Client
namespace GV.Props.C12
open GV

instance : LawfulBEq CState where
  eq_of_beq := by intro a b h; cases a <;> cases b <;> first | rfl | cases h
  rfl := by intro a; cases a <;> rfl

/-! ### the event grammar -/

inductive Phase where
  | idle | attempting | established | bad
  deriving Repr, BEq, DecidableEq

/-- the grammar's automaton: Attempt (Failure | Success Disconnection); Stopped only between attempts;
    inbound publishes do not affect it -/
def Phase.step : Phase → CEvent → Phase
  | .idle, .attempt => .attempting
  | .attempting, .failure _ => .idle
  | .attempting, .success _ => .established
  | .established, .disconnection _ => .idle
  | .idle, .stopped => .idle
  | p, .publish _ => p
  | _, _ => .bad

def phaseOf (evs : List CEvent) : Phase := evs.foldl Phase.step .idle

theorem phaseOf_append (a : List CEvent) (ev : CEvent) : phaseOf (a ++ [ev]) = (phaseOf a).step ev := by
  simp [phaseOf, List.foldl_append]

/-- where the grammar must stand for a client in this state -/
def expected (c : Client) : Phase :=
  match c.current with
  | .connecting => .attempting
  | .connected => if c.lastConnack = some true then .established else .attempting
  | _ => .idle

/-- the invariant: the whole event history is a prefix of a well-formed stream, in step with the state -/
def Inv (c : Client) : Prop :=
  phaseOf c.events = expected c ∧ (c.current = .connecting → c.lastConnack = none)

/-- the transitions the drivers' loops request -/
def legal : CState → CState → Bool
  | .stopped, .connecting | .stopped, .shutdown => true
  | .connecting, .connected | .connecting, .pendingReconnect | .connecting, .stopped => true
  | .connected, .pendingReconnect | .connected, .stopped => true
  | .pendingReconnect, .connecting | .pendingReconnect, .stopped => true
  | _, _ => false

theorem engStep_fields (c : Client) (ev : Event) :
    (c.engStep ev).1.current = c.current ∧ (c.engStep ev).1.desired = c.desired ∧ (c.engStep ev).1.events = c.events ∧
    (c.engStep ev).1.lastConnack = c.lastConnack := by
  simp [Client.engStep]

/-- where `transition_to_state` can really end up from a state, given what the loops request -/
def legal2 : CState → CState → Bool
  | .stopped, .connecting | .stopped, .shutdown => true
  | .connecting, .connected | .connecting, .pendingReconnect | .connecting, .stopped | .connecting, .shutdown => true
  | .connected, .pendingReconnect | .connected, .stopped | .connected, .shutdown => true
  | .pendingReconnect, .connecting | .pendingReconnect, .stopped | .pendingReconnect, .shutdown => true
  | _, _ => false

theorem finalTarget_legal (c : Client) (target : CState) (h : legal c.current target = true) :
    legal2 c.current (c.finalTarget target) = true := by
  have key : ∀ cur target desired, legal cur target = true → legal2 cur (finalTargetOf desired target) = true := by
    intro cur target desired
    cases cur <;> cases target <;> cases desired <;> decide
  exact key _ _ _ h

/-- the grammar position for a state/CONNACK pair -/
def expectedAt (cur : CState) (lastConnack : Option Bool) : Phase :=
  match cur with
  | .connecting => .attempting
  | .connected => if lastConnack = some true then .established else .attempting
  | _ => .idle

theorem expected_eq (c : Client) : expected c = expectedAt c.current c.lastConnack := rfl

/-- the event/bookkeeping part of a transition keeps the stream well-formed -/
theorem applyTransition_keeps_grammar (c1 : Client) (old t2 : CState) (lasted : Option Nat)
    (hp : phaseOf c1.events = expectedAt old c1.lastConnack) (hc : old = .connecting → c1.lastConnack = none)
    (hl : legal2 old t2 = true) :
    phaseOf (c1.applyTransition old t2 lasted).events = expectedAt t2 (c1.applyTransition old t2 lasted).lastConnack ∧
    ((c1.applyTransition old t2 lasted).current = t2) ∧
    (t2 = .connecting → (c1.applyTransition old t2 lasted).lastConnack = none) := by
  cases old <;> cases t2 <;> simp [legal2] at hl <;>
    simp only [Client.applyTransition, Client.emit, Client.emitFailure, Client.emitDisconnection, beq_self_eq_true,
      Bool.and_self, Bool.and_true, Bool.true_and, Bool.false_and, Bool.and_false, ↓reduceIte, bne_self_eq_false,
      Bool.false_eq_true, reduceCtorEq, beq_iff_eq, bne_iff_ne, ne_eq, not_true_eq_false, not_false_eq_true, decide_true, decide_false,
      expectedAt, phaseOf_append] at hp hc ⊢ <;>
    (first
      | (simp [hp, Phase.step]; done)
      | (cases hlc : c1.lastConnack with
         | none => simp_all [Phase.step, phaseOf_append]
         | some b => cases b <;> simp_all [Phase.step, phaseOf_append]))

/-- **Every transition keeps the event stream well-formed**: entering Connecting reports an attempt, leaving
    Connecting without reaching Connected reports exactly one failure, leaving Connected reports exactly one
    disconnection (after a success) or failure (without one), Stopped is reported only between attempts. -/
theorem transition_keeps_grammar (c : Client) (target : CState) (lasted : Option Nat)
    (h : Inv c) (hl : legal c.current target = true) : Inv (c.transitionTo target lasted).1 := by
  obtain ⟨hp, hc⟩ := h
  rw [expected_eq] at hp
  unfold Client.transitionTo
  by_cases hsame : (c.current == target) = true
  · simp only [hsame, ↓reduceIte]; exact ⟨by rw [expected_eq]; exact hp, hc⟩
  · simp only [hsame, Bool.false_eq_true, ↓reduceIte]
    have hl2 := finalTarget_legal c target hl
    -- the engine notification changes neither the state, the events nor the last CONNACK
    have key : ∀ (c1 : Client) (r : Res), c1.events = c.events → c1.lastConnack = c.lastConnack → c1.current = c.current →
        Inv (if (!r.isOk) = true then (c1, r) else (c1.applyTransition c.current (c.finalTarget target) lasted, Res.ok)).1 := by
      intro c1 r he hk hcur
      cases hr : r.isOk
      · simp only [Bool.not_false, ↓reduceIte]
        exact ⟨by rw [expected_eq, he, hk, hcur]; exact hp, by rw [hcur, hk]; exact hc⟩
      · simp only [Bool.not_true, Bool.false_eq_true, ↓reduceIte]
        have := applyTransition_keeps_grammar c1 c.current (c.finalTarget target) lasted (by rw [he, hk]; exact hp) (by rw [hk]; exact hc) hl2
        exact ⟨by rw [expected_eq, this.2.1]; exact this.1, by rw [this.2.1]; exact this.2.2⟩
    split
    · have hf := engStep_fields c (.opened 0 30000)
      exact key _ _ hf.2.2.1 hf.2.2.2 hf.1
    · split
      · have hf := engStep_fields c (.closed 0)
        exact key _ _ hf.2.2.1 hf.2.2.2 hf.1
      · exact key c .ok rfl rfl rfl

/-- **CONNACK handling keeps the stream well-formed**: the first CONNACK of a connection reports a success
    exactly when its reason code is success; inbound publishes do not disturb the grammar. -/
theorem connack_keeps_grammar (c : Client) (k : Connack) (h : Inv c) (hcur : c.current = .connected) (hfirst : c.lastConnack = none) :
    Inv (c.dispatchEvents [.connack k]) := by
  obtain ⟨hp, _⟩ := h
  simp only [expected, hcur, hfirst] at hp
  simp only [Client.dispatchEvents, List.foldl]
  by_cases hk : k.reasonCode = 0
  · simp [hk, Inv, expected, Client.emit, hcur, phaseOf_append, hp, Phase.step]
  · simp [hk, Inv, expected, hcur, hp]

theorem publish_keeps_grammar (c : Client) (p : Publish) (h : Inv c) : Inv (c.dispatchEvents [.publish p]) := by
  obtain ⟨hp, hc⟩ := h
  simp only [Client.dispatchEvents, List.foldl, Client.emit]
  refine ⟨?_, hc⟩
  simp only [expected] at hp ⊢
  rw [phaseOf_append, hp]
  cases c.current <;> simp [Phase.step] <;> split <;> simp [Phase.step]

/-- non-vacuity: a fresh client satisfies the invariant -/
example (e : Engine) : Inv { eng := e } := by simp [Inv, expected, phaseOf]

/-! ### stop always stops; close is terminal -/

/-- Once the user no longer wants a connection, a client that is connecting or waiting to reconnect is moved
    to Stopped at the loop's next look — whatever the transport is doing. -/
theorem stop_leaves_connecting (c : Client) (hd : c.desired ≠ .connected)
    (hcur : c.current = .connecting ∨ c.current = .pendingReconnect) :
    c.computeTransition = some .stopped := by
  rcases hcur with h | h <;> simp [Client.computeTransition, h, bne_iff_ne, hd]

/-- A connected client stops at once unless a user-requested DISCONNECT is still to be written. -/
theorem stop_leaves_connected (c : Client) (hd : c.desired ≠ .connected) (hcur : c.current = .connected)
    (hs : c.stopOpts ≠ some true) : c.computeTransition = some .stopped := by
  simp only [Client.computeTransition, hcur]
  cases hso : c.stopOpts with
  | none => simp [bne_iff_ne, hd]
  | some b => cases b <;> simp_all [bne_iff_ne]

/-- A stopped client whose user wants it stopped makes no attempt; it leaves Stopped only for a start or a close. -/
theorem stopped_stays_stopped (c : Client) (hcur : c.current = .stopped) :
    c.computeTransition = (match c.desired with | .connected => some .connecting | .shutdown => some .shutdown | _ => none) := by
  simp only [Client.computeTransition, hcur]
  cases c.desired <;> rfl

/-- A stop with a DISCONNECT during the handshake (no established MQTT connection) does not wait for a
    DISCONNECT that cannot be sent. -/
theorem stop_with_disconnect_during_handshake (c : Client) (d : Disconnect) (h : (c.eng.state == .connected) = false) :
    (c.handleOp (.stopWithDisconnect d)).stopOpts = some false ∧ (c.handleOp (.stopWithDisconnect d)).desired = .stopped := by
  simp [Client.handleOp, h, Client.applyError]
  split <;> simp

/-- **Close is terminal**: after a close request nothing is left to wait for, so wherever the client is the
    loop's next look moves it out, and that transition ends in Shutdown. -/
theorem close_shuts_down (c : Client) (hcur : c.current ≠ .shutdown) :
    let c' := c.handleOp .close
    ∃ t, c'.computeTransition = some t ∧ c'.finalTarget t = .shutdown := by
  have hf := engStep_fields c (.reset 0)
  simp only [Client.handleOp]
  cases hc : c.current with
  | shutdown => exact absurd hc hcur
  | stopped => exact ⟨.shutdown, by simp [Client.computeTransition, hf.1, hc], by simp [Client.finalTarget]; decide⟩
  | connecting => exact ⟨.stopped, by simp [Client.computeTransition, hf.1, hc], by simp [Client.finalTarget]; decide⟩
  | pendingReconnect => exact ⟨.stopped, by simp [Client.computeTransition, hf.1, hc], by simp [Client.finalTarget]; decide⟩
  | connected => exact ⟨.stopped, by simp [Client.computeTransition, hf.1, hc], by simp [Client.finalTarget]; decide⟩

/-- **A start processed after a close is ignored** (it used to set the desired state back to Connected and revive a client
    whose loop had not ended yet). -/
theorem start_after_close_is_ignored (c : Client) (h : c.desired = .shutdown) : c.handleOp .start = c := by
  simp [Client.handleOp, h]

def isStopRequest : ClientOp → Bool
  | .stop => true
  | .stopWithDisconnect _ => true
  | _ => false

/-- **No request undoes a close** (partial: request sequences without a stop): once close has been requested the desired
    state stays Shutdown whatever starts, closes and operations are processed afterwards.  What is missing: a *stop* processed
    after the close overwrites the desired state with Stopped in `handle_incoming_operation`; both driver loops look at the
    client (`computeTransition`, which `close_shuts_down` shows leads to Shutdown) after every single request, so they never
    process a second request on a closed client - that is a fact about the loops, covered by the driver runs, not by this
    model. -/
theorem close_is_never_undone_partial (c : Client) (ops : List ClientOp) (h : c.desired = .shutdown)
    (hns : ops.all (fun o => !isStopRequest o) = true) :
    (ops.foldl Client.handleOp c).desired = .shutdown := by
  induction ops generalizing c with
  | nil => exact h
  | cons o os ih =>
    simp only [List.all_cons, Bool.and_eq_true] at hns
    refine ih _ ?_ hns.2
    cases o with
    | start => simp [Client.handleOp, h]
    | stop => simp [isStopRequest] at hns
    | stopWithDisconnect d => simp [isStopRequest] at hns
    | close => simp [Client.handleOp]
    | publish p => simp only [Client.handleOp]; rw [(engStep_fields c _).2.1]; exact h

example (e : Engine) : (({ eng := e, desired := .shutdown } : Client).handleOp .stop).desired = .stopped := by
  simp [Client.handleOp, Client.applyError]

/-- Shutdown is absorbing: the loop requests nothing further. -/
theorem shutdown_is_final (c : Client) (hcur : c.current = .shutdown) : c.computeTransition = none := by
  simp [Client.computeTransition, hcur]

end GV.Props.C12

namespace GV.Props.C12
open GV

/-! ### every history: the invariant over arbitrary sequences of what the driver loops do -/

/-- what a driver loop does to the client between two looks at it -/
inductive Action where
  /-- a user request taken from the operation channel -/
  | op (o : ClientOp)
  /-- `transition_to_state(target)`; `lasted` is the measured age of the connection -/
  | transition (target : CState) (lasted : Option Nat)
  /-- the engine surfaced these packets from one read (`dispatch_packet_events`) -/
  | dispatch (evs : List Packet)
  /-- an error recorded by the driver (`apply_error`) -/
  | error (kind : String)

def isConnack : Packet → Bool
  | .connack _ => true
  | _ => false

/-- the actions a driver can perform in a state: transitions it may request, and at most one CONNACK event per
    connection (the engine accepts a CONNACK only in PendingConnack), surfaced while the client is Connected -/
def allowed (c : Client) : Action → Prop
  | .op _ => True
  | .transition target _ => legal c.current target = true
  | .dispatch evs =>
    (evs.all (fun p => !isConnack p)) ∨
    (c.current = .connected ∧ c.lastConnack = none ∧ ∃ pre k post, evs = pre ++ [.connack k] ++ post ∧
      pre.all (fun p => !isConnack p) = true ∧ post.all (fun p => !isConnack p) = true)
  | .error _ => True

def act (c : Client) : Action → Client
  | .op o => c.handleOp o
  | .transition target lasted => (c.transitionTo target lasted).1
  | .dispatch evs => c.dispatchEvents evs
  | .error k => c.applyError k

theorem handleOp_keeps (c : Client) (o : ClientOp) :
    (c.handleOp o).events = c.events ∧ (c.handleOp o).current = c.current ∧ (c.handleOp o).lastConnack = c.lastConnack := by
  cases o <;> simp only [Client.handleOp, Client.applyError, Client.engStep] <;> (repeat' split) <;> (try simp) <;> (repeat' split) <;> simp

theorem applyError_keeps (c : Client) (k : String) :
    (c.applyError k).events = c.events ∧ (c.applyError k).current = c.current ∧ (c.applyError k).lastConnack = c.lastConnack := by
  simp only [Client.applyError]; split <;> simp

theorem dispatch_append (c : Client) (a b : List Packet) : c.dispatchEvents (a ++ b) = (c.dispatchEvents a).dispatchEvents b := by
  simp [Client.dispatchEvents, List.foldl_append]

/-- events other than CONNACK keep the invariant and touch neither the state nor the last CONNACK -/
theorem dispatch_no_connack (evs : List Packet) : ∀ (c : Client), evs.all (fun p => !isConnack p) = true → Inv c →
    Inv (c.dispatchEvents evs) ∧ (c.dispatchEvents evs).current = c.current ∧ (c.dispatchEvents evs).lastConnack = c.lastConnack := by
  induction evs with
  | nil => intro c _ h; exact ⟨h, rfl, rfl⟩
  | cons p rest ih =>
    intro c hall h
    simp only [List.all_cons, Bool.and_eq_true] at hall
    have hstep : Inv (c.dispatchEvents [p]) ∧ (c.dispatchEvents [p]).current = c.current ∧ (c.dispatchEvents [p]).lastConnack = c.lastConnack := by
      cases p with
      | publish pb => exact ⟨publish_keeps_grammar c pb h, by simp [Client.dispatchEvents, Client.emit], by simp [Client.dispatchEvents, Client.emit]⟩
      | connack k => simp [isConnack] at hall
      | _ => exact ⟨by simpa [Client.dispatchEvents] using h, by simp [Client.dispatchEvents], by simp [Client.dispatchEvents]⟩
    have := ih (c.dispatchEvents [p]) hall.2 hstep.1
    rw [show p :: rest = [p] ++ rest from rfl, dispatch_append]
    exact ⟨this.1, this.2.1.trans hstep.2.1, this.2.2.trans hstep.2.2⟩

/-- one legal action keeps the invariant -/
theorem act_keeps_grammar (c : Client) (a : Action) (h : Inv c) (hl : allowed c a) : Inv (act c a) := by
  cases a with
  | op o =>
    have hk := handleOp_keeps c o
    exact ⟨by simp only [act]; rw [expected_eq, hk.1, hk.2.1, hk.2.2, ← expected_eq]; exact h.1, by simp only [act]; rw [hk.2.1, hk.2.2]; exact h.2⟩
  | error k =>
    have hk := applyError_keeps c k
    exact ⟨by simp only [act]; rw [expected_eq, hk.1, hk.2.1, hk.2.2, ← expected_eq]; exact h.1, by simp only [act]; rw [hk.2.1, hk.2.2]; exact h.2⟩
  | transition target lasted => exact transition_keeps_grammar c target lasted h hl
  | dispatch evs =>
    simp only [act]
    rcases hl with hl | ⟨hcur, hfirst, pre, k, post, rfl, hpre, hpost⟩
    · exact (dispatch_no_connack evs c hl h).1
    · rw [dispatch_append, dispatch_append]
      have h1 := dispatch_no_connack pre c hpre h
      have h2 := connack_keeps_grammar (c.dispatchEvents pre) k h1.1 (h1.2.1.trans hcur) (h1.2.2.trans hfirst)
      exact (dispatch_no_connack post _ hpost h2).1

/-- a history: each action legal in the state it is performed in -/
def LegalRun : Client → List Action → Prop
  | _, [] => True
  | c, a :: rest => allowed c a ∧ LegalRun (act c a) rest

/-- **Every history.**  Starting from a freshly created client, after any sequence of user requests, transitions
    requested by the driver loops, surfaced packets and recorded errors, the whole event stream delivered so far is a
    prefix of a well-formed stream (Attempt (Failure | Success Disconnection), Stopped only between attempts) and is in
    step with the client's state. -/
theorem every_history_well_formed (e : Engine) (actions : List Action) (h : LegalRun { eng := e } actions) :
    Inv (actions.foldl act { eng := e }) := by
  have key : ∀ (acts : List Action) (c : Client), Inv c → LegalRun c acts → Inv (acts.foldl act c) := by
    intro acts
    induction acts with
    | nil => intro c hc _; exact hc
    | cons a rest ih => intro c hc hl; exact ih _ (act_keeps_grammar c a hc hl.1) hl.2
  exact key actions _ (by simp [Inv, expected, phaseOf]) h

/-- consequence: the stream never contains a malformed step -/
theorem never_bad (e : Engine) (actions : List Action) (h : LegalRun { eng := e } actions) :
    phaseOf (actions.foldl act { eng := e }).events ≠ .bad := by
  have := (every_history_well_formed e actions h).1
  rw [this]
  simp only [expected]
  split <;> (try split) <;> simp

end GV.Props.C12
