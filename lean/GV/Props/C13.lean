/-
  Props/C13.lean — Both drivers move bytes faithfully and always deliver an operation's result.
  What is logic is proved here about Model/Driver.lean: the write loop's accounting, the websocket read
  adapter, the result slot.  Thread/task interleavings and the transports themselves are the
  environment; the real drivers are run against scripted transports by the C13 suites.
-/
import GV.Model.Driver
namespace GV.Props.C13
open GV

/-! ### write loop: exactly the engine's bytes, in order, without loss or duplication -/

/-- the accounting invariant: what the transport accepted, followed by what is still unsent in the
    buffer, is exactly what the engine produced -/
def WInv (w : WriteLoop) : Prop :=
  w.cursor ≤ w.buf.length ∧ w.wire ++ w.buf.drop w.cursor = w.produced

theorem winv_init : WInv {} := by simp [WInv]

theorem winv_step (w : WriteLoop) (ev : WEvent) (h : WInv w) : WInv (w.step ev) := by
  obtain ⟨hc, hw⟩ := h
  cases ev with
  | service batch =>
    simp only [WriteLoop.step, WInv]
    refine ⟨by simp; omega, ?_⟩
    rw [List.drop_append_of_le_length hc, ← List.append_assoc, hw]
  | stalled => exact ⟨hc, hw⟩
  | accepted n =>
    simp only [WriteLoop.step]
    have hsplit : w.wire ++ (w.buf.drop w.cursor).take (min n (w.buf.length - w.cursor))
        ++ w.buf.drop (w.cursor + min n (w.buf.length - w.cursor)) = w.produced := by
      rw [List.append_assoc, ← hw]
      congr 1
      rw [← List.drop_drop]
      exact List.take_append_drop _ _
    split
    · rename_i hfull
      refine ⟨by simp, ?_⟩
      have : w.buf.drop (w.cursor + min n (w.buf.length - w.cursor)) = [] := by
        rw [hfull.2]; simp
      simpa [this] using hsplit
    · exact ⟨by simp only []; omega, hsplit⟩

/-- for every sequence of services, accepted writes (of any size) and stalls -/
theorem winv_run (evs : List WEvent) (w : WriteLoop) (h : WInv w) : WInv (w.run evs) := by
  induction evs generalizing w with
  | nil => exact h
  | cons e es ih => exact ih _ (winv_step w e h)

/-- **No loss, duplication or reordering.**  After any history the bytes the transport has accepted are a
    prefix of the bytes the engine produced, the rest being exactly the unsent remainder the loop offers next. -/
theorem transport_gets_engine_bytes (evs : List WEvent) :
    let w := (({} : WriteLoop).run evs)
    w.wire ++ w.offered = w.produced := (winv_run evs {} winv_init).2

theorem wire_is_prefix (evs : List WEvent) :
    (({} : WriteLoop).run evs).wire <+: (({} : WriteLoop).run evs).produced :=
  ⟨_, transport_gets_engine_bytes evs⟩

/-- once nothing is left to offer, everything produced has been handed to the transport -/
theorem drained_means_all_sent (evs : List WEvent) (h : (({} : WriteLoop).run evs).offered = []) :
    (({} : WriteLoop).run evs).wire = (({} : WriteLoop).run evs).produced := by
  have := transport_gets_engine_bytes evs
  simp only [h, List.append_nil] at this
  exact this

/-- **Write completion only for a fully written batch.**  A step reports write completion exactly when it
    is an accepted write that empties a non-empty pending slice. -/
theorem completion_only_when_batch_written (w : WriteLoop) (ev : WEvent) (h : WInv w)
    (hc : (w.step ev).completions ≠ w.completions) :
    (w.step ev).completions = w.completions + 1 ∧ (w.step ev).offered = [] ∧ w.offered ≠ [] ∧
      ∃ n, ev = .accepted n ∧ w.offered.length ≤ n := by
  cases ev with
  | service batch => simp [WriteLoop.step] at hc
  | stalled => simp [WriteLoop.step] at hc
  | accepted n =>
    simp only [WriteLoop.step] at hc ⊢
    split
    · rename_i hfull
      refine ⟨rfl, by simp [WriteLoop.offered], ?_, n, rfl, ?_⟩
      · intro he
        have : w.buf.length - w.cursor = 0 := by simpa [WriteLoop.offered] using congrArg List.length he
        omega
      · simp only [WriteLoop.offered, List.length_drop]
        have := h.1
        omega
    · rename_i hnot
      simp [hnot] at hc

/-- non-vacuity: a batch written in three pieces with a stall in between, then a second batch -/
example : (({} : WriteLoop).run [.service [1, 2, 3, 4], .accepted 1, .stalled, .accepted 2, .accepted 9, .service [5], .accepted 1]) =
    { buf := [], cursor := 0, wire := [1, 2, 3, 4, 5], produced := [1, 2, 3, 4, 5], completions := 2 } := by decide

/-! ### websocket read adapter: the byte stream is the concatenation of the message payloads -/

def payloadOf : WsMsg → Bytes
  | .data p => p
  | _ => []

def payloads (ms : List WsMsg) : Bytes := (ms.map payloadOf).flatten

/-- what the adapter still owes the caller: the unread tail of the current message, then every arrived message -/
def residual (r : WsReader) (arrived : List WsMsg) : Bytes :=
  (match r.cur with | some (d, i) => d.drop i | none => []) ++ payloads arrived

def resultBytes : WsResult → Bytes
  | .ok b => b
  | _ => []

theorem cursorRead_spec (data : Bytes) (index space : Nat) :
    (cursorRead data index space).1 ++ data.drop (cursorRead data index space).2 = data.drop index ∧
    (cursorRead data index space).1.length ≤ space ∧
    ((cursorRead data index space).1.length < space → data.drop (cursorRead data index space).2 = []) := by
  simp only [cursorRead]
  refine ⟨?_, ?_, ?_⟩
  · rw [← List.drop_drop]; exact List.take_append_drop _ _
  · simp only [List.length_take, List.length_drop]; omega
  · intro h
    simp only [List.length_take, List.length_drop] at h
    apply List.drop_eq_nil_of_le
    omega

/-- one pass of the loop conserves bytes: what is returned plus what is still owed equals what was in the
    caller's buffer already plus what was owed before; and the result fits the buffer -/
theorem wsLoop_conserves : ∀ (fuel : Nat) (r : WsReader) (arrived : List WsMsg) (bufLen : Nat) (acc : Bytes),
    acc.length ≤ bufLen →
    let out := wsLoop fuel r arrived bufLen acc
    resultBytes out.2.2 ++ residual out.1 out.2.1 = acc ++ residual r arrived ∧
    (resultBytes out.2.2).length ≤ bufLen ∧
    ((out.2.2 = .wouldBlock ∨ out.2.2 = .err) → acc = [])
  | 0, r, arrived, bufLen, acc, hacc => by
    simp only [wsLoop]
    cases acc with
    | nil => simp [resultBytes]
    | cons a t => simp [resultBytes]; exact hacc
  | fuel + 1, r, arrived, bufLen, acc, hacc => by
    obtain ⟨cur, failed⟩ := r
    simp only [wsLoop]
    by_cases hfull : acc.length ≥ bufLen
    · simp only [hfull, ↓reduceIte, resultBytes]
      refine ⟨trivial, by omega, ?_⟩
      intro h; rcases h with h | h <;> cases h
    · simp only [hfull, ↓reduceIte]
      cases cur with
      | none =>
        simp only []
        cases failed with
        | true =>
          simp only [↓reduceIte]
          cases acc with
          | nil => simp [resultBytes, residual]
          | cons a t => simp [resultBytes]; exact hacc
        | false =>
          simp only [Bool.false_eq_true, ↓reduceIte]
          cases arrived with
          | nil =>
            simp only []
            cases acc with
            | nil => simp [resultBytes]
            | cons a t => simp [resultBytes]; exact hacc
          | cons m rest =>
            cases m with
            | control =>
              have ih := wsLoop_conserves fuel { cur := none, failed := false } rest bufLen acc hacc
              simp only [] at ih ⊢
              refine ⟨?_, ih.2.1, ih.2.2⟩
              rw [ih.1]; simp [residual, payloads, payloadOf]
            | data p =>
              have ih := wsLoop_conserves fuel { cur := some (p, 0), failed := false } rest bufLen acc hacc
              simp only [] at ih ⊢
              refine ⟨?_, ih.2.1, ih.2.2⟩
              rw [ih.1]; simp [residual, payloads, payloadOf]
            | fail =>
              have ih := wsLoop_conserves fuel { cur := none, failed := true } rest bufLen acc hacc
              simp only [] at ih ⊢
              refine ⟨?_, ih.2.1, ih.2.2⟩
              rw [ih.1]; simp [residual, payloads, payloadOf]
            | eof =>
              have ih := wsLoop_conserves fuel { cur := none, failed := true } (.eof :: rest) bufLen acc hacc
              simp only [] at ih ⊢
              refine ⟨?_, ih.2.1, ih.2.2⟩
              rw [ih.1]; simp [residual, payloads, payloadOf]
      | some c =>
        obtain ⟨data, index⟩ := c
        have hsp := cursorRead_spec data index (bufLen - acc.length)
        simp only []
        by_cases hlt : (acc ++ (cursorRead data index (bufLen - acc.length)).1).length < bufLen
        · simp only [hlt, ↓reduceIte]
          have hacc' : (acc ++ (cursorRead data index (bufLen - acc.length)).1).length ≤ bufLen := by omega
          have ih := wsLoop_conserves fuel { cur := none, failed := failed } arrived bufLen _ hacc'
          simp only [] at ih ⊢
          have hempty : data.drop (cursorRead data index (bufLen - acc.length)).2 = [] := by
            apply hsp.2.2
            simp only [List.length_append] at hlt
            omega
          refine ⟨?_, ih.2.1, ?_⟩
          · rw [ih.1]
            simp only [residual, List.nil_append, List.append_assoc]
            rw [← hsp.1, hempty]; simp
          · intro hwb
            have := ih.2.2 hwb
            simp only [List.append_eq_nil_iff] at this
            exact this.1
        · simp only [hlt, ↓reduceIte]
          have hacc' : (acc ++ (cursorRead data index (bufLen - acc.length)).1).length ≤ bufLen := by
            simp only [List.length_append]; have := hsp.2.1; omega
          have ih := wsLoop_conserves fuel { cur := some (data, (cursorRead data index (bufLen - acc.length)).2), failed := failed } arrived bufLen _ hacc'
          simp only [] at ih ⊢
          refine ⟨?_, ih.2.1, ?_⟩
          · rw [ih.1]
            simp only [residual, List.append_assoc]
            congr 1
            rw [← List.append_assoc, hsp.1]
          · intro hwb
            have := ih.2.2 hwb
            simp only [List.append_eq_nil_iff] at this
            exact this.1

/-- **One read.**  The bytes a read returns, followed by what the adapter still owes, are exactly what it
    owed before; the result fits the caller's buffer; would-block returns nothing (and loses nothing). -/
theorem ws_read_conserves (r : WsReader) (arrived : List WsMsg) (bufLen : Nat) :
    let out := r.read arrived bufLen
    resultBytes out.2.2 ++ residual out.1 out.2.1 = residual r arrived ∧ (resultBytes out.2.2).length ≤ bufLen := by
  have h := wsLoop_conserves (2 * arrived.length + 4) r arrived bufLen [] (Nat.zero_le _)
  simp only [List.nil_append] at h
  exact ⟨h.1, h.2.1⟩

/-- **A failure of the websocket loses nothing.**  The read that reports the failure hands over no bytes, and
    everything the adapter owed before it still owes afterwards: bytes of messages that arrived before the failure are
    delivered by the reads before the error is reported (they are never dropped in favour of the error). -/
theorem ws_error_loses_nothing (r : WsReader) (arrived : List WsMsg) (bufLen : Nat)
    (h : (r.read arrived bufLen).2.2 = .err) :
    residual (r.read arrived bufLen).1 (r.read arrived bufLen).2.1 = residual r arrived := by
  have hc := ws_read_conserves r arrived bufLen
  simp only [] at hc
  rw [h] at hc
  simpa [resultBytes] using hc.1

/-- non-vacuity: data and the end of the stream become readable together: the data is handed over first, the error next -/
example : ((({} : WsReader).read [.data [1, 2, 3], .eof] 4096).2.2, ((({} : WsReader).read [.data [1, 2, 3], .eof] 4096).1.read
    (({} : WsReader).read [.data [1, 2, 3], .eof] 4096).2.1 4096).2.2) = (.ok [1, 2, 3], .err) := by decide

/-- a session: before each read some more messages arrive -/
def wsSession : WsReader → List WsMsg → List (List WsMsg × Nat) → Bytes → Bytes × WsReader × List WsMsg
  | r, pending, [], got => (got, r, pending)
  | r, pending, (more, bufLen) :: rest, got =>
    let out := r.read (pending ++ more) bufLen
    wsSession out.1 out.2.1 rest (got ++ resultBytes out.2.2)

theorem payloads_append (a b : List WsMsg) : payloads (a ++ b) = payloads a ++ payloads b := by
  simp [payloads]

theorem residual_append (r : WsReader) (a b : List WsMsg) : residual r (a ++ b) = residual r a ++ payloads b := by
  simp [residual, payloads_append]

/-- **The byte stream is the concatenation of the message payloads**, for messages of any size and any
    arrival pattern, read with buffers of any sizes: everything handed to the engine so far, followed by what
    the adapter still holds, equals the concatenation of all payloads that have arrived. -/
theorem ws_stream_is_concatenation : ∀ (calls : List (List WsMsg × Nat)) (r : WsReader) (pending : List WsMsg) (got : Bytes),
    let out := wsSession r pending calls got
    out.1 ++ residual out.2.1 out.2.2 = got ++ residual r pending ++ payloads (calls.map (·.1)).flatten
  | [], r, pending, got => by simp [wsSession, payloads]
  | (more, bufLen) :: rest, r, pending, got => by
    have h1 := ws_read_conserves r (pending ++ more) bufLen
    have ih := ws_stream_is_concatenation rest (r.read (pending ++ more) bufLen).1 (r.read (pending ++ more) bufLen).2.1
      (got ++ resultBytes (r.read (pending ++ more) bufLen).2.2)
    simp only [wsSession] at ih ⊢
    rw [ih, List.append_assoc got, h1.1, residual_append]
    simp [payloads_append, List.append_assoc]

/-- non-vacuity: a 5-byte message read with a 3-byte buffer, then two messages arriving together -/
example : (wsSession {} [] [([.data [1, 2, 3, 4, 5]], 3), ([], 3), ([.data [6, 7], .control, .data [8]], 4096)] []).1 =
    [1, 2, 3, 4, 5, 6, 7, 8] := by decide

/-! ### websocket write adapter: the server decodes exactly the bytes reported as written, once, in order -/

/-- the payloads the adapter is answerable for, oldest first: those the socket has taken completely (what a server
    decodes) followed by those still queued inside the websocket layer -/
def owedMsgs (w : WsWriter) : List Bytes := w.delivered ++ w.queued.map (·.2)

/-- every queued frame still has bytes to send -/
def QueuedPositive (q : List (Nat × Bytes)) : Prop := ∀ x ∈ q, 0 < x.1

theorem takeBytes_conserves (q : List (Nat × Bytes)) (k : Nat) :
    (takeBytes q k).2 ++ (takeBytes q k).1.map (·.2) = q.map (·.2) := by
  induction q generalizing k with
  | nil => rfl
  | cons x rest ih =>
    obtain ⟨r, p⟩ := x
    simp only [takeBytes]
    split
    · simp only [List.map_cons, List.cons_append]
      rw [ih]
    · rfl

theorem takeBytes_positive (q : List (Nat × Bytes)) (k : Nat) (h : QueuedPositive q) : QueuedPositive (takeBytes q k).1 := by
  induction q generalizing k with
  | nil => intro x hx; cases hx
  | cons x rest ih =>
    obtain ⟨r, p⟩ := x
    simp only [takeBytes]
    split
    · exact ih _ (fun y hy => h y (List.mem_cons_of_mem _ hy))
    · rename_i hlt
      intro y hy
      rcases List.mem_cons.mp hy with rfl | hy
      · show 0 < r - k; omega
      · exact h y (List.mem_cons_of_mem _ hy)

theorem queuedBytes_cons (x : Nat × Bytes) (q : List (Nat × Bytes)) : queuedBytes (x :: q) = x.1 + queuedBytes q := by
  unfold queuedBytes
  simp only [List.map_cons, List.foldl_cons, Nat.zero_add]
  have : ∀ (l : List Nat) (a : Nat), l.foldl (· + ·) a = a + l.foldl (· + ·) 0 := by
    intro l
    induction l with
    | nil => intro a; simp
    | cons y ys ih => intro a; simp only [List.foldl_cons, Nat.zero_add]; rw [ih (a + y), ih y]; omega
  exact this _ _

/-- taking everything that is queued leaves nothing queued -/
theorem takeBytes_all (q : List (Nat × Bytes)) (k : Nat) (hk : queuedBytes q ≤ k) : (takeBytes q k).1 = [] := by
  induction q generalizing k with
  | nil => rfl
  | cons x rest ih =>
    obtain ⟨r, p⟩ := x
    rw [queuedBytes_cons] at hk
    simp only [takeBytes]
    have : k ≥ r := by simp only at hk; omega
    simp only [this, ↓reduceIte]
    exact ih _ (by simp only at hk; omega)

theorem queuedBytes_zero (q : List (Nat × Bytes)) (hp : QueuedPositive q) (h : queuedBytes q = 0) : q = [] := by
  cases q with
  | nil => rfl
  | cons x rest =>
    rw [queuedBytes_cons] at h
    have := hp x (List.mem_cons_self ..)
    omega

/-- **The flush loop neither loses nor duplicates a message** whatever the socket does, and when it reports success
    nothing is left queued. -/
theorem wsFlushLoop_conserves : ∀ (fuel : Nat) (w : WsWriter) (plan : List SockStep), QueuedPositive w.queued →
    owedMsgs (wsFlushLoop fuel w plan).1 = owedMsgs w ∧ QueuedPositive (wsFlushLoop fuel w plan).1.queued ∧
    ((wsFlushLoop fuel w plan).2.2 = .ok → (wsFlushLoop fuel w plan).1.queued = [])
  | 0, w, plan, hp => ⟨rfl, hp, by intro h; cases h⟩
  | fuel + 1, w, plan, hp => by
    unfold wsFlushLoop
    split
    · rename_i hz
      exact ⟨rfl, hp, fun _ => queuedBytes_zero _ hp hz⟩
    · cases plan with
      | nil =>
        simp only []
        refine ⟨?_, takeBytes_positive _ _ hp, fun _ => takeBytes_all _ _ (Nat.le_refl _)⟩
        simp only [owedMsgs, List.append_assoc]
        rw [takeBytes_conserves]
      | cons st rest =>
        cases st with
        | accept n =>
          simp only []
          have hp' := takeBytes_positive w.queued (min (max n 1) (queuedBytes w.queued)) hp
          obtain ⟨h1, h2, h3⟩ := wsFlushLoop_conserves fuel
            { queued := (takeBytes w.queued (min (max n 1) (queuedBytes w.queued))).1,
              delivered := w.delivered ++ (takeBytes w.queued (min (max n 1) (queuedBytes w.queued))).2 } rest hp'
          refine ⟨?_, h2, h3⟩
          rw [h1]
          simp only [owedMsgs, List.append_assoc]
          rw [takeBytes_conserves]
        | block => exact ⟨rfl, hp, by intro h; cases h⟩
        | interrupt => exact ⟨rfl, hp, by intro h; cases h⟩
        | fail => exact ⟨rfl, hp, by intro h; cases h⟩

/-- **`write` consumes the whole buffer exactly once**: unless the socket fails, the caller is told `buf.length` and the
    buffer joins the owed messages as one message at the end - also when the socket would block half way through the frame
    (the bytes are queued, not to be offered again). -/
theorem ws_write_consumes_once (w : WsWriter) (buf : Bytes) (plan : List SockStep) (hp : QueuedPositive w.queued) :
    owedMsgs (w.write buf plan).1 = owedMsgs w ++ [buf] ∧ QueuedPositive (w.write buf plan).1.queued ∧
    ((w.write buf plan).2.2.1 ≠ .err → (w.write buf plan).2.2.1 = .ok ∧ (w.write buf plan).2.2.2 = buf.length) := by
  have hp1 : QueuedPositive (w.queued ++ [(wsClientFrameLen buf.length, buf)]) := by
    intro x hx
    rcases List.mem_append.mp hx with hx | hx
    · exact hp x hx
    · simp only [List.mem_singleton] at hx
      subst hx
      simp only [wsClientFrameLen]
      omega
  obtain ⟨h1, h2, _⟩ := wsFlushLoop_conserves (plan.length + 2) { w with queued := w.queued ++ [(wsClientFrameLen buf.length, buf)] } plan hp1
  have hw : owedMsgs { w with queued := w.queued ++ [(wsClientFrameLen buf.length, buf)] } = owedMsgs w ++ [buf] := by
    simp [owedMsgs]
  unfold WsWriter.write
  simp only []
  generalize wsFlushLoop (plan.length + 2) { w with queued := w.queued ++ [(wsClientFrameLen buf.length, buf)] } plan = res at h1 h2
  obtain ⟨w2, plan', r⟩ := res
  cases r <;> simp_all

/-- the connected loop's calls on the stream, with the bytes reported as written so far -/
def wsWriteSession : WsWriter → List SockStep → List WsCall → Bytes → WsWriter × List SockStep × Bytes × Option WResult
  | w, plan, [], written => (w, plan, written, none)
  | w, plan, .write buf :: rest, written =>
    (match w.write buf plan with
     | (w', plan', .err, _) => (w', plan', written, some .err)
     | (w', plan', _, n) => wsWriteSession w' plan' rest (written ++ buf.take n))
  | w, plan, .flush :: rest, written =>
    (match w.flush plan with
     | (w', plan', .err) => (w', plan', written, some .err)
     | (w', plan', r) => if rest.isEmpty then (w', plan', written, some r) else wsWriteSession w' plan' rest written)

/-- **Whatever the socket does, and however the driver interleaves writes and flushes: the messages a server decodes
    followed by the messages still queued are exactly the buffers reported as written, in order, each once** - until the
    socket fails, when the connection is given up and at most the message of the failing call (never reported as written)
    is queued in addition. -/
theorem ws_session_conserves : ∀ (calls : List WsCall) (w : WsWriter) (plan : List SockStep) (written : Bytes),
    QueuedPositive w.queued → (owedMsgs w).flatten = written →
    (∃ extra, (owedMsgs (wsWriteSession w plan calls written).1).flatten = (wsWriteSession w plan calls written).2.2.1 ++ extra ∧
      ((wsWriteSession w plan calls written).2.2.2 ≠ some .err → extra = [])) ∧
    QueuedPositive (wsWriteSession w plan calls written).1.queued
  | [], w, plan, written, hp, h => ⟨⟨[], by simpa [wsWriteSession] using h, fun _ => rfl⟩, hp⟩
  | .write buf :: rest, w, plan, written, hp, h => by
    obtain ⟨h1, h2, h3⟩ := ws_write_consumes_once w buf plan hp
    unfold wsWriteSession
    generalize w.write buf plan = res at h1 h2 h3
    obtain ⟨w', plan', r, n⟩ := res
    cases r with
    | err =>
      simp only []
      refine ⟨⟨buf, ?_, fun hne => absurd rfl hne⟩, h2⟩
      rw [h1, List.flatten_append, h]
      simp
    | ok =>
      simp only []
      have := h3 (by simp)
      simp only at this
      refine ws_session_conserves rest w' plan' _ h2 ?_
      rw [h1, List.flatten_append, h, this.2]
      simp
    | wouldBlock =>
      have := h3 (by simp)
      simp at this
  | .flush :: rest, w, plan, written, hp, h => by
    obtain ⟨h1, h2, _⟩ := wsFlushLoop_conserves (plan.length + 2) w plan hp
    unfold wsWriteSession WsWriter.flush
    generalize wsFlushLoop (plan.length + 2) w plan = res at h1 h2
    obtain ⟨w', plan', r⟩ := res
    cases r with
    | err => exact ⟨⟨[], by simp only []; rw [h1]; simpa using h, fun _ => rfl⟩, h2⟩
    | ok =>
      simp only []
      split
      · exact ⟨⟨[], by rw [h1]; simpa using h, fun _ => rfl⟩, h2⟩
      · exact ws_session_conserves rest w' plan' written h2 (by rw [h1]; exact h)
    | wouldBlock =>
      simp only []
      split
      · exact ⟨⟨[], by rw [h1]; simpa using h, fun _ => rfl⟩, h2⟩
      · exact ws_session_conserves rest w' plan' written h2 (by rw [h1]; exact h)

/-- **After a flush that succeeds the server has decoded everything that was reported as written**: nothing stays behind
    in the websocket layer. -/
theorem ws_flush_ok_delivers_all (w : WsWriter) (plan : List SockStep) (written : Bytes) (hp : QueuedPositive w.queued)
    (h : (owedMsgs w).flatten = written) (hok : (w.flush plan).2.2 = .ok) : (w.flush plan).1.delivered.flatten = written := by
  obtain ⟨h1, _, h3⟩ := wsFlushLoop_conserves (plan.length + 2) w plan hp
  unfold WsWriter.flush at hok ⊢
  have hq := h3 hok
  rw [← h, ← h1]
  simp [owedMsgs, hq]

/-- non-vacuity: the socket takes 5 bytes of the 14-byte frame and then would block; the driver flushes later: one
    message, the eight bytes once -/
example : (wsWriteSession {} [.accept 5, .block] [.write [1, 2, 3, 4, 5, 6, 7, 8], .flush] []).1.delivered = [[1, 2, 3, 4, 5, 6, 7, 8]] ∧
    (wsWriteSession {} [.accept 5, .block] [.write [1, 2, 3, 4, 5, 6, 7, 8], .flush] []).2.2 = ([1, 2, 3, 4, 5, 6, 7, 8], some .ok) := by
  decide

/-! ### result slot: exactly one result -/

def isTerminal : SlotEvent → Bool
  | _ => true

theorem slot_at_most_one (evs : List SlotEvent) (s : ResultSlot) (h : s.delivered.length ≤ 1 ∧ (s.armed = true → s.delivered = [])) :
    (evs.foldl ResultSlot.step s).delivered.length ≤ 1 ∧
      ((evs.foldl ResultSlot.step s).armed = true → (evs.foldl ResultSlot.step s).delivered = []) := by
  induction evs generalizing s with
  | nil => exact h
  | cons e es ih =>
    apply ih
    cases e <;> simp only [ResultSlot.step] <;> split <;> simp_all

/-- **Exactly one result.**  However the operation's life goes — handled by the engine (possibly more than
    once by mistake), rejected at submission, or dropped unhandled when the loop ends — the caller receives
    exactly one result as soon as any of these has happened, and never a second one. -/
theorem exactly_one_result (e : SlotEvent) (evs : List SlotEvent) :
    ((e :: evs).foldl ResultSlot.step {}).delivered.length = 1 := by
  have h1 : (ResultSlot.step {} e).delivered.length = 1 ∧ (ResultSlot.step {} e).armed = false := by
    cases e <;> simp [ResultSlot.step]
  have h2 := slot_at_most_one evs (ResultSlot.step {} e) ⟨by omega, by simp [h1.2]⟩
  -- delivered only grows
  have mono : ∀ (evs : List SlotEvent) (s : ResultSlot), s.delivered.length ≤ (evs.foldl ResultSlot.step s).delivered.length := by
    intro evs
    induction evs with
    | nil => intro s; exact Nat.le_refl _
    | cons x xs ih =>
      intro s
      refine Nat.le_trans ?_ (ih _)
      cases x <;> simp only [ResultSlot.step] <;> split <;> simp
  have := mono evs (ResultSlot.step {} e)
  simp only [List.foldl_cons]
  omega

end GV.Props.C13
