import GV.Model.Driver
namespace GV.Props.C13
end GV.Props.C13
