/-
  Props/C14.lean — Keep-alive: pings in time, dead peers detected, live peers never timed out.
  About Model/Engine.lean: `service_keep_alive`, `handle_pingresp`, the CONNACK-time schedule in
  `handle_connack`, `apply_ping_extension_on_operation_success` (protocol.rs).  Times are milliseconds.
-/
import GV.Proofs.EngineBasics
import GV.Proofs.EngineWrite
namespace GV.Props.C14
open GV

/-- **A due ping is sent**: a PINGREQ goes to the very front of the high-priority queue (unless one is still waiting there
    behind the operation being written - it is not doubled up) and the next ping is scheduled K seconds from now.  The answer
    deadline is not armed yet: the server has `min(ping timeout, K/2)` from the *transmission* of the PINGREQ. -/
theorem due_ping_is_sent (e : Engine) (np : Nat) (s : Settings) (hp : e.pingDeadline = none) (hn : e.nextPing = some np)
    (hdue : e.now ≥ np) (hs : e.settings = some s) (hk : s.serverKeepAlive > 0) (hnq : e.pingQueued = false) :
    let e' := e.serviceKeepAlive.1
    e.serviceKeepAlive.2 = .ok ∧ e'.highQ = e.nextOpId :: e.highQ ∧ (e'.op? e.nextOpId).map (·.packet) = some .pingreq ∧
    e'.pingDeadline = none ∧ e'.nextPing = some (e.now + s.serverKeepAlive * 1000) := by
  simp [Engine.serviceKeepAlive, Engine.queuePing, hp, hn, hdue, hnq, Engine.createOp, Engine.enqueue, Engine.op?, lookup_mapInsert_self, hs, hk]

/-- a PINGREQ that is still queued (or half written) when the next one falls due is not doubled up; the schedule moves on -/
theorem queued_ping_is_not_doubled (e : Engine) (np : Nat) (s : Settings) (hp : e.pingDeadline = none) (hn : e.nextPing = some np)
    (hdue : e.now ≥ np) (hs : e.settings = some s) (hk : s.serverKeepAlive > 0) (hq : e.pingQueued = true) :
    e.serviceKeepAlive = ({ e with nextPing := some (e.now + s.serverKeepAlive * 1000) }, .ok) := by
  simp [Engine.serviceKeepAlive, Engine.queuePing, hp, hn, hdue, hq, hs, hk]

/-- **The PINGRESP deadline is armed when the PINGREQ has been completely written**: `min(ping timeout, K/2)` from that
    moment - a PINGREQ that had to wait behind a large operation does not use up the server's time to answer - and the next
    ping is due K seconds after that moment, so never before the deadline (the engine does not ask for service it has no use
    for while the PINGRESP is awaited). -/
theorem ping_deadline_runs_from_transmission (e : Engine) (id : Nat) (o : Op) (s : Settings)
    (hc : e.current = some id) (ho : e.op? id = some o) (hp : o.packet = .pingreq) (hs : e.settings = some s) :
    ∃ e', e.onFullyWritten = some e' ∧ e'.pingDeadline = some (e.now + min e.cfg.pingTimeout (s.serverKeepAlive * 500)) ∧
      (s.serverKeepAlive > 0 → e'.nextPing = some (e.now + s.serverKeepAlive * 1000)) ∧
      id ∈ e'.pendingWC := by
  have hset : ((((e.fileWritten id o).setOp { o with pingBase := some e.now }).startAckTimeout id).settings) = some s := by
    unfold Engine.startAckTimeout
    split <;> simp [Engine.setOp, Engine.fileWritten, hp, hs]
  have hnow : ((((e.fileWritten id o).setOp { o with pingBase := some e.now }).startAckTimeout id).now) = e.now := by
    unfold Engine.startAckTimeout
    split <;> simp [Engine.setOp, Engine.fileWritten, hp]
  have hcfg : ((((e.fileWritten id o).setOp { o with pingBase := some e.now }).startAckTimeout id).cfg) = e.cfg := by
    unfold Engine.startAckTimeout
    split <;> simp [Engine.setOp, Engine.fileWritten, hp]
  have hwc : id ∈ ((((e.fileWritten id o).setOp { o with pingBase := some e.now }).startAckTimeout id).pendingWC) := by
    unfold Engine.startAckTimeout
    split <;> simp [Engine.setOp, Engine.fileWritten, hp]
  simp only [Engine.onFullyWritten, hc, ho]
  generalize ((e.fileWritten id o).setOp { o with pingBase := some e.now }).startAckTimeout id = e3 at hset hnow hcfg hwc ⊢
  have harm : e3.armPingDeadline o = { e3 with pingDeadline := some (e3.now + min e3.cfg.pingTimeout (s.serverKeepAlive * 500)), nextPing := if s.serverKeepAlive > 0 then some (e3.now + s.serverKeepAlive * 1000) else e3.nextPing } := by
    unfold Engine.armPingDeadline
    rw [hp, hset]
  refine ⟨_, rfl, ?_, ?_, ?_⟩
  · rw [harm, hnow, hcfg]
  · intro hk; rw [harm]; simp only [hk, ↓reduceIte, hnow]
  · rw [harm]; exact hwc

/-- nothing but a PINGREQ arms the deadline -/
theorem only_a_ping_arms_the_deadline (e : Engine) (o : Op) (h : o.packet ≠ .pingreq) : e.armPingDeadline o = e := by
  unfold Engine.armPingDeadline
  split
  · rename_i hp _; exact absurd hp h
  · rfl

/-- no ping before it is due, none while one is outstanding -/
theorem no_early_ping (e : Engine) (np : Nat) (hp : e.pingDeadline = none) (hn : e.nextPing = some np) (h : e.now < np) :
    e.serviceKeepAlive = (e, .ok) := by
  have : ¬ (e.now ≥ np) := by omega
  simp [Engine.serviceKeepAlive, hp, hn, this]

/-- **A PINGREQ not answered by its deadline fails the connection exactly at that deadline** — not before. -/
theorem unanswered_ping_fails_at_deadline (e : Engine) (d : Nat) (hp : e.pingDeadline = some d) :
    e.serviceKeepAlive = (e, if e.now ≥ d then .err "ConnectionClosed" else .ok) := by
  simp only [Engine.serviceKeepAlive, hp]
  split <;> rfl

/-- **A PINGRESP clears the deadline**, so a server that answers before the deadline is never timed out. -/
theorem pingresp_clears_deadline (e : Engine) (d : Nat) (hs : e.state = .connected) (hp : e.pingDeadline = some d) :
    e.handlePingresp = ({ e with pingDeadline := none }, .ok) := by
  simp [Engine.handlePingresp, hs, hp]

theorem answered_ping_never_times_out (e : Engine) (d : Nat) (hs : e.state = .connected) (hp : e.pingDeadline = some d) :
    (e.handlePingresp.1.serviceKeepAlive).2 = .ok ∨ e.handlePingresp.1.nextPing.isSome = true := by
  rw [pingresp_clears_deadline e d hs hp]
  simp only [Engine.serviceKeepAlive]
  cases hn : e.nextPing with
  | none => left; rfl
  | some np => right; rfl

/-- an unsolicited PINGRESP is a protocol error -/
theorem unsolicited_pingresp (e : Engine) (hp : e.pingDeadline = none) : e.handlePingresp.2 = .err "ProtocolError" := by
  simp only [Engine.handlePingresp, hp]
  split <;> simp

/-- **CONNACK schedules the first ping K seconds ahead, with the server's keep-alive overriding the
    client's; with K = 0 no ping is ever scheduled.** -/
theorem connack_schedules_first_ping (e : Engine) (c : Connack) :
    let s := e.buildSettings c
    s.serverKeepAlive = c.serverKeepAlive.getD (e.cfg.connect.keepAlive.getD 0) := by
  simp [Engine.buildSettings]

theorem keep_alive_zero_never_pings (e : Engine) (hp : e.pingDeadline = none) (hn : e.nextPing = none) :
    e.serviceKeepAlive = (e, .ok) := by
  simp [Engine.serviceKeepAlive, hp, hn]

/-- **Traffic pushes the next ping out, never pulls it in**: a completed acknowledged operation moves the next
    ping to K seconds after that operation's packet was written, if that is later than what was scheduled. -/
theorem ping_extension_only_later (e : Engine) (o : Op) (np : Nat) (hn : e.nextPing = some np) :
    ∃ np', (e.applyPingExtension o).nextPing = some np' ∧ np' ≥ np := by
  simp only [Engine.applyPingExtension]
  split
  · rename_i b s hb hs
    simp only [hn]
    split
    · exact ⟨_, rfl, by omega⟩
    · exact ⟨np, hn, Nat.le_refl _⟩
  · exact ⟨np, hn, Nat.le_refl _⟩

theorem ping_extension_bounded (e : Engine) (o : Op) (b : Nat) (s : Settings) (np : Nat) (hn : e.nextPing = some np)
    (hs : e.settings = some s) (hb : o.pingBase = some b) :
    ∀ np', (e.applyPingExtension o).nextPing = some np' → np' ≤ max np (b + s.serverKeepAlive * 1000) := by
  intro np' h
  simp only [Engine.applyPingExtension, hs, hn] at h
  split at h
  · rename_i b' s' hb' hs'
    simp only [Option.some.injEq] at hs'
    subst hs'
    have hbb : b' = b := by
      cases hp : o.packet <;> simp [hp, hb] at hb' <;> first | exact hb'.symm | exact hb'.2.symm
    subst hbb
    split at h
    · simp at h; omega
    · rw [hn] at h
      have : np' = np := by injection h with h; exact h.symm
      omega
  · rw [hn] at h
    have : np' = np := by injection h with h; exact h.symm
    omega

/-! ### every history -/

/-- **The keep-alive clock never stops.**  After any sequence of events whatsoever: while the engine is Connected with a
    negotiated keep alive of K > 0 seconds (the server's value, or the client's when the CONNACK carries none), a time for the
    next PINGREQ is set - the CONNACK sets it, every PINGREQ written re-arms it, acknowledged traffic only moves it, and
    nothing clears it while the connection lasts.  (`Props/C08.connected_time_covers_all_work`: the reported next service time
    is never later than it; `due_ping_is_sent`: the service call at that time queues the PINGREQ.) -/
theorem next_ping_always_scheduled (cfg : Config) (evs : List Event) (s : Settings)
    (hst : (runEvents (Engine.new cfg) evs).1.state = .connected) (hs : (runEvents (Engine.new cfg) evs).1.settings = some s)
    (hk : s.serverKeepAlive > 0) : (runEvents (Engine.new cfg) evs).1.nextPing.isSome = true :=
  ka_after cfg evs hst s hs hk

/-- ... and negotiated settings are there whenever the engine is Connected -/
theorem connected_has_settings (cfg : Config) (evs : List Event) (hst : (runEvents (Engine.new cfg) evs).1.state = .connected) :
    (runEvents (Engine.new cfg) evs).1.settings.isSome = true :=
  settings_of_connected _ (inv_after cfg evs).2.1 hst

/-- non-vacuity: connected with keep alive 10 s, the next ping is due 10 s after the CONNACK -/
example :
    let e := (runEvents (Engine.new { connect := { keepAlive := some 10 } }) [.opened 0 100, .service 0 64 0, .writeDone 0, .data 5 [32, 3, 0, 0, 0]]).1
    (e.state == .connected && e.nextPing == some 10005) = true := by decide

end GV.Props.C14
