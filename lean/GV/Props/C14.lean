import GV.Model.Engine
namespace GV.Props.C14
end GV.Props.C14
