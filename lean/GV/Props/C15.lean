import GV.Model.Engine
namespace GV.Props.C15
end GV.Props.C15
