/-
  Props/C15.lean — Offline-queue policy decides per operation kind what survives being offline.
  About Model/Engine.lean: `does_packet_pass_offline_queue_policy`, `handle_user_event`,
  `partition_operation_queue_by_queue_policy` (protocol.rs).
-/
import GV.Proofs.EngineBasics
import GV.Proofs.EngineClose
namespace GV.Props.C15
open GV

/-- the policy table of the documentation, as a specification -/
def specKeeps (policy : OfflinePolicy) (p : Packet) : Bool :=
  match policy, p with
  | .preserveAll, .publish _ | .preserveAll, .subscribe _ | .preserveAll, .unsubscribe _ => true
  | .preserveAcknowledged, .subscribe _ | .preserveAcknowledged, .unsubscribe _ => true
  | .preserveAcknowledged, .publish pb => pb.qos != 0
  | .preserveQos1Plus, .publish pb => pb.qos != 0
  | _, _ => false

/-- **The decision is exactly the documented table**, for every policy and every packet. -/
theorem policy_is_the_table (policy : OfflinePolicy) (p : Packet) : passesPolicy p policy = specKeeps policy p := by
  cases policy <;> cases p <;> simp [passesPolicy, specKeeps]

/-- while connected nothing is failed for lack of a connection -/
theorem connected_accepts_everything (e : Engine) (p : Packet) (h : e.state = .connected) : e.opPassesPolicy p = true := by
  simp [Engine.opPassesPolicy, h]

theorem createOp_lookup (e : Engine) (p : Packet) (u : Option (Nat × Option Nat)) :
    (e.createOp p u).1.op? (e.createOp p u).2 = some { id := e.nextOpId, packet := p, user := u } := by
  simp [Engine.createOp, Engine.op?, lookup_mapInsert_self]

def userPacket : UserEvent → Packet
  | .publish p _ _ => .publish p
  | .subscribe p _ _ => .subscribe p
  | .unsubscribe p _ _ => .unsubscribe p
  | .disconnect p => .disconnect p

def userIndex : UserEvent → Option Nat
  | .publish _ i _ | .subscribe _ i _ | .unsubscribe _ i _ => some i
  | .disconnect _ => none

/-- **Submission while offline, kind rejected by the policy**: the operation is failed at once with the
    offline-policy error, and it is neither queued nor tracked (so it can never be sent later). -/
theorem offline_rejected_fails_at_submission (e : Engine) (ev : UserEvent) (idx : Nat)
    (hoff : e.state ≠ .connected) (hidx : userIndex ev = some idx)
    (hrej : passesPolicy (userPacket ev) e.cfg.policy = false) :
    let e' := (e.handleUser ev).1
    e'.outComps = e.outComps ++ [(idx, .err "OfflineQueuePolicyFailed")] ∧
    e'.userQ = e.userQ ∧ e'.highQ = e.highQ ∧ e'.resubQ = e.resubQ ∧ e'.op? e.nextOpId = none := by
  have hst : (e.state == .connected) = false := by
    cases hs : e.state <;> simp_all
  cases ev with
  | disconnect d => simp [userIndex] at hidx
  | publish p i t =>
    simp only [userIndex, Option.some.injEq] at hidx; subst hidx
    simp only [userPacket] at hrej
    simp [Engine.handleUser, Engine.submit, Engine.opPassesPolicy, Engine.createOp, hst, hrej, Engine.completeFailure, Engine.op?,
      lookup_mapInsert_self, Engine.releaseIds, Engine.applyAckable, Engine.applyDisconnectCompletion, isDisconnect, Engine.emit,
      lookup_mapErase_self, Res.isOk]
    try (split <;> simp [lookup_mapErase_self])
  | subscribe p i t =>
    simp only [userIndex, Option.some.injEq] at hidx; subst hidx
    simp only [userPacket] at hrej
    simp [Engine.handleUser, Engine.submit, Engine.opPassesPolicy, Engine.createOp, hst, hrej, Engine.completeFailure, Engine.op?,
      lookup_mapInsert_self, Engine.releaseIds, Engine.applyAckable, Engine.applyDisconnectCompletion, isDisconnect, Engine.emit,
      lookup_mapErase_self, Res.isOk]
    try (split <;> simp [lookup_mapErase_self])
  | unsubscribe p i t =>
    simp only [userIndex, Option.some.injEq] at hidx; subst hidx
    simp only [userPacket] at hrej
    simp [Engine.handleUser, Engine.submit, Engine.opPassesPolicy, Engine.createOp, hst, hrej, Engine.completeFailure, Engine.op?,
      lookup_mapInsert_self, Engine.releaseIds, Engine.applyAckable, Engine.applyDisconnectCompletion, isDisconnect, Engine.emit,
      lookup_mapErase_self, Res.isOk]
    try (split <;> simp [lookup_mapErase_self])

/-- **Submission of a kind the policy preserves (or any kind while connected)**: nothing is failed; the
    operation joins the back of the user queue and stays tracked. -/
theorem preserved_is_queued (e : Engine) (ev : UserEvent) (idx : Nat) (hidx : userIndex ev = some idx)
    (hkeep : e.opPassesPolicy (userPacket ev) = true) :
    let e' := (e.handleUser ev).1
    e'.outComps = e.outComps ∧ e'.userQ = e.userQ ++ [e.nextOpId] ∧ (e'.op? e.nextOpId).isSome = true ∧ (e.handleUser ev).2 = .ok := by
  cases ev with
  | disconnect d => simp [userIndex] at hidx
  | publish p i t =>
    simp only [userPacket] at hkeep
    have : (e.createOp (.publish p) (some (i, t))).1.opPassesPolicy (.publish p) = true := by
      simpa [Engine.createOp, Engine.opPassesPolicy] using hkeep
    simp [Engine.handleUser, Engine.submit, this, Engine.enqueue, createOp_lookup]
    simp [Engine.createOp, Engine.op?, lookup_mapInsert_self]
  | subscribe p i t =>
    simp only [userPacket] at hkeep
    have : (e.createOp (.subscribe p) (some (i, t))).1.opPassesPolicy (.subscribe p) = true := by
      simpa [Engine.createOp, Engine.opPassesPolicy] using hkeep
    simp [Engine.handleUser, Engine.submit, this, Engine.enqueue, createOp_lookup]
    simp [Engine.createOp, Engine.op?, lookup_mapInsert_self]
  | unsubscribe p i t =>
    simp only [userPacket] at hkeep
    have : (e.createOp (.unsubscribe p) (some (i, t))).1.opPassesPolicy (.unsubscribe p) = true := by
      simpa [Engine.createOp, Engine.opPassesPolicy] using hkeep
    simp [Engine.handleUser, Engine.submit, this, Engine.enqueue, createOp_lookup]
    simp [Engine.createOp, Engine.op?, lookup_mapInsert_self]

/-- **At disconnection the queues are split by the same table**: every retained id passes the policy, every
    rejected id does not, and ids are neither invented nor duplicated. -/
theorem partition_respects_policy (e : Engine) (q : List Nat) :
    (∀ id ∈ (e.partitionByPolicy q).1, ∃ o, e.op? id = some o ∧ passesPolicy o.packet e.cfg.policy = true) ∧
    (∀ id ∈ (e.partitionByPolicy q).2, ∃ o, e.op? id = some o ∧ passesPolicy o.packet e.cfg.policy = false) := by
  simp only [Engine.partitionByPolicy]
  constructor
  · intro id hid
    simp only [List.mem_map, List.mem_filter, List.mem_filterMap] at hid
    obtain ⟨⟨id', pk⟩, ⟨⟨x, _, hx⟩, hp⟩, rfl⟩ := hid
    cases ho : e.op? x with
    | none => simp [ho] at hx
    | some o =>
      simp only [ho, Option.map_some, Option.some.injEq, Prod.mk.injEq] at hx
      obtain ⟨rfl, rfl⟩ := hx
      exact ⟨o, ho, hp⟩
  · intro id hid
    simp only [List.mem_map, List.mem_filter, List.mem_filterMap] at hid
    obtain ⟨⟨id', pk⟩, ⟨⟨x, _, hx⟩, hp⟩, rfl⟩ := hid
    cases ho : e.op? x with
    | none => simp [ho] at hx
    | some o =>
      simp only [ho, Option.map_some, Option.some.injEq, Prod.mk.injEq] at hx
      obtain ⟨rfl, rfl⟩ := hx
      exact ⟨o, ho, by simpa using hp⟩

/-- non-vacuity: offline with policy PreserveQos1Plus a subscribe is rejected and a QoS 1 publish kept -/
example : passesPolicy (.subscribe {}) .preserveQos1Plus = false ∧ passesPolicy (.publish { qos := 1 }) .preserveQos1Plus = true := by decide

/-! ### every history -/

/-- **While offline, the user queue holds only what the policy keeps.**  After any history that leaves the engine without
    an MQTT connection (Disconnected, or waiting for the CONNACK), every operation waiting in the user queue is of a kind
    the configured offline-queue policy preserves: whatever the policy rejects has been failed - at submission, at
    disconnection (queued, half-written, written-but-unflushed or unacknowledged) - and never waits for the next connection. -/
theorem offline_queue_holds_only_what_policy_keeps (cfg : Config) (evs : List Event) (id : Nat) (o : Op)
    (hs : (runEvents (Engine.new cfg) evs).1.state = .disconnected ∨ (runEvents (Engine.new cfg) evs).1.state = .pendingConnack)
    (hq : id ∈ (runEvents (Engine.new cfg) evs).1.userQ)
    (ho : (runEvents (Engine.new cfg) evs).1.ops.lookup id = some o) :
    specKeeps (runEvents (Engine.new cfg) evs).1.cfg.policy o.packet = true := by
  rw [← policy_is_the_table]
  exact (inv2_after cfg evs).2.op hs id hq o ho

/-- non-vacuity: offline, a QoS 1 publish submitted under PreserveQos1Plus waits in the user queue -/
example :
    let e := (runEvents (Engine.new { policy := .preserveQos1Plus }) [.user 0 (.publish { topic := [97], qos := 1 } 0 none)]).1
    (e.state == .disconnected && e.userQ == [1] && (e.ops.lookup 1).isSome) = true := by decide

/-- non-vacuity for the handshake case (the instance a seeded change got wrong): the transport is open and the CONNECT written, the
    CONNACK is still outstanding; a QoS 1 publish submitted under PreserveNothing fails at once and is not queued -/
example :
    let e := (runEvents (Engine.new { policy := .preserveNothing }) [.opened 1 100, .service 2 4096 0, .writeDone 3,
      .user 4 (.publish { topic := [97], qos := 1 } 0 none)]).1
    (e.state == .pendingConnack && e.userQ == [] && e.ops.length == 0) = true := by decide +kernel

end GV.Props.C15
