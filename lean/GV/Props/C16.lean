/-
  Props/C16.lean — Nothing breaking the server's announced limits or static packet rules is sent.
  The validators (model of validate.rs / mqtt/*::validate_*) are compared with the standard's rules
  (Spec/Validity.lean).  Direction proved: whatever the validators accept is valid.
-/
import GV.Proofs.Validate
namespace GV.Props.C16
open GV

/-- The limits the standard attaches to a CONNACK, read off the negotiated settings. -/
def limitsOf (s : Settings) : Spec.Limits :=
  { maximumQos := s.maximumQos, retainAvailable := s.retainAvailable, maximumPacketSize := s.maximumPacketSize,
    wildcardAvailable := s.wildcardSubsAvailable, subIdAvailable := s.subIdsAvailable,
    sharedAvailable := s.sharedSubsAvailable }

/-- Every user property that passes submission-time validation has a name *and a value* that fit a
    two-byte length prefix — for every packet kind that carries user properties. -/
theorem user_properties_fit (u : UserProps) : vUserProps u = .ok () ↔ Spec.upsOk u = true :=
  vUserProps_ok u

/-- A PUBLISH accepted at submission satisfies every static rule of the standard: valid topic name,
    no wildcard, no zero alias, no subscription identifiers, valid response topic, every string and
    binary field within 65535 bytes. -/
theorem publish_accepted_is_statically_valid (p : Publish) (hq : p.qos ≤ 2)
    (hf : ∀ f, p.payloadFormat = some f → f ≤ 1) :
    validateOutbound (.publish p) = .ok () → Spec.publishStaticOk p = true := by
  unfold validateOutbound vPublishOutbound
  simp only [bind_ok_iff, okIf_ok, vOptLen_ok, vUserProps_ok, isValidTopic_iff]
  intro ⟨_, h2, _, h4, h5, h6, h7, h8, h9, h10⟩
  have hrt : (match p.responseTopic with | none => true | some t => Spec.topicNameValid t) = true := by
    cases hr : p.responseTopic with
    | none => rfl
    | some rt => simp only [hr, bind_ok_iff, okIf_ok] at h7; exact h7.1
  have hpf : (match p.payloadFormat with | none => true | some f => decide (f ≤ 1)) = true := by
    cases hp : p.payloadFormat with
    | none => rfl
    | some f => simp [hf f hp]
  simp only [Spec.publishStaticOk, h4, h6, h8, h9, h10, Bool.and_true, Bool.true_and, Bool.and_eq_true]
  simp at h2 h5
  simp only [hq, h2]
  simp
  exact ⟨⟨h5, hrt⟩, hpf⟩

/-- A PUBLISH that passes last-chance validation respects the server's Maximum QoS and Retain
    Available, and its encoded size (fixed header included) is within Maximum Packet Size. -/
theorem publish_accepted_respects_limits (p : Publish) (s : Settings) (r : Option Resolution) :
    validateOutboundInternal (.publish p) (some s) 0 r = .ok () →
      Spec.publishDynamicOk (limitsOf s) p = true ∧
      ∃ rl pl sz, publishLengths5 p (r.getD {}) = some (rl, pl) ∧ vliSize rl = some sz ∧
        1 + rl + sz ≤ s.maximumPacketSize := by
  unfold validateOutboundInternal vPublishInternal
  simp only [bind_ok_iff, okIf_ok]
  intro ⟨hsize, _, hret, hqos⟩
  constructor
  · simp only [Spec.publishDynamicOk, limitsOf, Bool.and_eq_true]
    simp at hret hqos ⊢
    exact ⟨decide_eq_true hqos, hret⟩
  · unfold sizeCheck at hsize
    cases hl : publishLengths5 p (r.getD {}) with
    | none => simp [hl] at hsize
    | some pr =>
      obtain ⟨rl, pl⟩ := pr
      simp only [hl] at hsize
      cases hv : vliSize rl with
      | none => simp [hv] at hsize
      | some sz =>
        simp only [hv, okIf_ok] at hsize
        exact ⟨rl, pl, sz, rfl, hv, by simpa using hsize⟩

/-- Non-vacuity: a concrete PUBLISH accepted by both validators exactly up to the size limit. -/
def demo : Publish := { topic := [97, 47, 98], qos := 1, packetId := 7, payload := some [1, 2, 3] }

def accepted (r : VRes) : Bool := match r with | .ok _ => true | .error _ => false

example :
    (accepted (validateOutbound (.publish { demo with packetId := 0 })) &&
     accepted (validateOutboundInternal (.publish demo) (some { maximumQos := 1, maximumPacketSize := 13 }) 0 none) &&
     !accepted (validateOutboundInternal (.publish demo) (some { maximumQos := 1, maximumPacketSize := 12 }) 0 none)) = true := by
  decide

end GV.Props.C16
