/-
  Props/C16.lean — Nothing breaking the server's announced limits or static packet rules is sent.
  The validators (model of validate.rs / mqtt/*::validate_*) are compared with the standard's rules
  (Spec/Validity.lean).  Direction proved: whatever the validators accept is valid.
-/
import GV.Proofs.Validate
namespace GV.Props.C16
open GV

/-- The limits the standard attaches to a CONNACK, read off the negotiated settings. -/
def limitsOf (s : Settings) : Spec.Limits :=
  { maximumQos := s.maximumQos, retainAvailable := s.retainAvailable, maximumPacketSize := s.maximumPacketSize,
    wildcardAvailable := s.wildcardSubsAvailable, subIdAvailable := s.subIdsAvailable,
    sharedAvailable := s.sharedSubsAvailable }

/-- Every user property that passes submission-time validation has a name *and a value* that fit a
    two-byte length prefix — for every packet kind that carries user properties. -/
theorem user_properties_fit (u : UserProps) : vUserProps u = .ok () ↔ Spec.upsOk u = true :=
  vUserProps_ok u

/-- A PUBLISH accepted at submission satisfies every static rule of the standard: valid topic name,
    no wildcard, no zero alias, no subscription identifiers, valid response topic, every string and
    binary field within 65535 bytes. -/
theorem publish_accepted_is_statically_valid (p : Publish) (hq : p.qos ≤ 2)
    (hf : ∀ f, p.payloadFormat = some f → f ≤ 1) :
    validateOutbound (.publish p) = .ok () → Spec.publishStaticOk p = true := by
  unfold validateOutbound vPublishOutbound
  simp only [bind_ok_iff, okIf_ok, vOptLen_ok, vOptStr_ok, vUserProps_ok, isValidTopic_iff]
  intro ⟨_, h2, _, h4, h5, h6, h7, h8, h9, h10⟩
  have hrt : (match p.responseTopic with | none => true | some t => Spec.topicNameValid t) = true := by
    cases hr : p.responseTopic with
    | none => rfl
    | some rt => simp only [hr, bind_ok_iff, okIf_ok] at h7; exact h7.1
  have hpf : (match p.payloadFormat with | none => true | some f => decide (f ≤ 1)) = true := by
    cases hp : p.payloadFormat with
    | none => rfl
    | some f => simp [hf f hp]
  simp only [Spec.publishStaticOk, h4, h6, h8, h9, h10, Bool.and_true, Bool.true_and, Bool.and_eq_true]
  simp at h2 h5
  simp only [hq, h2]
  simp
  exact ⟨⟨h5, hrt⟩, hpf⟩

/-- A PUBLISH that passes last-chance validation respects the server's Maximum QoS and Retain
    Available, and its encoded size (fixed header included) is within Maximum Packet Size. -/
theorem publish_accepted_respects_limits (p : Publish) (s : Settings) (r : Option Resolution) :
    validateOutboundInternal (.publish p) (some s) 0 r = .ok () →
      Spec.publishDynamicOk (limitsOf s) p = true ∧
      ∃ rl pl sz, publishLengths5 p (r.getD {}) = some (rl, pl) ∧ vliSize rl = some sz ∧
        1 + rl + sz ≤ s.maximumPacketSize := by
  unfold validateOutboundInternal vPublishInternal vPublishInternalWith
  simp only [bind_ok_iff, okIf_ok]
  intro ⟨hsize, _, hret, hqos⟩
  constructor
  · simp only [Spec.publishDynamicOk, limitsOf, Bool.and_eq_true]
    simp at hret hqos ⊢
    exact ⟨decide_eq_true hqos, hret⟩
  · unfold sizeCheck at hsize
    cases hl : publishLengths5 p (r.getD {}) with
    | none => simp [hl] at hsize
    | some pr =>
      obtain ⟨rl, pl⟩ := pr
      simp only [hl] at hsize
      cases hv : vliSize rl with
      | none => simp [hv] at hsize
      | some sz =>
        simp only [hv, okIf_ok] at hsize
        exact ⟨rl, pl, sz, rfl, hv, by simpa using hsize⟩

def accepted (r : VRes) : Bool := match r with | .ok _ => true | .error _ => false

/-- the encoded lengths of a PUBLISH are those of the same packet without payload plus the payload's length (what lets the
    correspondence check feed payloads of 4 GiB and more, which no text protocol can carry, as a bare length) -/
theorem publishLengths5_payload (p : Publish) (b : Bytes) (r : Resolution) :
    publishLengths5 { p with payload := some b } r =
      (publishLengths5 { p with payload := none } r).map (fun l => (l.1 + b.length, l.2)) := by
  unfold publishLengths5
  simp only []
  cases subIdsLen p.subscriptionIds with
  | none => rfl
  | some sid =>
    simp only []
    split <;> simp

/-- **A PUBLISH whose encoded size cannot be expressed in the fixed header (remaining length above 268,435,455 - for
    example a payload of 4 GiB) never passes send-time validation**, whatever maximum packet size the server announced: it
    is failed locally instead of being written with a truncated length. -/
theorem oversized_publish_never_accepted (p : Publish) (s : Settings) (r : Option Resolution) (rl pl : Nat)
    (hl : publishLengths5 p (r.getD {}) = some (rl, pl)) (hbig : rl > 268435455) :
    validateOutboundInternal (.publish p) (some s) 0 r = .error .encodingFailure := by
  have hv : vliSize rl = none := by
    unfold vliSize
    have h1 : ¬ rl < 128 := by omega
    have h2 : ¬ rl < 16384 := by omega
    have h3 : ¬ rl < 2097152 := by omega
    have h4 : ¬ rl < 268435456 := by omega
    simp [h1, h2, h3, h4]
  unfold validateOutboundInternal vPublishInternal vPublishInternalWith sizeCheck
  simp [hl, hv]
  rfl

/-- **The CONNECT built from the options passes validation only if its will is a valid message**: the will topic and the
    will's response topic are topic names (non-empty, no wildcard, no null character, at most 65535 bytes), every binary
    field of the CONNECT and of the will fits its two-byte length prefix, and every string field does so and is free of the
    null character ([MQTT-1.5.4-2]). -/
theorem connect_accepted_has_valid_will (c : Connect) (w : Publish) (hw : c.will = some w) :
    validateOutbound (.connect c) = .ok () →
      Spec.topicNameValid w.topic = true ∧
      (∀ rt, w.responseTopic = some rt → Spec.topicNameValid rt = true) ∧
      Spec.optOk w.payload = true ∧ Spec.optStrOk w.contentType = true ∧ Spec.optOk w.correlationData = true ∧
      Spec.optStrOk w.responseTopic = true ∧ Spec.upsOk w.userProps = true ∧
      Spec.optStrOk c.clientId = true ∧ Spec.optStrOk c.username = true ∧ Spec.optOk c.password = true ∧
      Spec.upsOk c.userProps = true := by
  unfold validateOutbound vConnectOutbound
  simp only [hw, bind_ok_iff, okIf_ok, vOptLen_ok, vOptStr_ok, vUserProps_ok, isValidTopic_iff]
  intro ⟨h1, _, _, _, _, _, h7, h8, h9, h10, h11, h12, h13, _, h15, h16, h17⟩
  refine ⟨h16, ?_, h15, h10, h12, h11, h13, h1, h7, h8, h9⟩
  intro rt hrt
  rw [hrt] at h17
  simpa only [okIf_ok] using h17

/-- an invalid will topic (empty, or with a wildcard) fails the CONNECT locally -/
example :
    (!accepted (validateOutbound (.connect { will := some { topic := [97, 47, 35] } })) &&
     !accepted (validateOutbound (.connect { will := some { topic := [] } })) &&
     !accepted (validateOutbound (.connect { will := some { topic := [97], responseTopic := some [114, 47, 43] } })) &&
     accepted (validateOutbound (.connect { will := some { topic := [97, 47, 98], responseTopic := some [114] } }))) = true := by
  decide

/-- **A SUBSCRIBE accepted at submission has a non-empty subscription list, a Subscription Identifier in 1..268,435,455
    (when it has one; 0 is a protocol error) and user properties that fit.**  (Topic-filter grammar is connection dependent -
    wildcard / shared availability - and is checked by the send-time validator.) -/
theorem subscribe_accepted_is_statically_valid_partial (p : Subscribe) :
    validateOutbound (.subscribe p) = .ok () →
      p.subscriptions ≠ [] ∧ (∀ i, p.subscriptionId = some i → 1 ≤ i ∧ i ≤ 268435455) ∧ Spec.upsOk p.userProps = true := by
  unfold validateOutbound vSubscribeOutbound
  simp only [bind_ok_iff, okIf_ok, vUserProps_ok]
  intro ⟨_, h2, h3, _, h4⟩
  refine ⟨?_, ?_, h4⟩
  · intro h; rw [h] at h2; simp at h2
  · intro i hi; rw [hi] at h3; simpa using h3

example :
    (!accepted (validateOutbound (.subscribe { subscriptions := [{ topicFilter := [97] }], subscriptionId := some 0 })) &&
     !accepted (validateOutbound (.subscribe { subscriptions := [{ topicFilter := [97] }], subscriptionId := some 268435456 })) &&
     accepted (validateOutbound (.subscribe { subscriptions := [{ topicFilter := [97] }], subscriptionId := some 268435455 }))) = true := by
  decide

/-- the null character is refused wherever a UTF-8 string goes: topic name, topic filter, user property, content type -/
example :
    (!accepted (validateOutbound (.publish { topic := [97, 0, 98] })) &&
     !accepted (validateOutbound (.publish { topic := [97], userProps := some [{ name := [107, 0], value := [118] }] })) &&
     !accepted (validateOutbound (.publish { topic := [97], contentType := some [0] })) &&
     accepted (validateOutbound (.publish { topic := [97], correlationData := some [0, 0], payload := some [0] })) &&
     !(filterProps [97, 47, 0, 47, 35]).isValid) = true := by
  decide

/-- Non-vacuity: a concrete PUBLISH accepted by both validators exactly up to the size limit. -/
def demo : Publish := { topic := [97, 47, 98], qos := 1, packetId := 7, payload := some [1, 2, 3] }

example :
    (accepted (validateOutbound (.publish { demo with packetId := 0 })) &&
     accepted (validateOutboundInternal (.publish demo) (some { maximumQos := 1, maximumPacketSize := 13 }) 0 none) &&
     !accepted (validateOutboundInternal (.publish demo) (some { maximumQos := 1, maximumPacketSize := 12 }) 0 none)) = true := by
  decide

/-- **A SUBSCRIBE whose encoded size cannot be expressed in the fixed header never passes send-time validation** - e.g.
    65541 filters of 65535 bytes, 4 GiB: it is failed locally instead of being written with a truncated length. -/
theorem oversized_subscribe_never_accepted (p : Subscribe) (s : Settings) (rl pl : Nat)
    (hl : subscribeLengths5 p = some (rl, pl)) (hbig : rl > 268435455) :
    validateOutboundInternal (.subscribe p) (some s) 0 none = .error .encodingFailure := by
  have hv : vliSize rl = none := by
    unfold vliSize
    have h1 : ¬ rl < 128 := by omega
    have h2 : ¬ rl < 16384 := by omega
    have h3 : ¬ rl < 2097152 := by omega
    have h4 : ¬ rl < 268435456 := by omega
    simp [h1, h2, h3, h4]
  unfold validateOutboundInternal vSubscribeInternal vSubscribeInternalWith sizeCheck
  simp [hl, hv]
  rfl

theorem oversized_unsubscribe_never_accepted (p : Unsubscribe) (s : Settings) (rl pl : Nat)
    (hl : unsubscribeLengths5 p = some (rl, pl)) (hbig : rl > 268435455) :
    validateOutboundInternal (.unsubscribe p) (some s) 0 none = .error .encodingFailure := by
  have hv : vliSize rl = none := by
    unfold vliSize
    have h1 : ¬ rl < 128 := by omega
    have h2 : ¬ rl < 16384 := by omega
    have h3 : ¬ rl < 2097152 := by omega
    have h4 : ¬ rl < 268435456 := by omega
    simp [h1, h2, h3, h4]
  unfold validateOutboundInternal vUnsubscribeInternal vUnsubscribeInternalWith sizeCheck
  simp [hl, hv]
  rfl

/-- the lengths of a SUBSCRIBE / UNSUBSCRIBE with `n` more subscriptions / filters of `len` bytes are those of the packet
    without them plus `n * (3 + len)` / `n * (2 + len)`: what lets the correspondence check feed 4 GiB packets as two numbers -/
theorem padded_lengths (p : Subscribe) (u : Unsubscribe) (n len : Nat) :
    subscribeLengths5 { p with subscriptions := p.subscriptions ++ List.replicate n (padSub len) } =
      (subscribeLengths5 p).map (fun l => (l.1 + n * (3 + len), l.2)) ∧
    unsubscribeLengths5 { u with topicFilters := u.topicFilters ++ List.replicate n (List.replicate len 97) } =
      (unsubscribeLengths5 u).map (fun l => (l.1 + n * (2 + len), l.2)) := by
  constructor
  · rw [subscribeLengths5_pad]; simp [padSub]
  · rw [unsubscribeLengths5_pad]; simp

end GV.Props.C16
