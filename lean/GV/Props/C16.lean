/-
  Props/C16.lean — Nothing breaking the server's announced limits or static packet rules is sent.
  The validators (model of validate.rs / mqtt/*::validate_*) are compared with the standard's rules
  (Spec/Validity.lean).  PUBLISH, CONNECT: whatever the validators accept is valid.  SUBSCRIBE, UNSUBSCRIBE: the submission
  check is exactly the static rules and the send-time check exactly the announced limits (Proofs/Filter.lean ties the
  code's one-pass filter scan to the grammar of 4.7 / 4.8.2 for every byte string); D7 and D70 are the two listed exceptions.
-/
import GV.Proofs.Validate
import GV.Proofs.Filter
namespace GV.Props.C16
open GV

/-- The limits the standard attaches to a CONNACK, read off the negotiated settings. -/
def limitsOf (s : Settings) : Spec.Limits :=
  { maximumQos := s.maximumQos, retainAvailable := s.retainAvailable, maximumPacketSize := s.maximumPacketSize,
    wildcardAvailable := s.wildcardSubsAvailable, subIdAvailable := s.subIdsAvailable,
    sharedAvailable := s.sharedSubsAvailable }

/-- Every user property that passes submission-time validation has a name *and a value* that fit a
    two-byte length prefix — for every packet kind that carries user properties. -/
theorem user_properties_fit (u : UserProps) : vUserProps u = .ok () ↔ Spec.upsOk u = true :=
  vUserProps_ok u

/-- A PUBLISH accepted at submission satisfies every static rule of the standard: valid topic name,
    no wildcard, no zero alias, no subscription identifiers, valid response topic, every string and
    binary field within 65535 bytes. -/
theorem publish_accepted_is_statically_valid (p : Publish) (hq : p.qos ≤ 2)
    (hf : ∀ f, p.payloadFormat = some f → f ≤ 1) :
    validateOutbound (.publish p) = .ok () → Spec.publishStaticOk p = true := by
  unfold validateOutbound vPublishOutbound
  simp only [bind_ok_iff, okIf_ok, vOptLen_ok, vOptStr_ok, vUserProps_ok, isValidTopic_iff]
  intro ⟨_, h2, _, h4, h5, h6, h7, h8, h9, h10⟩
  have hrt : (match p.responseTopic with | none => true | some t => Spec.topicNameValid t) = true := by
    cases hr : p.responseTopic with
    | none => rfl
    | some rt => simp only [hr, bind_ok_iff, okIf_ok] at h7; exact h7.1
  have hpf : (match p.payloadFormat with | none => true | some f => decide (f ≤ 1)) = true := by
    cases hp : p.payloadFormat with
    | none => rfl
    | some f => simp [hf f hp]
  simp only [Spec.publishStaticOk, h4, h6, h8, h9, h10, Bool.and_true, Bool.true_and, Bool.and_eq_true]
  simp at h2 h5
  simp only [hq, h2]
  simp
  exact ⟨⟨h5, hrt⟩, hpf⟩

/-- A PUBLISH that passes last-chance validation respects the server's Maximum QoS and Retain
    Available, and its encoded size (fixed header included) is within Maximum Packet Size. -/
theorem publish_accepted_respects_limits (p : Publish) (s : Settings) (r : Option Resolution) :
    validateOutboundInternal (.publish p) (some s) 0 r = .ok () →
      Spec.publishDynamicOk (limitsOf s) p = true ∧
      ∃ rl pl sz, publishLengths5 p (r.getD {}) = some (rl, pl) ∧ vliSize rl = some sz ∧
        1 + rl + sz ≤ s.maximumPacketSize := by
  unfold validateOutboundInternal vPublishInternal vPublishInternalWith
  simp only [bind_ok_iff, okIf_ok]
  intro ⟨hsize, _, hret, hqos⟩
  constructor
  · simp only [Spec.publishDynamicOk, limitsOf, Bool.and_eq_true]
    simp at hret hqos ⊢
    exact ⟨decide_eq_true hqos, hret⟩
  · unfold sizeCheck at hsize
    cases hl : publishLengths5 p (r.getD {}) with
    | none => simp [hl] at hsize
    | some pr =>
      obtain ⟨rl, pl⟩ := pr
      simp only [hl] at hsize
      cases hv : vliSize rl with
      | none => simp [hv] at hsize
      | some sz =>
        simp only [hv, okIf_ok] at hsize
        exact ⟨rl, pl, sz, rfl, hv, by simpa using hsize⟩

def accepted (r : VRes) : Bool := match r with | .ok _ => true | .error _ => false

/-- the encoded lengths of a PUBLISH are those of the same packet without payload plus the payload's length (what lets the
    correspondence check feed payloads of 4 GiB and more, which no text protocol can carry, as a bare length) -/
theorem publishLengths5_payload (p : Publish) (b : Bytes) (r : Resolution) :
    publishLengths5 { p with payload := some b } r =
      (publishLengths5 { p with payload := none } r).map (fun l => (l.1 + b.length, l.2)) := by
  unfold publishLengths5
  simp only []
  cases subIdsLen p.subscriptionIds with
  | none => rfl
  | some sid =>
    simp only []
    split <;> simp

/-- **A PUBLISH whose encoded size cannot be expressed in the fixed header (remaining length above 268,435,455 - for
    example a payload of 4 GiB) never passes send-time validation**, whatever maximum packet size the server announced: it
    is failed locally instead of being written with a truncated length. -/
theorem oversized_publish_never_accepted (p : Publish) (s : Settings) (r : Option Resolution) (rl pl : Nat)
    (hl : publishLengths5 p (r.getD {}) = some (rl, pl)) (hbig : rl > 268435455) :
    validateOutboundInternal (.publish p) (some s) 0 r = .error .encodingFailure := by
  have hv : vliSize rl = none := by
    unfold vliSize
    have h1 : ¬ rl < 128 := by omega
    have h2 : ¬ rl < 16384 := by omega
    have h3 : ¬ rl < 2097152 := by omega
    have h4 : ¬ rl < 268435456 := by omega
    simp [h1, h2, h3, h4]
  unfold validateOutboundInternal vPublishInternal vPublishInternalWith sizeCheck
  simp [hl, hv]
  rfl

/-- **The CONNECT built from the options passes validation only if its will is a valid message**: the will topic and the
    will's response topic are topic names (non-empty, no wildcard, no null character, at most 65535 bytes), every binary
    field of the CONNECT and of the will fits its two-byte length prefix, and every string field does so and is free of the
    null character ([MQTT-1.5.4-2]). -/
theorem connect_accepted_has_valid_will (c : Connect) (w : Publish) (hw : c.will = some w) :
    validateOutbound (.connect c) = .ok () →
      Spec.topicNameValid w.topic = true ∧
      (∀ rt, w.responseTopic = some rt → Spec.topicNameValid rt = true) ∧
      Spec.optOk w.payload = true ∧ Spec.optStrOk w.contentType = true ∧ Spec.optOk w.correlationData = true ∧
      Spec.optStrOk w.responseTopic = true ∧ Spec.upsOk w.userProps = true ∧
      Spec.optStrOk c.clientId = true ∧ Spec.optStrOk c.username = true ∧ Spec.optOk c.password = true ∧
      Spec.upsOk c.userProps = true := by
  unfold validateOutbound vConnectOutbound
  simp only [hw, bind_ok_iff, okIf_ok, vOptLen_ok, vOptStr_ok, vUserProps_ok, isValidTopic_iff]
  intro ⟨h1, _, _, _, _, _, h7, h8, h9, h10, h11, h12, h13, _, h15, h16, h17⟩
  refine ⟨h16, ?_, h15, h10, h12, h11, h13, h1, h7, h8, h9⟩
  intro rt hrt
  rw [hrt] at h17
  simpa only [okIf_ok] using h17

/-- an invalid will topic (empty, or with a wildcard) fails the CONNECT locally -/
example :
    (!accepted (validateOutbound (.connect { will := some { topic := [97, 47, 35] } })) &&
     !accepted (validateOutbound (.connect { will := some { topic := [] } })) &&
     !accepted (validateOutbound (.connect { will := some { topic := [97], responseTopic := some [114, 47, 43] } })) &&
     accepted (validateOutbound (.connect { will := some { topic := [97, 47, 98], responseTopic := some [114] } }))) = true := by
  decide

theorem all_congr_mem {α : Type} (l : List α) (f g : α → Bool) (h : ∀ x ∈ l, f x = g x) : l.all f = l.all g := by
  induction l with
  | nil => rfl
  | cons a r ih =>
    simp only [List.all_cons]
    rw [h a (by simp), ih (fun x hx => h x (by simp [hx]))]

/-- one subscription against the static rules: a well-formed filter (4.7, 4.8.2), no No Local on a shared subscription -/
theorem subscription_static (x : Subscription) (hq : x.qos ≤ 2 ∧ x.retainHandling ≤ 2) :
    isValidFilter x.topicFilter (some x.noLocal) =
      (Spec.classify x.topicFilter != .invalid && decide (x.qos ≤ 2) && decide (x.retainHandling ≤ 2)
        && !((Spec.classify x.topicFilter).isShared && x.noLocal)) := by
  rw [isValidFilter_eq]
  have h1 : decide (x.qos ≤ 2) = true := by simpa using hq.1
  have h2 : decide (x.retainHandling ≤ 2) = true := by simpa using hq.2
  rw [h1, h2]
  cases Spec.classify x.topicFilter <;> cases x.noLocal <;> simp [Spec.FilterClass.isShared] <;> rfl

/-- **The submission check of a SUBSCRIBE is exactly the static rules of the standard**: it passes if and only if the
    packet has a non-empty list of well-formed topic filters (wildcards whole levels, '#' last, `$share/{name}/{filter}` with
    a proper name and filter, at most 65535 bytes, no null character), no No Local on a shared subscription
    [MQTT-3.8.3-4], a Subscription Identifier in 1..268,435,455 when it has one, and user properties that fit - nothing
    that breaks a static rule gets past submission, and nothing that keeps them is refused there.  (Quality of service and
    retain handling are enumerations in the code; the model's numbers are bounded by hypothesis.) -/
theorem subscribe_submission_is_the_static_rules (p : Subscribe) (hp : p.packetId = 0)
    (hq : ∀ x ∈ p.subscriptions, x.qos ≤ 2 ∧ x.retainHandling ≤ 2) :
    validateOutbound (.subscribe p) = .ok () ↔ Spec.subscribeStaticOk p = true := by
  unfold validateOutbound vSubscribeOutbound Spec.subscribeStaticOk
  simp only [bind_ok_iff, okIf_ok, vUserProps_ok]
  have hall : p.subscriptions.all (fun x => isValidFilter x.topicFilter (some x.noLocal)) =
      p.subscriptions.all (fun s => Spec.classify s.topicFilter != .invalid && decide (s.qos ≤ 2) && decide (s.retainHandling ≤ 2)
        && !((Spec.classify s.topicFilter).isShared && s.noLocal)) :=
    all_congr_mem _ _ _ (fun x hx => subscription_static x (hq x hx))
  rw [hall]
  have hp' : decide (p.packetId = 0) = true := by simpa using hp
  cases hsid : p.subscriptionId with
  | none =>
    simp only [Bool.and_eq_true, Bool.and_true]
    constructor
    · intro ⟨_, h2, _, h4, h5⟩
      exact ⟨⟨h2, h5⟩, h4⟩
    · intro ⟨⟨h2, h5⟩, h4⟩
      exact ⟨hp', h2, trivial, h4, h5⟩
  | some i =>
    simp only [Bool.and_eq_true, decide_eq_true_eq]
    constructor
    · intro ⟨_, h2, h3, h4, h5⟩
      exact ⟨⟨⟨h2, h5⟩, h4⟩, h3⟩
    · intro ⟨⟨⟨h2, h5⟩, h4⟩, h3⟩
      exact ⟨hp, h2, h3, h4, h5⟩

/-- **The submission check of an UNSUBSCRIBE is exactly the static rules**: a non-empty list of well-formed topic filters and
    user properties that fit. -/
theorem unsubscribe_submission_is_the_static_rules (p : Unsubscribe) (hp : p.packetId = 0) :
    validateOutbound (.unsubscribe p) = .ok () ↔ Spec.unsubscribeStaticOk p = true := by
  unfold validateOutbound vUnsubscribeOutbound Spec.unsubscribeStaticOk
  simp only [bind_ok_iff, okIf_ok, vUserProps_ok]
  have hall : p.topicFilters.all (fun f => isValidFilter f none) = p.topicFilters.all (fun f => Spec.classify f != .invalid) := by
    apply all_congr_mem
    intro f _
    rw [isValidFilter_eq]
    cases Spec.classify f <;> rfl
  rw [hall]
  have hp' : decide (p.packetId = 0) = true := by simpa using hp
  simp only [Bool.and_eq_true]
  constructor
  · intro ⟨_, h2, h3, h4⟩
    exact ⟨⟨h2, h4⟩, h3⟩
  · intro ⟨⟨h2, h4⟩, h3⟩
    exact ⟨hp', h2, h3, h4⟩

/-- **At send time a SUBSCRIBE passes exactly when every filter is within what the server announced**: a wildcard only if
    Wildcard Subscription Available, a shared subscription only if Shared Subscription Available (and not with No Local) -
    for a packet that fits the packet size and carries its identifier.  (The announced Subscription Identifier availability
    is *not* among the checks: known finding D7, pinned by the crate's own tests.) -/
theorem subscribe_send_time_is_the_announced_limits (p : Subscribe) (s : Settings) (hp : p.packetId ≠ 0)
    (hsz : sizeCheck (subscribeLengths5 p) (some s) = .ok ()) :
    vSubscribeInternal p (some s) = .ok () ↔
      p.subscriptions.all (fun x => Spec.filterDynamicOk (limitsOf s) x.topicFilter x.noLocal) = true := by
  unfold vSubscribeInternal vSubscribeInternalWith
  simp only [bind_ok_iff, okIf_ok, hsz, true_and]
  have hall : p.subscriptions.all (fun x => isValidFilterInternal x.topicFilter s (some x.noLocal)) =
      p.subscriptions.all (fun x => Spec.filterDynamicOk (limitsOf s) x.topicFilter x.noLocal) := by
    apply all_congr_mem
    intro x _
    rw [isValidFilterInternal_eq]
    unfold Spec.filterDynamicOk limitsOf
    cases Spec.classify x.topicFilter <;> cases x.noLocal <;> simp <;>
      cases s.sharedSubsAvailable <;> cases s.wildcardSubsAvailable <;> simp
  rw [hall]
  simp [hp]

/-- **Known finding D70, as a theorem about the code**: at send time an UNSUBSCRIBE is held to the limits the standard sets
    for SUBSCRIBE - its filters must pass the wildcard / shared availability the server announced - although 3.2.2.3.11 and
    3.2.2.3.13 restrict only the SUBSCRIBE packet.  "Never rejected when valid" therefore holds for UNSUBSCRIBE only as
    `_partial`: for filters without wildcard and share prefix, or servers that announce both available. -/
theorem unsubscribe_send_time_applies_subscribe_limits (p : Unsubscribe) (s : Settings) (hp : p.packetId ≠ 0)
    (hsz : sizeCheck (unsubscribeLengths5 p) (some s) = .ok ()) :
    vUnsubscribeInternal p (some s) = .ok () ↔
      p.topicFilters.all (fun f => Spec.filterDynamicOk (limitsOf s) f false) = true := by
  unfold vUnsubscribeInternal vUnsubscribeInternalWith
  simp only [bind_ok_iff, okIf_ok, hsz, true_and]
  have hall : p.topicFilters.all (fun f => isValidFilterInternal f s none) =
      p.topicFilters.all (fun f => Spec.filterDynamicOk (limitsOf s) f false) := by
    apply all_congr_mem
    intro f _
    rw [isValidFilterInternal_eq]
    unfold Spec.filterDynamicOk limitsOf
    cases Spec.classify f <;> simp <;>
      cases s.sharedSubsAvailable <;> cases s.wildcardSubsAvailable <;> simp
  rw [hall]
  simp [hp]

theorem unsubscribe_never_rejected_when_valid_partial (p : Unsubscribe) (s : Settings) (hp : p.packetId ≠ 0)
    (hsz : sizeCheck (unsubscribeLengths5 p) (some s) = .ok ())
    (hav : s.wildcardSubsAvailable = true ∧ s.sharedSubsAvailable = true)
    (hv : Spec.unsubscribeDynamicOk (limitsOf s) p = true) :
    vUnsubscribeInternal p (some s) = .ok () := by
  rw [unsubscribe_send_time_applies_subscribe_limits p s hp hsz]
  unfold Spec.unsubscribeDynamicOk at hv
  rw [← hv]
  apply all_congr_mem
  intro f _
  unfold Spec.filterDynamicOk limitsOf
  cases Spec.classify f <;> simp [hav.1, hav.2] <;> rfl

/-- the witness of D70: a valid UNSUBSCRIBE (the standard limits nothing here) that the send-time check refuses -/
example :
    (Spec.unsubscribeStaticOk { topicFilters := [[97, 47, 43]] } &&
     Spec.unsubscribeDynamicOk { wildcardAvailable := false } { topicFilters := [[97, 47, 43]] } &&
     !accepted (vUnsubscribeInternal { packetId := 7, topicFilters := [[97, 47, 43]] } (some { wildcardSubsAvailable := false }))) = true := by
  decide

/-- non-vacuity of the submission theorems: filters on both sides of every clause -/
example :
    (accepted (validateOutbound (.subscribe { subscriptions := [{ topicFilter := [97, 47, 35] }] })) &&
     !accepted (validateOutbound (.subscribe { subscriptions := [{ topicFilter := [97, 47, 35, 47, 98] }] })) &&
     !accepted (validateOutbound (.subscribe { subscriptions := [{ topicFilter := [97, 43] }] })) &&
     !accepted (validateOutbound (.subscribe { subscriptions := [{ topicFilter := [] }] })) &&
     accepted (validateOutbound (.subscribe { subscriptions := [{ topicFilter := [36, 115, 104, 97, 114, 101, 47, 103, 47, 97] }] })) &&
     !accepted (validateOutbound (.subscribe { subscriptions := [{ topicFilter := [36, 115, 104, 97, 114, 101, 47, 103, 47, 97], noLocal := true }] })) &&
     !accepted (validateOutbound (.subscribe { subscriptions := [{ topicFilter := [36, 115, 104, 97, 114, 101, 47, 47, 97] }] })) &&
     !accepted (validateOutbound (.subscribe { subscriptions := [{ topicFilter := [36, 115, 104, 97, 114, 101, 47, 103] }] })) &&
     !accepted (validateOutbound (.unsubscribe { topicFilters := [[97, 0]] })) &&
     accepted (validateOutbound (.unsubscribe { topicFilters := [[43, 47, 43]] }))) = true := by
  decide

example :
    (!accepted (validateOutbound (.subscribe { subscriptions := [{ topicFilter := [97] }], subscriptionId := some 0 })) &&
     !accepted (validateOutbound (.subscribe { subscriptions := [{ topicFilter := [97] }], subscriptionId := some 268435456 })) &&
     accepted (validateOutbound (.subscribe { subscriptions := [{ topicFilter := [97] }], subscriptionId := some 268435455 }))) = true := by
  decide

/-- the null character is refused wherever a UTF-8 string goes: topic name, topic filter, user property, content type -/
example :
    (!accepted (validateOutbound (.publish { topic := [97, 0, 98] })) &&
     !accepted (validateOutbound (.publish { topic := [97], userProps := some [{ name := [107, 0], value := [118] }] })) &&
     !accepted (validateOutbound (.publish { topic := [97], contentType := some [0] })) &&
     accepted (validateOutbound (.publish { topic := [97], correlationData := some [0, 0], payload := some [0] })) &&
     !(filterProps [97, 47, 0, 47, 35]).isValid) = true := by
  decide

/-- Non-vacuity: a concrete PUBLISH accepted by both validators exactly up to the size limit. -/
def demo : Publish := { topic := [97, 47, 98], qos := 1, packetId := 7, payload := some [1, 2, 3] }

example :
    (accepted (validateOutbound (.publish { demo with packetId := 0 })) &&
     accepted (validateOutboundInternal (.publish demo) (some { maximumQos := 1, maximumPacketSize := 13 }) 0 none) &&
     !accepted (validateOutboundInternal (.publish demo) (some { maximumQos := 1, maximumPacketSize := 12 }) 0 none)) = true := by
  decide

/-- **A SUBSCRIBE whose encoded size cannot be expressed in the fixed header never passes send-time validation** - e.g.
    65541 filters of 65535 bytes, 4 GiB: it is failed locally instead of being written with a truncated length. -/
theorem oversized_subscribe_never_accepted (p : Subscribe) (s : Settings) (rl pl : Nat)
    (hl : subscribeLengths5 p = some (rl, pl)) (hbig : rl > 268435455) :
    validateOutboundInternal (.subscribe p) (some s) 0 none = .error .encodingFailure := by
  have hv : vliSize rl = none := by
    unfold vliSize
    have h1 : ¬ rl < 128 := by omega
    have h2 : ¬ rl < 16384 := by omega
    have h3 : ¬ rl < 2097152 := by omega
    have h4 : ¬ rl < 268435456 := by omega
    simp [h1, h2, h3, h4]
  unfold validateOutboundInternal vSubscribeInternal vSubscribeInternalWith sizeCheck
  simp [hl, hv]
  rfl

theorem oversized_unsubscribe_never_accepted (p : Unsubscribe) (s : Settings) (rl pl : Nat)
    (hl : unsubscribeLengths5 p = some (rl, pl)) (hbig : rl > 268435455) :
    validateOutboundInternal (.unsubscribe p) (some s) 0 none = .error .encodingFailure := by
  have hv : vliSize rl = none := by
    unfold vliSize
    have h1 : ¬ rl < 128 := by omega
    have h2 : ¬ rl < 16384 := by omega
    have h3 : ¬ rl < 2097152 := by omega
    have h4 : ¬ rl < 268435456 := by omega
    simp [h1, h2, h3, h4]
  unfold validateOutboundInternal vUnsubscribeInternal vUnsubscribeInternalWith sizeCheck
  simp [hl, hv]
  rfl

/-- the lengths of a SUBSCRIBE / UNSUBSCRIBE with `n` more subscriptions / filters of `len` bytes are those of the packet
    without them plus `n * (3 + len)` / `n * (2 + len)`: what lets the correspondence check feed 4 GiB packets as two numbers -/
theorem padded_lengths (p : Subscribe) (u : Unsubscribe) (n len : Nat) :
    subscribeLengths5 { p with subscriptions := p.subscriptions ++ List.replicate n (padSub len) } =
      (subscribeLengths5 p).map (fun l => (l.1 + n * (3 + len), l.2)) ∧
    unsubscribeLengths5 { u with topicFilters := u.topicFilters ++ List.replicate n (List.replicate len 97) } =
      (unsubscribeLengths5 u).map (fun l => (l.1 + n * (2 + len), l.2)) := by
  constructor
  · rw [subscribeLengths5_pad]; simp [padSub]
  · rw [unsubscribeLengths5_pad]; simp

end GV.Props.C16
