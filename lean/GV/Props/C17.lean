/-
  Props/C17.lean — Topic aliases never make either side reconstruct a wrong topic.
  Resolver-level theorems (alias.rs): the inbound resolver is the reference client table; the manual
  outbound resolver's table is exactly the table a conformant server builds from what is sent.
-/
import GV.Model.Alias
import GV.Proofs.AList
namespace GV.Props.C17
open GV

/-! ### inbound -/

/-- A PUBLISH without an alias is surfaced with its own topic and binds nothing. -/
theorem inbound_no_alias (r : InResolver) (t : Bytes) : r.resolve none t = some (r, t) := rfl

/-- An alias-only PUBLISH is surfaced with exactly the topic bound to that alias on this
    connection, and fails (never an empty or stale topic) when there is no binding. -/
theorem inbound_alias_only (r : InResolver) (a : Nat) :
    r.resolve (some a) [] = (r.table.lookup a).map (fun t => (r, t)) := by
  unfold InResolver.resolve
  cases h : r.table.lookup a <;> simp [h]

/-- Alias 0 and aliases above the client's Topic Alias Maximum are rejected. -/
theorem inbound_out_of_range (r : InResolver) (a : Nat) (t : Bytes) (ht : t ≠ []) (h : a = 0 ∨ a > r.maxAlias) :
    r.resolve (some a) t = none := by
  unfold InResolver.resolve
  have : t.isEmpty = false := by cases t <;> simp_all
  simp only [this]
  rcases h with h | h <;> simp [h]

/-- A PUBLISH with topic and in-range alias is surfaced with its topic; afterwards the alias maps to
    that topic and every other alias is unchanged (the latest binding wins). -/
theorem inbound_bind (r : InResolver) (a : Nat) (t : Bytes) (ht : t ≠ []) (h0 : a ≠ 0) (hm : a ≤ r.maxAlias) :
    ∃ r', r.resolve (some a) t = some (r', t) ∧ r'.maxAlias = r.maxAlias ∧
      ∀ b, r'.table.lookup b = if b = a then some t else r.table.lookup b := by
  unfold InResolver.resolve
  have : t.isEmpty = false := by cases t <;> simp_all
  have h2 : (decide (a = 0) || decide (a > r.maxAlias)) = false := by simp; omega
  simp only [this, Bool.false_eq_true, ↓reduceIte, h2]
  refine ⟨{ r with table := (a, t) :: r.table.filter (fun e => e.1 != a) }, rfl, rfl, ?_⟩
  intro b
  exact lookup_insert r.table a b t

/-- A new connection forgets every binding. -/
theorem inbound_reset_forgets (r : InResolver) (a : Nat) : (r.reset).resolve (some a) [] = none := by
  simp [InResolver.reset, InResolver.resolve]

/-! ### manual outbound resolver vs the server's table -/

/-- what a conformant server does with the (topic, alias) pair of a PUBLISH it receives -/
def serverApply (tbl : List (Nat × Bytes)) (res : Resolution) (topic : Bytes) : List (Nat × Bytes) :=
  match res.alias with
  | some a => if res.skipTopic then tbl else (a, topic) :: tbl.filter (fun e => e.1 != a)
  | none => tbl

/-- the topic the server attributes to that PUBLISH -/
def serverTopic (tbl : List (Nat × Bytes)) (res : Resolution) (topic : Bytes) : Option Bytes :=
  if res.skipTopic then (match res.alias with | some a => tbl.lookup a | none => none) else some topic

/-- Manual resolver: if its table equals the server's, then after any resolution (i) the server
    reconstructs the application's topic, (ii) the alias sent is in 1..max-1, (iii) the tables are
    still equal.  By induction this holds for every sequence of publishes on a connection. -/
theorem manual_step (r : OutResolver) (hk : r.kind = .manual) (alias : Option Nat) (topic : Bytes) :
    let (r', res) := r.resolve alias topic
    serverTopic r.table res topic = some topic ∧
    (∀ a, res.alias = some a → 1 ≤ a ∧ a < r.maxAlias ∨ r.table.lookup a = some topic) ∧
    r'.table = serverApply r.table res topic ∧ r'.kind = .manual ∧ r'.maxAlias = r.maxAlias := by
  unfold OutResolver.resolve
  simp only [hk]
  cases alias with
  | none => simp [serverTopic, serverApply, hk]
  | some a =>
    by_cases h1 : r.table.lookup a == some topic
    · simp only [h1, ↓reduceIte]
      have : r.table.lookup a = some topic := by simpa using h1
      simp [serverTopic, serverApply, this, hk]
    · simp only [h1, Bool.false_eq_true, ↓reduceIte]
      by_cases h2 : (decide (a > 0) && decide (a < r.maxAlias)) = true
      · simp only [h2, ↓reduceIte]
        simp at h2
        simp [serverTopic, serverApply, hk]; omega
      · simp only [h2, Bool.false_eq_true, ↓reduceIte]
        simp [serverTopic, serverApply, hk]

/-- Resetting for a new connection empties the manual table (the server's table starts empty too). -/
theorem manual_reset (r : OutResolver) (hk : r.kind = .manual) (max : Nat) :
    (r.reset max).table = [] ∧ (r.reset max).maxAlias = max := by
  simp [OutResolver.reset, hk]

/-- The null resolver never uses an alias. -/
theorem null_never_aliases (r : OutResolver) (hk : r.kind = .null) (alias : Option Nat) (topic : Bytes) :
    (r.resolve alias topic).2 = {} := by
  simp [OutResolver.resolve, hk]

/-- Non-vacuity: bind alias 2 to "a", reuse it, then rebind. -/
example :
    let r0 := (OutResolver.new .manual).reset 5
    let (r1, x1) := r0.resolve (some 2) [97]
    let (r2, x2) := r1.resolve (some 2) [97]
    let (_, x3) := r2.resolve (some 2) [98]
    (x1, x2, x3) = ({ skipTopic := false, alias := some 2 }, { skipTopic := true, alias := some 2 },
                    { skipTopic := false, alias := some 2 }) := by
  decide

end GV.Props.C17
