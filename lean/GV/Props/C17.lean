/-
  Props/C17.lean — Topic aliases never make either side reconstruct a wrong topic.
  Resolver-level theorems (alias.rs): the inbound resolver is the reference client table; the manual
  outbound resolver's table is exactly the table a conformant server builds from what is sent.
-/
import GV.Model.Alias
import GV.Proofs.AList
import GV.Proofs.Lru
import GV.Proofs.AliasFill
namespace GV.Props.C17
open GV

/-! ### inbound -/

/-- A PUBLISH without an alias is surfaced with its own topic and binds nothing. -/
theorem inbound_no_alias (r : InResolver) (t : Bytes) : r.resolve none t = some (r, t) := rfl

/-- An alias-only PUBLISH is surfaced with exactly the topic bound to that alias on this
    connection, and fails (never an empty or stale topic) when there is no binding. -/
theorem inbound_alias_only (r : InResolver) (a : Nat) :
    r.resolve (some a) [] = (r.table.lookup a).map (fun t => (r, t)) := by
  unfold InResolver.resolve
  cases h : r.table.lookup a <;> simp [h]

/-- Alias 0 and aliases above the client's Topic Alias Maximum are rejected. -/
theorem inbound_out_of_range (r : InResolver) (a : Nat) (t : Bytes) (ht : t ≠ []) (h : a = 0 ∨ a > r.maxAlias) :
    r.resolve (some a) t = none := by
  unfold InResolver.resolve
  have : t.isEmpty = false := by cases t <;> simp_all
  simp only [this]
  rcases h with h | h <;> simp [h]

/-- A PUBLISH with topic and in-range alias is surfaced with its topic; afterwards the alias maps to
    that topic and every other alias is unchanged (the latest binding wins). -/
theorem inbound_bind (r : InResolver) (a : Nat) (t : Bytes) (ht : t ≠ []) (h0 : a ≠ 0) (hm : a ≤ r.maxAlias) :
    ∃ r', r.resolve (some a) t = some (r', t) ∧ r'.maxAlias = r.maxAlias ∧
      ∀ b, r'.table.lookup b = if b = a then some t else r.table.lookup b := by
  unfold InResolver.resolve
  have : t.isEmpty = false := by cases t <;> simp_all
  have h2 : (decide (a = 0) || decide (a > r.maxAlias)) = false := by simp; omega
  simp only [this, Bool.false_eq_true, ↓reduceIte, h2]
  refine ⟨{ r with table := (a, t) :: r.table.filter (fun e => e.1 != a) }, rfl, rfl, ?_⟩
  intro b
  exact lookup_insert r.table a b t

/-- A new connection forgets every binding. -/
theorem inbound_reset_forgets (r : InResolver) (a : Nat) : (r.reset).resolve (some a) [] = none := by
  simp [InResolver.reset, InResolver.resolve]

/-! ### manual outbound resolver vs the server's table -/

/-- what a conformant server does with the (topic, alias) pair of a PUBLISH it receives -/
def serverApply (tbl : List (Nat × Bytes)) (res : Resolution) (topic : Bytes) : List (Nat × Bytes) :=
  match res.alias with
  | some a => if res.skipTopic then tbl else (a, topic) :: tbl.filter (fun e => e.1 != a)
  | none => tbl

/-- the topic the server attributes to that PUBLISH -/
def serverTopic (tbl : List (Nat × Bytes)) (res : Resolution) (topic : Bytes) : Option Bytes :=
  if res.skipTopic then (match res.alias with | some a => tbl.lookup a | none => none) else some topic

/-- Manual resolver: if its table equals the server's, then after any resolution (i) the server
    reconstructs the application's topic, (ii) the alias sent is in 1..max-1, (iii) the tables are
    still equal.  By induction this holds for every sequence of publishes on a connection. -/
theorem manual_step (r : OutResolver) (hk : r.kind = .manual) (alias : Option Nat) (topic : Bytes) :
    let (r', res) := r.resolve alias topic
    serverTopic r.table res topic = some topic ∧
    (∀ a, res.alias = some a → 1 ≤ a ∧ a < r.maxAlias ∨ r.table.lookup a = some topic) ∧
    r'.table = serverApply r.table res topic ∧ r'.kind = .manual ∧ r'.maxAlias = r.maxAlias := by
  unfold OutResolver.resolve
  simp only [hk]
  cases alias with
  | none => simp [serverTopic, serverApply, hk]
  | some a =>
    by_cases h1 : r.table.lookup a == some topic
    · simp only [h1, ↓reduceIte]
      have : r.table.lookup a = some topic := by simpa using h1
      simp [serverTopic, serverApply, this, hk]
    · simp only [h1, Bool.false_eq_true, ↓reduceIte]
      by_cases h2 : (decide (a > 0) && decide (a < r.maxAlias)) = true
      · simp only [h2, ↓reduceIte]
        simp at h2
        simp [serverTopic, serverApply, hk]; omega
      · simp only [h2, Bool.false_eq_true, ↓reduceIte]
        simp [serverTopic, serverApply, hk]

/-- Resetting for a new connection empties the manual table (the server's table starts empty too). -/
theorem manual_reset (r : OutResolver) (hk : r.kind = .manual) (max : Nat) :
    (r.reset max).table = [] ∧ (r.reset max).maxAlias = max := by
  simp [OutResolver.reset, hk]

/-- The null resolver never uses an alias. -/
theorem null_never_aliases (r : OutResolver) (hk : r.kind = .null) (alias : Option Nat) (topic : Bytes) :
    (r.resolve alias topic).2 = {} := by
  simp [OutResolver.resolve, hk]

/-- Non-vacuity: bind alias 2 to "a", reuse it, then rebind. -/
example :
    let r0 := (OutResolver.new .manual).reset 5
    let (r1, x1) := r0.resolve (some 2) [97]
    let (r2, x2) := r1.resolve (some 2) [97]
    let (_, x3) := r2.resolve (some 2) [98]
    (x1, x2, x3) = ({ skipTopic := false, alias := some 2 }, { skipTopic := true, alias := some 2 },
                    { skipTopic := false, alias := some 2 }) := by
  decide

/-! ### LRU outbound resolver: a whole connection -/

/-- a connection's worth of publishes through the resolver, with the server's table replayed alongside: the list
    of topics the server reconstructs -/
def lruConnection : OutResolver → List (Nat × Bytes) → List (Option Nat × Bytes) → List (Option Bytes)
  | _, _, [] => []
  | r, S, (alias, topic) :: rest =>
    let out := r.resolve alias topic
    _root_.GV.serverTopic S out.2 topic :: lruConnection out.1 (_root_.GV.serverApply S out.2 topic) rest

/-- **One resolution**: the server reconstructs exactly the published topic and the cache stays consistent with
    the server's table (distinct aliases within 1..maximum, every cached pair bound on the server). -/
theorem lru_one_resolution (r : OutResolver) (S : List (Nat × Bytes)) (cfg : Nat) (hk : r.kind = .lru cfg)
    (hcap : r.maxAlias ≤ lruCapacity cfg) (inv : LruInv r S) (alias : Option Nat) (topic : Bytes) :
    _root_.GV.serverTopic S (r.resolve alias topic).2 topic = some topic ∧
      LruInv (r.resolve alias topic).1 (_root_.GV.serverApply S (r.resolve alias topic).2 topic) :=
  let h := lru_step r S cfg hk hcap inv alias topic
  ⟨h.1, h.2.1⟩

/-- **Every connection, every sequence of publishes (any topics, any number, evictions included)**: after the
    reset done at CONNACK (any server Topic Alias Maximum, any configured cache size) the server reconstructs
    exactly the topic of every PUBLISH. -/
theorem lru_connection_faithful (r0 : OutResolver) (cfg max : Nat) (hk : r0.kind = .lru cfg) (pubs : List (Option Nat × Bytes)) :
    lruConnection (r0.reset max) [] pubs = pubs.map (fun p => some p.2) := by
  have key : ∀ (pubs : List (Option Nat × Bytes)) (r : OutResolver) (S : List (Nat × Bytes)), r.kind = .lru cfg →
      r.maxAlias ≤ lruCapacity cfg → LruInv r S → lruConnection r S pubs = pubs.map (fun p => some p.2) := by
    intro pubs
    induction pubs with
    | nil => intro r S _ _ _; rfl
    | cons p rest ih =>
      intro r S hk hcap inv
      obtain ⟨alias, topic⟩ := p
      have h := lru_step r S cfg hk hcap inv alias topic
      simp only [] at h
      simp only [lruConnection, List.map_cons]
      rw [h.1, ih _ _ (by rw [h.2.2.1]; exact hk) (by rw [h.2.2.2.1]; exact hcap) h.2.1]
  have hr := lru_reset_inv r0 cfg max hk
  exact key pubs _ _ hr.2.2 hr.2.1 hr.1

/-- aliases used never exceed the server's Topic Alias Maximum and are never 0 -/
theorem lru_alias_in_range (r : OutResolver) (S : List (Nat × Bytes)) (cfg : Nat) (hk : r.kind = .lru cfg)
    (hcap : r.maxAlias ≤ lruCapacity cfg) (inv : LruInv r S) (alias : Option Nat) (topic : Bytes) (a : Nat)
    (h : (r.resolve alias topic).2.alias = some a) : 1 ≤ a ∧ a ≤ r.maxAlias :=
  (lru_step r S cfg hk hcap inv alias topic).2.2.2.2 a h

/-- non-vacuity: capacity 2, three topics: a, b, a (hit), c (evicts b), b (rebound) — all reconstructed -/
example : lruConnection ((OutResolver.new (.lru 2)).reset 10) [] [(none, [97]), (none, [98]), (none, [97]), (none, [99]), (none, [98])]
    = [some [97], some [98], some [97], some [99], some [98]] := by decide

/-- the alias handed out fits the sixteen bits it is sent in: it is compared with the maximum *before* it is narrowed
    (with 65535 aliases in use, `len + 1` = 65536 would wrap to alias 0) -/
theorem lru_alias_fits_u16 (r : OutResolver) (S : List (Nat × Bytes)) (cfg : Nat) (hk : r.kind = .lru cfg)
    (hcap : r.maxAlias ≤ lruCapacity cfg) (inv : LruInv r S) (hmax : r.maxAlias ≤ 65535) (alias : Option Nat) (topic : Bytes) (a : Nat)
    (h : (r.resolve alias topic).2.alias = some a) : 1 ≤ a ∧ a ≤ 65535 :=
  let x := lru_alias_in_range r S cfg hk hcap inv alias topic a h
  ⟨x.1, Nat.le_trans x.2 hmax⟩

/-- **Filling the resolver**: the state the correspondence check reaches in one request (`alias.out.fill`: n publishes to n
    fresh topics) is the state the step-by-step model reaches - so the top of the alias range (65535 aliases in use) is
    compared with the implementation at the cost of one request. -/
theorem fill_is_stepwise (r : OutResolver) (n : Nat) (hn : n ≤ 262144) : r.fillFast n = r.resolveAll (fillTopics n) :=
  fillFast_eq r n hn

/-- a full resolver (3 aliases in use): the next fresh topic recycles the least recently used alias (1) -/
example :
    let r := (((OutResolver.new (.lru 3)).reset 3).fillFast 3).1
    (r.resolve none [110]).2 = { skipTopic := false, alias := some 1 } := by
  decide

end GV.Props.C17
