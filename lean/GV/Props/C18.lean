/-
  Props/C18.lean — Ack timeouts and the interrupted-retry limit fire exactly when specified.
  About Model/Engine.lean: `start_operation_ack_timeout`, `on_current_operation_fully_written`,
  `process_ack_timeouts`, `update_interrupted_retries`, `fail_operations_exceeding_max_interruption_limit`.
-/
import GV.Proofs.EngineBasics
import GV.Proofs.EngineWF
namespace GV.Props.C18
open GV

/-- **The clock starts when the packet has been completely written** (time spent queued does not count):
    the deadline recorded is the time of that moment plus T; operations without a timeout record nothing. -/
theorem timeout_armed_at_write (e : Engine) (id : Nat) (o : Op) (idx t : Nat) (ho : e.op? id = some o)
    (hq : isQos0Publish o.packet = false)
    (hu : o.user = some (idx, some t)) : (e.startAckTimeout id).timeouts = e.timeouts ++ [(id, e.now + t)] := by
  simp [Engine.startAckTimeout, Op.ackTimeout, ho, hu, hq]

theorem no_timeout_no_record (e : Engine) (id : Nat) (o : Op) (ho : e.op? id = some o)
    (hu : o.user = none ∨ ∃ idx, o.user = some (idx, none)) : (e.startAckTimeout id).timeouts = e.timeouts := by
  rcases hu with h | ⟨idx, h⟩ <;> simp [Engine.startAckTimeout, Op.ackTimeout, ho, h]

/-- **Only acknowledged operations can time out**: a QoS 0 publish - complete once written, with no acknowledgement to wait
    for - never gets a timeout record, whatever its options say. -/
theorem qos0_publish_never_times_out (e : Engine) (id : Nat) (o : Op) (ho : e.op? id = some o)
    (hq : isQos0Publish o.packet = true) : (e.startAckTimeout id).timeouts = e.timeouts := by
  simp [Engine.startAckTimeout, Op.ackTimeout, ho, hq]

theorem completeFailure_keeps_clock (e : Engine) (id : Nat) (k : String) :
    (e.completeFailure id k).1.timeouts = e.timeouts ∧ (e.completeFailure id k).1.now = e.now ∧
    (e.completeFailure id k).1.current = e.current :=
  let h := completeFailure_same e id k
  ⟨h.timeouts, h.now, h.current⟩

theorem foldl_min_mem (l : List (Nat × Nat)) (init : Option (Nat × Nat)) (x : Nat × Nat)
    (h : l.foldl (fun best x => match best with | none => some x | some b => if x.2 < b.2 then some x else some b) init = some x) :
    x ∈ l ∨ init = some x := by
  induction l generalizing init with
  | nil => right; simpa using h
  | cons y ys ih =>
    simp only [List.foldl] at h
    rcases ih _ h with h1 | h1
    · left; exact List.mem_cons_of_mem _ h1
    · cases init with
      | none => simp at h1; left; rw [h1]; exact List.mem_cons_self ..
      | some b =>
        simp only at h1
        split at h1
        · simp at h1; left; rw [h1]; exact List.mem_cons_self ..
        · right; exact h1

/-- the record chosen by `process_ack_timeouts` is a recorded one and never that of the operation being written -/
theorem nextDueTimeout_mem (e : Engine) (x : Nat × Nat) (h : e.nextDueTimeout = some x) :
    x ∈ e.timeouts ∧ e.current ≠ some x.1 := by
  unfold Engine.nextDueTimeout at h
  rcases foldl_min_mem _ none x h with h1 | h1
  · have := List.mem_filter.mp h1
    exact ⟨this.1, by simpa using this.2⟩
  · simp at h1

/-- **Never earlier than T.**  Whatever else happens in a service call, a recorded timeout whose deadline has
    not been reached is still recorded afterwards — its operation is not failed by the timeout pass. -/
theorem not_before_deadline : ∀ (fuel : Nat) (e : Engine) (x : Nat × Nat), x ∈ e.timeouts → x.2 > e.now →
    x ∈ (Engine.processAckTimeouts fuel e).1.timeouts
  | 0, e, x, hx, _ => by simpa [Engine.processAckTimeouts] using hx
  | fuel + 1, e, x, hx, hlate => by
    simp only [Engine.processAckTimeouts]
    cases hn : e.nextDueTimeout with
    | none => simpa using hx
    | some nd =>
      obtain ⟨id, deadline⟩ := nd
      simp only []
      split
      · rename_i hdue
        have hk := completeFailure_keeps_clock { e with timeouts := e.timeouts.erase (id, deadline) } id "AckTimeout"
        have hne : x ≠ (id, deadline) := by
          intro heq; rw [heq] at hlate; simp only at hlate; omega
        have hx' : x ∈ ({ e with timeouts := e.timeouts.erase (id, deadline) }.completeFailure id "AckTimeout").1.timeouts := by
          rw [hk.1]; exact (List.mem_erase_of_ne hne).mpr hx
        have hl' : x.2 > ({ e with timeouts := e.timeouts.erase (id, deadline) }.completeFailure id "AckTimeout").1.now := by
          rw [hk.2.1]; exact hlate
        exact not_before_deadline fuel _ x hx' hl'
      · simpa using hx

/-- **The operation still being written is not timed out**: its record survives the pass whatever its deadline
    (it is applied by the first pass after the packet is complete), and it does not hold back the others. -/
theorem current_operation_deferred : ∀ (fuel : Nat) (e : Engine) (x : Nat × Nat), x ∈ e.timeouts → e.current = some x.1 →
    x ∈ (Engine.processAckTimeouts fuel e).1.timeouts ∧ (Engine.processAckTimeouts fuel e).1.current = e.current
  | 0, e, x, hx, _ => by simp [Engine.processAckTimeouts]; exact hx
  | fuel + 1, e, x, hx, hcur => by
    simp only [Engine.processAckTimeouts]
    cases hn : e.nextDueTimeout with
    | none => exact ⟨by simpa using hx, rfl⟩
    | some nd =>
      obtain ⟨id, deadline⟩ := nd
      simp only []
      split
      · have hmem := nextDueTimeout_mem e (id, deadline) hn
        have hk := completeFailure_keeps_clock { e with timeouts := e.timeouts.erase (id, deadline) } id "AckTimeout"
        have hne : x ≠ (id, deadline) := by
          intro heq; rw [heq] at hcur; exact hmem.2 hcur
        have hx' : x ∈ ({ e with timeouts := e.timeouts.erase (id, deadline) }.completeFailure id "AckTimeout").1.timeouts := by
          rw [hk.1]; exact (List.mem_erase_of_ne hne).mpr hx
        have hc' : ({ e with timeouts := e.timeouts.erase (id, deadline) }.completeFailure id "AckTimeout").1.current = some x.1 := by
          rw [hk.2.2]; exact hcur
        have ih := current_operation_deferred fuel _ x hx' hc'
        exact ⟨ih.1, by rw [ih.2, hk.2.2]⟩
      · exact ⟨by simpa using hx, rfl⟩

/-- **At the first service at or after T**: one pass with the fuel `service` gives it leaves no record that is due —
    every elapsed timeout of an operation not being written has been applied when the pass returns, and the clock
    has not moved. -/
theorem pass_leaves_nothing_due : ∀ (fuel : Nat) (e : Engine), e.timeouts.length < fuel →
    ∀ id d, (Engine.processAckTimeouts fuel e).1.nextDueTimeout = some (id, d) →
      d > (Engine.processAckTimeouts fuel e).1.now
  | 0, e, h => by omega
  | fuel + 1, e, h => by
    intro id d
    simp only [Engine.processAckTimeouts]
    cases hn : e.nextDueTimeout with
    | none => intro hh; simp only [] at hh; rw [hn] at hh; cases hh
    | some nd =>
      obtain ⟨id0, d0⟩ := nd
      simp only []
      split
      · have hk := completeFailure_keeps_clock { e with timeouts := e.timeouts.erase (id0, d0) } id0 "AckTimeout"
        have hmem := (nextDueTimeout_mem e (id0, d0) hn).1
        have hlen : ({ e with timeouts := e.timeouts.erase (id0, d0) }.completeFailure id0 "AckTimeout").1.timeouts.length < fuel := by
          rw [hk.1]
          show (e.timeouts.erase (id0, d0)).length < fuel
          rw [List.length_erase_of_mem hmem]
          have : 0 < e.timeouts.length := List.length_pos_of_mem hmem
          omega
        exact pass_leaves_nothing_due fuel _ hlen id d
      · rename_i hnot
        intro hh
        simp only [] at hh
        rw [hn] at hh
        cases hh
        show d > e.now
        omega

/-- **The elapsed timeouts are applied before anything in the same service call can fail the connection**: a
    connected engine runs the pass first, so a keep-alive timeout or a write failure found by this very call
    does not carry the timed-out operations - as interrupted ones - over to the next connection. -/
theorem service_applies_due_timeouts_first (e : Engine) (cap prefill : Nat) (hst : e.state = .connected) :
    ((Engine.processAckTimeouts (e.timeouts.length + 1) e).2.isOk = false →
        e.serviceCore cap prefill = Engine.processAckTimeouts (e.timeouts.length + 1) e) ∧
    ((Engine.processAckTimeouts (e.timeouts.length + 1) e).2.isOk = true →
        e.serviceCore cap prefill =
          (let e0 := (Engine.processAckTimeouts (e.timeouts.length + 1) e).1
           let (ea, ra) := e0.serviceKeepAlive
           if !ra.isOk then (ea, ra)
           else
             let (eb, rb) := ea.serviceQueue true cap prefill
             if !rb.isOk then (eb, rb)
             else Engine.processAckTimeouts (eb.timeouts.length + 1) eb)) := by
  unfold Engine.serviceCore
  rw [hst]
  simp only []
  generalize Engine.processAckTimeouts (e.timeouts.length + 1) e = p0
  obtain ⟨e0, r0⟩ := p0
  constructor
  · intro h; simp only [] at h ⊢; simp [h]
  · intro h; simp only [] at h ⊢; simp [h]

/-- the pass stops only when the earliest record of the other operations is not yet due -/
theorem pass_continues_while_due (fuel : Nat) (e : Engine) (id d : Nat) (hn : e.nextDueTimeout = some (id, d)) (hdue : d ≤ e.now) :
    Engine.processAckTimeouts (fuel + 1) e =
      (let e1 := { e with timeouts := e.timeouts.erase (id, d) }
       let (e2, r) := e1.completeFailure id "AckTimeout"
       let (e3, r3) := Engine.processAckTimeouts fuel e2
       (e3, r.fold r3)) := by
  simp [Engine.processAckTimeouts, hn, hdue]

/-- **Never if the acknowledgement arrived first**: once an operation has completed it is no longer tracked,
    and a timeout record that outlives it fails nothing and reports nothing. -/
theorem stale_timeout_is_noop (e : Engine) (id : Nat) (k : String) (h : e.op? id = none) :
    e.completeFailure id k = (e, .ok) := by
  simp [Engine.completeFailure, h]

/-- **A due timeout fails its operation with the ack-timeout error** (user operation, still tracked, not the
    one being written). -/
theorem due_timeout_fails_operation (fuel : Nat) (e : Engine) (id d idx : Nat) (o : Op) (t : Option Nat)
    (hn : e.nextDueTimeout = some (id, d)) (hdue : d ≤ e.now)
    (ho : e.op? id = some o) (hu : o.user = some (idx, t)) (hnd : isDisconnect o.packet = false)
    (hss : o.slowStart = 0) :
    ∃ e1, ({ e with timeouts := e.timeouts.erase (id, d) } : Engine).completeFailure id "AckTimeout" = (e1, .ok) ∧
      e1.outComps = e.outComps ++ [(idx, .err "AckTimeout")] ∧ e1.op? id = none := by
  have ho' : ({ e with timeouts := e.timeouts.erase (id, d) } : Engine).op? id = some o := ho
  have hA : ∀ en : Engine, en.applyAckable o = some en := by
    intro en; simp [Engine.applyAckable, hss]
  have hD : ∀ en : Engine, en.applyDisconnectCompletion o = (en, .ok) := by
    intro en; simp [Engine.applyDisconnectCompletion, hnd]
  simp only [Engine.completeFailure, ho', hA, hD, hu, Res.isOk, Bool.not_true, Bool.false_eq_true, ↓reduceIte]
  refine ⟨_, rfl, ?_, ?_⟩
  · simp [Engine.emit, (releaseIds_ops _ o).2.1]
  · simp [Engine.emit, Engine.op?, (releaseIds_ops _ o).1, lookup_mapErase_self]

/-! ### interrupted-retry limit -/

/-- **Every disconnection adds one interruption to each operation that was sent but unacknowledged** (and
    to no other operation) when a limit is configured. -/
theorem interruption_counted (e e' : Engine) (limit : Nat) (hl : e.cfg.maxRetries = some limit)
    (h : e.updateInterrupted = some e') (id : Nat) (o : Op) (ho : (id, o) ∈ e.ops) :
    (id, { o with interruptions := o.interruptions + ((e.pendingNonPub.map (·.2)) ++ (e.pendingPub.map (·.2))).count id }) ∈ e'.ops := by
  simp only [Engine.updateInterrupted, hl, Option.isNone_some, Bool.false_eq_true, ↓reduceIte] at h
  split at h
  · simp only [Option.some.injEq] at h
    subst h
    simp only [List.mem_map]
    exact ⟨(id, o), ho, rfl⟩
  · simp at h

theorem no_limit_no_counting (e : Engine) (hl : e.cfg.maxRetries = none) : e.updateInterrupted = some e ∧ e.failExceeding = (e, .ok) := by
  simp [Engine.updateInterrupted, Engine.failExceeding, hl]

/-- the operations failed for exceeding the limit are exactly the unacknowledged ones whose count is above it -/
theorem exceeding_selection (e : Engine) (limit : Nat) (m : List (Nat × Nat)) (id : Nat) :
    id ∈ (m.map (·.2)).filter (fun id => match e.op? id with | some o => o.interruptions > limit | none => false) ↔
    (id ∈ m.map (·.2) ∧ ∃ o, e.op? id = some o ∧ o.interruptions > limit) := by
  simp only [List.mem_filter]
  constructor
  · rintro ⟨hm, hf⟩
    refine ⟨hm, ?_⟩
    cases ho : e.op? id with
    | none => simp [ho] at hf
    | some o => exact ⟨o, rfl, by simpa [ho] using hf⟩
  · rintro ⟨hm, o, ho, hgt⟩
    exact ⟨hm, by simp [ho, hgt]⟩

/-- **The close event applies what has elapsed before it drops the records** (D72): a connection that ends before any
    service call ran after an operation's deadline - the driver delivers the close, or first bytes that do not decode - does not
    carry that operation to the next connection with a fresh clock: the handler is the timeout pass followed by the rest. -/
theorem close_applies_elapsed_timeouts_first (e : Engine) (h : e.state ≠ .disconnected) :
    e.handleClosed =
      (let (ea, ra) := Engine.processAckTimeouts (e.timeouts.length + 1) e
       let (eb, rb) := ea.handleClosedCore
       (eb, (ignoreUserDisconnect ra).fold rb)) := by
  unfold Engine.handleClosed
  have hs : (e.state == .disconnected) = false := by simp [h]
  simp only [hs, Bool.false_eq_true, ↓reduceIte]

/-- ... and after that pass nothing that is due is left for the close to forget -/
theorem nothing_due_is_dropped_at_close (e : Engine) (id d : Nat)
    (hn : (Engine.processAckTimeouts (e.timeouts.length + 1) e).1.nextDueTimeout = some (id, d)) :
    d > (Engine.processAckTimeouts (e.timeouts.length + 1) e).1.now :=
  pass_leaves_nothing_due (e.timeouts.length + 1) e (Nat.lt_succ_self _) id d hn

/-! ### every history -/

/-- **Never for operations without a timeout - after any sequence of events, for any configuration**: every ack-timeout
    record names an operation number that has been handed out, and as long as that operation is tracked it is one that was
    submitted with an ack timeout and is not a QoS 0 publish.  (Part of the engine invariant: `Core.Ok.to`, kept by every
    function of the engine - records are added by `start_operation_ack_timeout` only, operation numbers are never
    re-used, and no update of an operation changes its kind or its owner.) -/
theorem timeout_records_only_for_operations_with_a_timeout (cfg : Config) (evs : List Event) (x : Nat × Nat)
    (hx : x ∈ (runEvents (Engine.new cfg) evs).1.timeouts) :
    x.1 < (runEvents (Engine.new cfg) evs).1.nextOpId ∧
    ∀ o, (runEvents (Engine.new cfg) evs).1.op? x.1 = some o → o.ackTimeout.isSome = true :=
  (inv_after cfg evs).1.to x hx

/-- ... so the timeout pass can never fail an operation that was submitted without an ack timeout, in any history -/
theorem operation_without_timeout_never_times_out (cfg : Config) (evs : List Event) (id : Nat) (o : Op)
    (ho : (runEvents (Engine.new cfg) evs).1.op? id = some o) (hn : o.ackTimeout = none) (d : Nat) :
    (id, d) ∉ (runEvents (Engine.new cfg) evs).1.timeouts := by
  intro hx
  have := (timeout_records_only_for_operations_with_a_timeout cfg evs (id, d) hx).2 o ho
  rw [hn] at this; cases this

/-- **Cleared on disconnect, in any history**: a Disconnected engine, and one waiting for its CONNACK, holds no ack-timeout
    record - an operation carried over to the next connection starts its clock again when it is written there. -/
theorem no_timeout_records_across_connections (cfg : Config) (evs : List Event)
    (hs : (runEvents (Engine.new cfg) evs).1.state = .disconnected ∨ (runEvents (Engine.new cfg) evs).1.state = .pendingConnack) :
    (runEvents (Engine.new cfg) evs).1.timeouts = [] := by
  have hinv := inv_after cfg evs
  have : (runEvents (Engine.new cfg) evs).1.view.noTimeouts = true := by
    rcases hs with h | h
    · exact (hinv.2.2.1 h).2.2.2.2.2
    · exact (hinv.2.1.h1 h).2.2.2.2
  simpa [Engine.view] using this

end GV.Props.C18
