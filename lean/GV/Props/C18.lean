import GV.Model.Engine
namespace GV.Props.C18
end GV.Props.C18
