import GV.Model.Client
namespace GV.Props.C19
end GV.Props.C19
