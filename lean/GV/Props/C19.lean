/-
  Props/C19.lean — Reconnect back-off doubles to the maximum; resets only after a stable connection.
  About Model/Client.lean `Backoff` (client/mod.rs: `ReconnectOptions::normalize`,
  `advance_reconnect_period`, `clamp_reconnect_period`, the reset in `transition_to_state`).
  Durations are nanoseconds; every accepted configuration value is at most `Duration::MAX`.
-/
import GV.Model.Client
namespace GV.Props.C19
open GV

/-- the effective (normalized) base and maximum -/
def effBase (base max : Nat) : Nat := if base > max then max else base
def effMax (base max : Nat) : Nat := Nat.max (if base > max then base else max) 1000000000

/-- **Normalisation.**  base > max is swapped, a maximum below one second is raised to one second, and the
    sequence starts from the effective base. -/
theorem create_normalizes (jitter : Bool) (base max stable : Nat) :
    let b := Backoff.create jitter base max stable
    b.base = effBase base max ∧ b.max = effMax base max ∧ b.next = effBase base max ∧ b.base ≤ b.max ∧ 1000000000 ≤ b.max := by
  simp only [Backoff.create, effBase, effMax]
  split <;> split <;> simp [Nat.max_def] <;> omega

theorem clamp_eq_min (b : Backoff) (p : Nat) : b.clamp p = min p b.max := by
  simp only [Backoff.clamp]; split <;> omega

/-- doubling with saturation at `Duration::MAX`, then clamping, is `min (2p) max` for any accepted maximum -/
theorem clamp_satDouble (b : Backoff) (p : Nat) (hm : b.max ≤ durationMaxNs) :
    b.clamp (satDouble p) = min (2 * p) b.max := by
  rw [clamp_eq_min]; simp only [satDouble]; split <;> omega

/-- iterate `advance` k times (random draws are irrelevant to the period) -/
def advanceN : Nat → Backoff → List Nat → Backoff
  | 0, b, _ => b
  | k + 1, b, rs => advanceN k (b.advance (rs.headD 0)).1 rs.tail

theorem advance_fields (b : Backoff) (r : Nat) :
    (b.advance r).1.base = b.base ∧ (b.advance r).1.max = b.max ∧ (b.advance r).1.jitter = b.jitter ∧ (b.advance r).1.stable = b.stable := by
  simp [Backoff.advance]

/-- **Closed form.**  After k consecutive waits the next period is `min (next₀ * 2^k) max`. -/
theorem next_after (k : Nat) : ∀ (b : Backoff) (rs : List Nat), b.max ≤ durationMaxNs → b.next ≤ b.max →
    (advanceN k b rs).next = min (b.next * 2 ^ k) b.max ∧ (advanceN k b rs).max = b.max ∧
    (advanceN k b rs).jitter = b.jitter ∧ (advanceN k b rs).base = b.base := by
  induction k with
  | zero => intro b rs _ h; simp [advanceN]; omega
  | succ k ih =>
    intro b rs hm hn
    simp only [advanceN]
    have hf := advance_fields b (rs.headD 0)
    have hnext : (b.advance (rs.headD 0)).1.next = min (2 * b.next) b.max := by
      simp only [Backoff.advance]; exact clamp_satDouble b b.next hm
    have h1 := ih (b.advance (rs.headD 0)).1 rs.tail (by rw [hf.2.1]; exact hm) (by rw [hnext, hf.2.1]; omega)
    rw [h1.1, h1.2.1, h1.2.2.1, h1.2.2.2, hnext, hf.2.1, hf.2.2.1, hf.1]
    refine ⟨?_, rfl, rfl, rfl⟩
    have hp : 0 < 2 ^ k := Nat.pow_pos (by omega)
    rw [Nat.pow_succ]
    by_cases hc : 2 * b.next ≤ b.max
    · rw [Nat.min_eq_left hc]; congr 1; rw [Nat.mul_comm (2 ^ k) 2, ← Nat.mul_assoc, Nat.mul_comm b.next 2]
    · have h2 : b.max ≤ 2 * b.next := by omega
      rw [Nat.min_eq_right h2]
      have h3 : b.max ≤ b.max * 2 ^ k := Nat.le_mul_of_pos_right _ hp
      have h4 : b.max ≤ b.next * (2 ^ k * 2) := by
        calc b.max ≤ 2 * b.next := h2
          _ = b.next * 2 := Nat.mul_comm _ _
          _ ≤ b.next * (2 ^ k * 2) := Nat.mul_le_mul_left _ (by omega)
      omega

/-- **The k-th consecutive wait without jitter is `min (base * 2^k) max`** (effective base and maximum),
    for every accepted configuration. -/
theorem kth_wait_no_jitter (base max stable : Nat) (k : Nat) (rs : List Nat)
    (hb : base ≤ durationMaxNs) (hm : max ≤ durationMaxNs) :
    ((advanceN k (Backoff.create false base max stable) rs).advance (rs.getD k 0)).2 =
      min (effBase base max * 2 ^ k) (effMax base max) := by
  have hc := create_normalizes false base max stable
  simp only [] at hc
  have hd : durationMaxNs = 18446744073709551615999999999 := by decide
  have hmax : (Backoff.create false base max stable).max ≤ durationMaxNs := by
    rw [hc.2.1, hd]; rw [hd] at hb hm; simp only [effMax, Nat.max_def]; split <;> split <;> omega
  have h := next_after k (Backoff.create false base max stable) rs hmax (by rw [hc.2.2.1, hc.2.1]; rw [← hc.1, ← hc.2.1]; exact hc.2.2.2.1)
  simp only [Backoff.advance]
  rw [h.2.2.1, h.1, hc.2.2.1, hc.2.1]
  simp [Backoff.create]

/-- **Jitter range.**  With uniform jitter the wait lies in `[0, period]`, the period being the same
    `min (base * 2^k) max`; in particular no wait ever exceeds the effective maximum. -/
theorem wait_within_period (b : Backoff) (r : Nat) : (b.advance r).2 ≤ b.next := by
  simp only [Backoff.advance]
  split
  · exact Nat.le_refl _
  · split
    · omega
    · rename_i hp
      have hpos : 0 < min b.next u64Max := by simp only [u64Max]; omega
      have := Nat.mod_lt r hpos
      omega

/-- with uniform jitter and a non-zero period the wait is strictly below the period (`gen_range(0..period)`) -/
theorem jitter_wait_below_period (b : Backoff) (r : Nat) (hj : b.jitter = true) (hp : b.next ≠ 0) : (b.advance r).2 < b.next := by
  simp only [Backoff.advance, hj, hp]
  have hpos : 0 < min b.next u64Max := by simp only [u64Max]; omega
  have := Nat.mod_lt r hpos
  simp
  omega

theorem wait_never_exceeds_max (k : Nat) (b : Backoff) (rs : List Nat) (r : Nat) (hm : b.max ≤ durationMaxNs) (hn : b.next ≤ b.max) :
    ((advanceN k b rs).advance r).2 ≤ b.max := by
  have h := next_after k b rs hm hn
  have := wait_within_period (advanceN k b rs) r
  rw [h.1] at this
  omega

/-- **Computing the wait never fails**: `advance` is total (no division by zero for a zero period, no
    overflow for periods near `Duration::MAX`) — it is a total function of the model, and the zero-period
    and saturation branches are the ones the implementation guards. -/
theorem zero_period_waits_zero (b : Backoff) (r : Nat) (h : b.next = 0) : (b.advance r).2 = 0 := by
  simp only [Backoff.advance, h]; split <;> simp

/-- **Reset only after a stable connection.**  Leaving a connection resets the sequence to the base period
    exactly when that connection had a successful CONNACK and stayed established longer than the stability
    period; otherwise the sequence continues. -/
theorem reset_iff_stable (b : Backoff) (lasted : Option Nat) :
    b.onConnectionEnd lasted = if (∃ d, lasted = some d ∧ d > b.stable) then { b with next := b.base } else b := by
  cases lasted with
  | none => simp [Backoff.onConnectionEnd]
  | some d =>
    simp only [Backoff.onConnectionEnd]
    by_cases h : d > b.stable <;> simp [h]

/-- non-vacuity: base 10 s > max 2 s: waits 2 s, 2 s (swapped and clamped); base 100 ms, max 1 s: 100, 200, 400, 800, 1000 -/
example : ((advanceN 3 (Backoff.create false 100000000 1000000000 0) []).advance 0).2 = 800000000 := by decide
example : ((advanceN 4 (Backoff.create false 100000000 1000000000 0) []).advance 0).2 = 1000000000 := by decide
example : ((advanceN 0 (Backoff.create false 10000000000 2000000000 0) []).advance 0).2 = 2000000000 := by decide


/-! ### whole histories of connection cycles

  One cycle = a connection (attempt) ends — `lasted` is the time it stayed established after a successful
  CONNACK, `none` if it never got one — and the client computes the wait before the next attempt.  A history
  is any list of cycles; nothing bounds its length or the pattern of stable / unstable connections. -/

/-- the waits the model computes over a history of cycles (`(lasted, random draw)` per cycle) -/
def waits : Backoff → List (Option Nat × Nat) → List Nat
  | _, [] => []
  | b, (l, r) :: t =>
    let b1 := b.onConnectionEnd l
    (b1.advance r).2 :: waits (b1.advance r).1 t

def isStable (stable : Nat) : Option Nat → Bool
  | some d => decide (d > stable)
  | none => false

/-- the specification: the wait is `min (base * 2^j) max`, `j` = number of cycles since the last stable
    connection (or since the start) -/
def specWaits (base max stable : Nat) : Nat → List (Option Nat × Nat) → List Nat
  | _, [] => []
  | j, (l, _) :: t =>
    let j' := if isStable stable l then 0 else j
    min (base * 2 ^ j') max :: specWaits base max stable (j' + 1) t

/-- pointwise `≤` of two lists of the same length -/
def AllLe : List Nat → List Nat → Prop
  | [], [] => True
  | a :: as, b :: bs => a ≤ b ∧ AllLe as bs
  | _, _ => False

theorem onConnectionEnd_next (b : Backoff) (l : Option Nat) (j : Nat) (hb : b.base ≤ b.max)
    (hn : b.next = min (b.base * 2 ^ j) b.max) :
    let b1 := b.onConnectionEnd l
    b1.next = min (b.base * 2 ^ (if isStable b.stable l then 0 else j)) b.max ∧
      b1.base = b.base ∧ b1.max = b.max ∧ b1.jitter = b.jitter ∧ b1.stable = b.stable := by
  cases l with
  | none => simp [Backoff.onConnectionEnd, isStable, hn]
  | some d =>
    simp only [Backoff.onConnectionEnd, isStable]
    by_cases h : d > b.stable
    · simp [h]; omega
    · simp [h, hn]

theorem advance_next (b : Backoff) (r j : Nat) (hm : b.max ≤ durationMaxNs)
    (hn : b.next = min (b.base * 2 ^ j) b.max) :
    (b.advance r).1.next = min (b.base * 2 ^ (j + 1)) b.max := by
  have h1 : (b.advance r).1.next = min (2 * b.next) b.max := by
    simp only [Backoff.advance]; exact clamp_satDouble b b.next hm
  rw [h1, hn, Nat.pow_succ, ← Nat.mul_assoc]
  omega

/-- **Every history, no jitter.**  Over any sequence of connection cycles the waits are exactly
    `min (base * 2^j) max` with `j` counting the cycles since the last stable connection: the sequence doubles
    to the maximum, restarts from the base after a stable connection and only then. -/
theorem waits_eq_spec : ∀ (hist : List (Option Nat × Nat)) (b : Backoff) (j : Nat), b.jitter = false →
    b.base ≤ b.max → b.max ≤ durationMaxNs → b.next = min (b.base * 2 ^ j) b.max →
    waits b hist = specWaits b.base b.max b.stable j hist := by
  intro hist
  induction hist with
  | nil => intros; rfl
  | cons c t ih =>
    obtain ⟨l, r⟩ := c
    intro b j hj hb hm hn
    have h1 := onConnectionEnd_next b l j hb hn
    simp only [] at h1
    obtain ⟨h1n, h1b, h1m, h1j, h1s⟩ := h1
    have hf := advance_fields (b.onConnectionEnd l) r
    have h2 := advance_next (b.onConnectionEnd l) r (if isStable b.stable l then 0 else j) (by rw [h1m]; exact hm)
      (by rw [h1n, h1b, h1m])
    simp only [waits, specWaits]
    rw [ih (b.onConnectionEnd l |>.advance r).1 ((if isStable b.stable l then 0 else j) + 1)
      (by rw [hf.2.2.1, h1j]; exact hj) (by rw [hf.1, hf.2.1, h1b, h1m]; exact hb) (by rw [hf.2.1, h1m]; exact hm)
      (by rw [hf.1, hf.2.1]; exact h2)]
    rw [hf.1, hf.2.1, hf.2.2.2, h1b, h1m, h1s]
    congr 1
    simp only [Backoff.advance, h1j, hj]
    simpa using h1n

/-- **Every history, with jitter.**  Each wait is at most the period the no-jitter sequence would use
    (hence never above the maximum), whatever the random draws. -/
theorem waits_le_spec : ∀ (hist : List (Option Nat × Nat)) (b : Backoff) (j : Nat),
    b.base ≤ b.max → b.max ≤ durationMaxNs → b.next = min (b.base * 2 ^ j) b.max →
    AllLe (waits b hist) (specWaits b.base b.max b.stable j hist) := by
  intro hist
  induction hist with
  | nil => intros; trivial
  | cons c t ih =>
    obtain ⟨l, r⟩ := c
    intro b j hb hm hn
    have h1 := onConnectionEnd_next b l j hb hn
    simp only [] at h1
    obtain ⟨h1n, h1b, h1m, h1j, h1s⟩ := h1
    have hf := advance_fields (b.onConnectionEnd l) r
    have h2 := advance_next (b.onConnectionEnd l) r (if isStable b.stable l then 0 else j) (by rw [h1m]; exact hm)
      (by rw [h1n, h1b, h1m])
    have h3 := ih (b.onConnectionEnd l |>.advance r).1 ((if isStable b.stable l then 0 else j) + 1)
      (by rw [hf.1, hf.2.1, h1b, h1m]; exact hb) (by rw [hf.2.1, h1m]; exact hm)
      (by rw [hf.1, hf.2.1]; exact h2)
    rw [hf.1, hf.2.1, hf.2.2.2, h1b, h1m, h1s] at h3
    simp only [waits, specWaits, AllLe]
    refine ⟨?_, h3⟩
    have := wait_within_period (b.onConnectionEnd l) r
    rw [h1n] at this
    exact this

/-- the configured client starts every history in the hypotheses of the two theorems (j = 0) -/
theorem create_starts_history (jitter : Bool) (base max stable : Nat) (hb : base ≤ durationMaxNs) (hm : max ≤ durationMaxNs) :
    let b := Backoff.create jitter base max stable
    b.base ≤ b.max ∧ b.max ≤ durationMaxNs ∧ b.next = min (b.base * 2 ^ 0) b.max := by
  have hc := create_normalizes jitter base max stable
  simp only [] at hc
  have hd : durationMaxNs = 18446744073709551615999999999 := by decide
  refine ⟨hc.2.2.2.1, ?_, ?_⟩
  · rw [hc.2.1, hd]; rw [hd] at hb hm; simp only [effMax, Nat.max_def]; split <;> split <;> omega
  · rw [hc.2.2.1, hc.1, hc.2.1]; have := hc.2.2.2.1; rw [hc.1, hc.2.1] at this; omega

/-- non-vacuity: base 1 s, max 8 s, stable 30 s; cycles: unstable ×4 (1,2,4,8 s), a 31 s connection (back to 1 s),
    a 30 s connection (not longer than the stability period: 2 s), never connected (4 s) -/
example : waits (Backoff.create false 1000000000 8000000000 30000000000)
    [(none, 0), (some 5, 0), (none, 0), (none, 0), (some 31000000000, 0), (some 30000000000, 0), (none, 0)] =
    [1000000000, 2000000000, 4000000000, 8000000000, 1000000000, 2000000000, 4000000000] := by decide

end GV.Props.C19
