/-
  Props/C19.lean — Reconnect back-off doubles to the maximum; resets only after a stable connection.
  About Model/Client.lean `Backoff` (client/mod.rs: `ReconnectOptions::normalize`,
  `advance_reconnect_period`, `clamp_reconnect_period`, the reset in `transition_to_state`).
  Durations are nanoseconds; every accepted configuration value is at most `Duration::MAX`.
-/
import GV.Model.Client
namespace GV.Props.C19
open GV

/-- the effective (normalized) base and maximum -/
def effBase (base max : Nat) : Nat := if base > max then max else base
def effMax (base max : Nat) : Nat := Nat.max (if base > max then base else max) 1000000000

/-- **Normalisation.**  base > max is swapped, a maximum below one second is raised to one second, and the
    sequence starts from the effective base. -/
theorem create_normalizes (jitter : Bool) (base max stable : Nat) :
    let b := Backoff.create jitter base max stable
    b.base = effBase base max ∧ b.max = effMax base max ∧ b.next = effBase base max ∧ b.base ≤ b.max ∧ 1000000000 ≤ b.max := by
  simp only [Backoff.create, effBase, effMax]
  split <;> split <;> simp [Nat.max_def] <;> omega

theorem clamp_eq_min (b : Backoff) (p : Nat) : b.clamp p = min p b.max := by
  simp only [Backoff.clamp]; split <;> omega

/-- doubling with saturation at `Duration::MAX`, then clamping, is `min (2p) max` for any accepted maximum -/
theorem clamp_satDouble (b : Backoff) (p : Nat) (hm : b.max ≤ durationMaxNs) :
    b.clamp (satDouble p) = min (2 * p) b.max := by
  rw [clamp_eq_min]; simp only [satDouble]; split <;> omega

/-- iterate `advance` k times (random draws are irrelevant to the period) -/
def advanceN : Nat → Backoff → List Nat → Backoff
  | 0, b, _ => b
  | k + 1, b, rs => advanceN k (b.advance (rs.headD 0)).1 rs.tail

theorem advance_fields (b : Backoff) (r : Nat) :
    (b.advance r).1.base = b.base ∧ (b.advance r).1.max = b.max ∧ (b.advance r).1.jitter = b.jitter ∧ (b.advance r).1.stable = b.stable := by
  simp [Backoff.advance]

/-- **Closed form.**  After k consecutive waits the next period is `min (next₀ * 2^k) max`. -/
theorem next_after (k : Nat) : ∀ (b : Backoff) (rs : List Nat), b.max ≤ durationMaxNs → b.next ≤ b.max →
    (advanceN k b rs).next = min (b.next * 2 ^ k) b.max ∧ (advanceN k b rs).max = b.max ∧
    (advanceN k b rs).jitter = b.jitter ∧ (advanceN k b rs).base = b.base := by
  induction k with
  | zero => intro b rs _ h; simp [advanceN]; omega
  | succ k ih =>
    intro b rs hm hn
    simp only [advanceN]
    have hf := advance_fields b (rs.headD 0)
    have hnext : (b.advance (rs.headD 0)).1.next = min (2 * b.next) b.max := by
      simp only [Backoff.advance]; exact clamp_satDouble b b.next hm
    have h1 := ih (b.advance (rs.headD 0)).1 rs.tail (by rw [hf.2.1]; exact hm) (by rw [hnext, hf.2.1]; omega)
    rw [h1.1, h1.2.1, h1.2.2.1, h1.2.2.2, hnext, hf.2.1, hf.2.2.1, hf.1]
    refine ⟨?_, rfl, rfl, rfl⟩
    have hp : 0 < 2 ^ k := Nat.pow_pos (by omega)
    rw [Nat.pow_succ]
    by_cases hc : 2 * b.next ≤ b.max
    · rw [Nat.min_eq_left hc]; congr 1; rw [Nat.mul_comm (2 ^ k) 2, ← Nat.mul_assoc, Nat.mul_comm b.next 2]
    · have h2 : b.max ≤ 2 * b.next := by omega
      rw [Nat.min_eq_right h2]
      have h3 : b.max ≤ b.max * 2 ^ k := Nat.le_mul_of_pos_right _ hp
      have h4 : b.max ≤ b.next * (2 ^ k * 2) := by
        calc b.max ≤ 2 * b.next := h2
          _ = b.next * 2 := Nat.mul_comm _ _
          _ ≤ b.next * (2 ^ k * 2) := Nat.mul_le_mul_left _ (by omega)
      omega

/-- **The k-th consecutive wait without jitter is `min (base * 2^k) max`** (effective base and maximum),
    for every accepted configuration. -/
theorem kth_wait_no_jitter (base max stable : Nat) (k : Nat) (rs : List Nat)
    (hb : base ≤ durationMaxNs) (hm : max ≤ durationMaxNs) :
    ((advanceN k (Backoff.create false base max stable) rs).advance (rs.getD k 0)).2 =
      min (effBase base max * 2 ^ k) (effMax base max) := by
  have hc := create_normalizes false base max stable
  simp only [] at hc
  have hd : durationMaxNs = 18446744073709551615999999999 := by decide
  have hmax : (Backoff.create false base max stable).max ≤ durationMaxNs := by
    rw [hc.2.1, hd]; rw [hd] at hb hm; simp only [effMax, Nat.max_def]; split <;> split <;> omega
  have h := next_after k (Backoff.create false base max stable) rs hmax (by rw [hc.2.2.1, hc.2.1]; rw [← hc.1, ← hc.2.1]; exact hc.2.2.2.1)
  simp only [Backoff.advance]
  rw [h.2.2.1, h.1, hc.2.2.1, hc.2.1]
  simp [Backoff.create]

/-- **Jitter range.**  With uniform jitter the wait lies in `[0, period]`, the period being the same
    `min (base * 2^k) max`; in particular no wait ever exceeds the effective maximum. -/
theorem wait_within_period (b : Backoff) (r : Nat) : (b.advance r).2 ≤ b.next := by
  simp only [Backoff.advance]
  split
  · exact Nat.le_refl _
  · split
    · omega
    · rename_i hp
      have hpos : 0 < min b.next u64Max := by simp only [u64Max]; omega
      have := Nat.mod_lt r hpos
      omega

theorem wait_never_exceeds_max (k : Nat) (b : Backoff) (rs : List Nat) (r : Nat) (hm : b.max ≤ durationMaxNs) (hn : b.next ≤ b.max) :
    ((advanceN k b rs).advance r).2 ≤ b.max := by
  have h := next_after k b rs hm hn
  have := wait_within_period (advanceN k b rs) r
  rw [h.1] at this
  omega

/-- **Computing the wait never fails**: `advance` is total (no division by zero for a zero period, no
    overflow for periods near `Duration::MAX`) — it is a total function of the model, and the zero-period
    and saturation branches are the ones the implementation guards. -/
theorem zero_period_waits_zero (b : Backoff) (r : Nat) (h : b.next = 0) : (b.advance r).2 = 0 := by
  simp only [Backoff.advance, h]; split <;> simp

/-- **Reset only after a stable connection.**  Leaving a connection resets the sequence to the base period
    exactly when that connection had a successful CONNACK and stayed established longer than the stability
    period; otherwise the sequence continues. -/
theorem reset_iff_stable (b : Backoff) (lasted : Option Nat) :
    b.onConnectionEnd lasted = if (∃ d, lasted = some d ∧ d > b.stable) then { b with next := b.base } else b := by
  cases lasted with
  | none => simp [Backoff.onConnectionEnd]
  | some d =>
    simp only [Backoff.onConnectionEnd]
    by_cases h : d > b.stable <;> simp [h]

/-- non-vacuity: base 10 s > max 2 s: waits 2 s, 2 s (swapped and clamped); base 100 ms, max 1 s: 100, 200, 400, 800, 1000 -/
example : ((advanceN 3 (Backoff.create false 100000000 1000000000 0) []).advance 0).2 = 800000000 := by decide
example : ((advanceN 4 (Backoff.create false 100000000 1000000000 0) []).advance 0).2 = 1000000000 := by decide
example : ((advanceN 0 (Backoff.create false 10000000000 2000000000 0) []).advance 0).2 = 2000000000 := by decide

end GV.Props.C19
