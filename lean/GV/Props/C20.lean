/-
  Props/C20.lean — AWS builder: safe client id, intact custom-auth parameters, 3.1.1 defaults if unset.
  The reader's side is `Spec.parseQuery` (Spec/Query.lean, written from RFC 3986, independent of the builder).
-/
import GV.Proofs.Query
namespace GV.Props.C20
open GV Spec

/-! ### custom authentication -/

/-- the parameters a configuration stands for, in order; `raw` is the signature as signed (before any encoding) -/
def expectedParams (a : CustomAuth) (raw : Bytes) : List (Bytes × Bytes) :=
  (match a.authorizer with | some n => [(authorizerKey, n)] | none => [])
  ++ (match a.signed with | some (_, k, v) => [(signatureKey, raw), (k, v)] | none => [])

/-- the signature as supplied stands for `raw`: it is `raw` itself (raw base64 contains no `%`), or any
    percent-encoding of it (either hex case) that either contains a `%` or needs none -/
def SignatureStandsFor (sig raw : Bytes) : Prop :=
  (sig = raw ∧ hasPct raw = false) ∨ (pctDecode sig = some raw ∧ (hasPct sig = true ∨ sig = raw))

/-- Percent-decoding undoes the builder's encoding for every byte string. -/
theorem percent_round_trip (s : Bytes) : pctDecode (pctEncode s) = some s := pctDecode_pctEncode s

/-- A raw signature (no `%`) goes out encoded once: it decodes back to itself. -/
theorem signature_raw (raw : Bytes) (h : hasPct raw = false) : pctDecode (finalSignature raw) = some raw := by
  simp [finalSignature, h, pctDecode_pctEncode]

/-- A pre-encoded signature is not encoded again: the query carries the same bytes as for the raw one,
    whatever the signature is. -/
theorem signature_preencoded_same_wire (raw : Bytes) (h : hasPct raw = false) :
    finalSignature (pctEncode raw) = finalSignature raw := by
  unfold finalSignature
  simp only [h, Bool.not_false, ↓reduceIte]
  cases hp : hasPct (pctEncode raw) with
  | true => simp
  | false =>
    have hu := unreserved_of_encode_no_pct raw hp
    simp [pctEncode_id_of_unreserved raw hu]

/-- Encoded exactly once, whether supplied raw or pre-encoded: the signature parameter decodes to the signed value. -/
theorem signature_encoded_once (sig raw : Bytes) (h : SignatureStandsFor sig raw) :
    pctDecode (finalSignature sig) = some raw := by
  rcases h with ⟨rfl, h⟩ | ⟨hd, hp | rfl⟩
  · exact signature_raw _ h
  · simp [finalSignature, hp, hd]
  · cases hp : hasPct sig with
    | true => simp [finalSignature, hp, hd]
    | false => exact signature_raw _ hp

theorem key_literals : pctDecode authorizerKey = some authorizerKey ∧ pctDecode signatureKey = some signatureKey := by
  decide +kernel

/-- segment-by-segment: each emitted parameter is `key=value` with both sides decodable to the expected pair -/
def Decodable : List Bytes → List (Bytes × Bytes) → Prop
  | [], [] => True
  | seg :: ss, kv :: kvs => (∃ k v, seg = k ++ 61 :: v ∧ pctDecode k = some kv.1 ∧ pctDecode v = some kv.2) ∧ Decodable ss kvs
  | _, _ => False

/-- every parameter the builder emits is `key=value` with both sides decodable to the configured pair -/
theorem params_decodable (a : CustomAuth) (raw : Bytes)
    (hs : ∀ sig k v, a.signed = some (sig, k, v) → SignatureStandsFor sig raw) :
    Decodable (queryParams a) (expectedParams a raw) := by
  unfold queryParams expectedParams
  cases hsg : a.signed with
  | none =>
    cases a.authorizer with
    | none => simp [Decodable]
    | some n => exact ⟨⟨_, _, rfl, key_literals.1, pctDecode_pctEncode n⟩, trivial⟩
  | some t =>
    obtain ⟨sig, k, v⟩ := t
    have h1 := signature_encoded_once sig raw (hs sig k v hsg)
    cases a.authorizer with
    | none =>
      exact ⟨⟨_, _, rfl, key_literals.2, h1⟩, ⟨_, _, rfl, pctDecode_pctEncode k, pctDecode_pctEncode v⟩, trivial⟩
    | some n =>
      exact ⟨⟨_, _, rfl, key_literals.1, pctDecode_pctEncode n⟩, ⟨_, _, rfl, key_literals.2, h1⟩,
        ⟨_, _, rfl, pctDecode_pctEncode k, pctDecode_pctEncode v⟩, trivial⟩

theorem mapAll_parsePair : ∀ (segs : List Bytes) (exp : List (Bytes × Bytes)), Decodable segs exp →
    mapAll parsePair segs = some exp ∧ ∀ s ∈ segs, ∀ b ∈ s, (b == 38) = false
  | [], [], _ => ⟨rfl, fun s hs => by cases hs⟩
  | [], _ :: _, h => by simp [Decodable] at h
  | _ :: _, [], h => by simp [Decodable] at h
  | seg :: ss, kv :: kvs, h => by
    obtain ⟨⟨k, v, rfl, hk, hv⟩, hrest⟩ := h
    have ih := mapAll_parsePair ss kvs hrest
    refine ⟨by simp [mapAll, parsePair_ok k v _ _ hk hv, ih.1], ?_⟩
    intro s hs
    rcases List.mem_cons.mp hs with rfl | hs
    · exact pair_no_amp k v _ _ hk hv
    · exact ih.2 s hs

/-- **Custom-auth username.**  The CONNECT username is the user's username, a `?`, and a query string that a
    standard reader parses (well-formed) into exactly the configured authorizer name, signature and token
    key/value, in that order — for all names, keys, values and usernames, and for every signature supplied raw
    or pre-encoded.  The password is the configured one. -/
theorem custom_auth_username (a : CustomAuth) (raw : Bytes)
    (hs : ∀ sig k v, a.signed = some (sig, k, v) → SignatureStandsFor sig raw) :
    ∃ q, a.build = ((a.username.getD []) ++ 63 :: q, a.password) ∧ parseQuery q = some (expectedParams a raw) := by
  refine ⟨joinAmp (queryParams a), rfl, ?_⟩
  have hp := params_decodable a raw hs
  have ⟨hm, hamp⟩ := mapAll_parsePair (queryParams a) (expectedParams a raw) hp
  by_cases hne : queryParams a = []
  · have : expectedParams a raw = [] := by
      rw [hne] at hp
      cases hx : expectedParams a raw with
      | nil => rfl
      | cons _ _ => rw [hx] at hp; simp [Decodable] at hp
    simp [parseQuery, hne, joinAmp, this]
  · have hq : (joinAmp (queryParams a)).isEmpty = false := by
      -- a non-empty parameter list joins to a non-empty string: every parameter contains `=`
      cases hqp : queryParams a with
      | nil => exact absurd hqp hne
      | cons x rest =>
        rw [hqp] at hp
        cases hx : expectedParams a raw with
        | nil => rw [hx] at hp; simp [Decodable] at hp
        | cons kv kvs =>
          rw [hx] at hp
          obtain ⟨⟨k, v, rfl, _, _⟩, _⟩ := hp
          cases rest <;> cases k <;> simp [joinAmp]
    unfold parseQuery
    rw [hq, splitAll_joinAmp _ hne hamp]
    simpa using hm

/-- non-vacuity: a signed configuration with hostile characters everywhere, signature supplied raw -/
example :
    let a : CustomAuth := { authorizer := some [38, 61], signed := some ([43, 47, 61], [37], [38, 38]), username := some [63] }
    (∀ sig k v, a.signed = some (sig, k, v) → SignatureStandsFor sig [43, 47, 61]) ∧
    parseQuery ((a.build).1.drop 2) = some (expectedParams a [43, 47, 61]) := by
  refine ⟨?_, by decide +kernel⟩
  intro sig k v h
  simp at h
  obtain ⟨rfl, _, _⟩ := h
  exact .inl ⟨rfl, by decide⟩

/-! ### final connect options -/

/-- The client id handed to the client is never empty (the generated id is a 36-character UUID). -/
theorem client_id_nonempty (auth : Option (Bytes × Option Bytes)) (uuid : Bytes) (o : ConnectOpts) (hu : uuid ≠ []) :
    ∃ c, (finalConnectOptions auth uuid o).clientId = some c ∧ c ≠ [] := by
  unfold finalConnectOptions
  cases hc : o.clientId with
  | none => cases auth <;> exact ⟨uuid, by simp, hu⟩
  | some c =>
    cases c with
    | nil => cases auth <;> exact ⟨uuid, by simp, hu⟩
    | cons x r => cases auth <;> exact ⟨x :: r, by simp [hc], by simp⟩

/-- A non-empty user client id is kept; otherwise the freshly generated one is used. -/
theorem client_id_kept_or_generated (auth : Option (Bytes × Option Bytes)) (uuid : Bytes) (o : ConnectOpts) :
    (finalConnectOptions auth uuid o).clientId =
      (match o.clientId with | some c => if c.isEmpty then some uuid else some c | none => some uuid) := by
  unfold finalConnectOptions
  cases hc : o.clientId with
  | none => cases auth <;> rfl
  | some c => cases c <;> cases auth <;> simp [hc]

/-- Without custom auth every other connect option is the user's. -/
theorem connect_options_preserved (uuid : Bytes) (o : ConnectOpts) :
    { finalConnectOptions none uuid o with clientId := o.clientId } = o := by
  unfold finalConnectOptions
  cases hc : o.clientId with
  | none => cases o; simp_all
  | some c => cases c <;> (cases o; simp_all)

/-- With custom auth the username is the built one, the password the configured one (the user's when none is
    configured), and every other connect option is the user's. -/
theorem connect_options_preserved_custom (u : Bytes) (p : Option Bytes) (uuid : Bytes) (o : ConnectOpts) :
    let f := finalConnectOptions (some (u, p)) uuid o
    f.username = some u ∧ f.password = (match p with | some p => some p | none => o.password) ∧
    { f with clientId := o.clientId, username := o.username, password := o.password } = o := by
  unfold finalConnectOptions
  cases hc : o.clientId with
  | none => cases o; cases p <;> simp_all
  | some c => cases c <;> (cases o; cases p <;> simp_all)

/-! ### 3.1.1 defaults -/

/-- The drain policy and retry limit are set exactly when the client is MQTT 3.1.1 and the user set neither;
    nothing else ever changes. -/
theorem defaults_only_when_unset (o : ClientOpts) :
    applyAwsDefaults o =
      if o.v311 = true ∧ o.drain = none ∧ o.retries = none then { o with drain := some true, retries := some 2 } else o := by
  unfold applyAwsDefaults
  cases o.v311 <;> cases o.drain <;> cases o.retries <;> simp

theorem defaults_keep_user_choice (o : ClientOpts) (h : o.v311 = false ∨ o.drain ≠ none ∨ o.retries ≠ none) :
    applyAwsDefaults o = o := by
  rw [defaults_only_when_unset]
  rcases h with h | h | h <;> simp [h]

end GV.Props.C20
