/-
  Spec/Codec.lean — a reference MQTT codec written from the OASIS MQTT 5.0 and 3.1.1 texts,
  independently of gneiss-mqtt: a decoder for the control packets a *client* sends and an encoder
  for the packets a *server* sends.  Properties are handled generically (identifier table of
  MQTT 5.0 section 2.2.2.2), in whatever order they appear on the wire.  This file is part of the
  trusted specification: it is the meaning of "well-formed" and "recovers the content".
-/
import GV.Model.Bytes
import GV.Model.Packets
import GV.Spec.Tables
namespace GV.Spec
open GV

inductive PropKind where
  | byte | two | four | vbi | str | bin | pair
  deriving Repr, BEq, DecidableEq

/-- MQTT 5.0 Table 2-4 -/
def propKind (id : Nat) : Option PropKind :=
  match id with
  | 1 => some .byte | 2 => some .four | 3 => some .str | 8 => some .str | 9 => some .bin
  | 11 => some .vbi | 17 => some .four | 18 => some .str | 19 => some .two | 21 => some .str
  | 22 => some .bin | 23 => some .byte | 24 => some .four | 25 => some .byte | 26 => some .str
  | 28 => some .str | 31 => some .str | 33 => some .two | 34 => some .two | 35 => some .two
  | 36 => some .byte | 37 => some .byte | 38 => some .pair | 39 => some .four | 40 => some .byte
  | 41 => some .byte | 42 => some .byte
  | _ => none

inductive PropVal where
  | num (n : Nat)
  | data (b : Bytes)
  | pair (k v : Bytes)
  deriving Repr, BEq, DecidableEq

structure Property where
  id : Nat
  val : PropVal
  deriving Repr, BEq, DecidableEq

/-! ### Variable Byte Integer (MQTT 5.0 section 1.5.5), by the algorithm in the text -/

def encVbi (n : Nat) : Bytes :=
  if n < 128 then [u8 n]
  else if n < 16384 then [u8 (n % 128 + 128), u8 (n / 128)]
  else if n < 2097152 then [u8 (n % 128 + 128), u8 (n / 128 % 128 + 128), u8 (n / 16384)]
  else [u8 (n % 128 + 128), u8 (n / 128 % 128 + 128), u8 (n / 16384 % 128 + 128), u8 (n / 2097152)]

/-- decode; at most four bytes -/
def decVbi : Bytes → Option (Nat × Bytes)
  | a :: r =>
    if a.toNat < 128 then some (a.toNat, r)
    else match r with
      | b :: r =>
        if b.toNat < 128 then some (a.toNat - 128 + b.toNat * 128, r)
        else match r with
          | c :: r =>
            if c.toNat < 128 then some (a.toNat - 128 + (b.toNat - 128) * 128 + c.toNat * 16384, r)
            else match r with
              | d :: r =>
                if d.toNat < 128 then
                  some (a.toNat - 128 + (b.toNat - 128) * 128 + (c.toNat - 128) * 16384 + d.toNat * 2097152, r)
                else none
              | [] => none
          | [] => none
      | [] => none
  | [] => none

def decU16 : Bytes → Option (Nat × Bytes)
  | a :: b :: r => some (a.toNat * 256 + b.toNat, r)
  | _ => none

def decU32 : Bytes → Option (Nat × Bytes)
  | a :: b :: c :: d :: r => some (((a.toNat * 256 + b.toNat) * 256 + c.toNat) * 256 + d.toNat, r)
  | _ => none

/-- two-byte length then that many bytes -/
def decBin (bs : Bytes) : Option (Bytes × Bytes) :=
  match decU16 bs with
  | none => none
  | some (n, r) => if r.length < n then none else some (r.take n, r.drop n)

/-- UTF-8 Encoded String (section 1.5.4): well-formed UTF-8; the null character is forbidden -/
def decStr (bs : Bytes) : Option (Bytes × Bytes) :=
  match decBin bs with
  | none => none
  | some (s, r) => if validUtf8 s && !s.contains 0 then some (s, r) else none

def decPropVal (k : PropKind) (bs : Bytes) : Option (PropVal × Bytes) :=
  match k with
  | .byte => match bs with
    | b :: r => some (.num b.toNat, r)
    | [] => none
  | .two => (decU16 bs).map (fun (n, r) => (.num n, r))
  | .four => (decU32 bs).map (fun (n, r) => (.num n, r))
  | .vbi => (decVbi bs).map (fun (n, r) => (.num n, r))
  | .str => (decStr bs).map (fun (s, r) => (.data s, r))
  | .bin => (decBin bs).map (fun (s, r) => (.data s, r))
  | .pair => match decStr bs with
    | none => none
    | some (k, r) => (decStr r).map (fun (v, r') => (.pair k v, r'))

/-- a property section body: identifiers are single-byte VBIs for every defined property -/
def decProps : Nat → Bytes → Option (List Property)
  | _, [] => some []
  | 0, _ => none
  | fuel + 1, id :: r =>
    match propKind id.toNat with
    | none => none
    | some k =>
      match decPropVal k r with
      | none => none
      | some (v, r') => (decProps fuel r').map (fun ps => { id := id.toNat, val := v } :: ps)

/-- length-prefixed property section -/
def decPropSection (bs : Bytes) : Option (List Property × Bytes) :=
  match decVbi bs with
  | none => none
  | some (n, r) =>
    if r.length < n then none
    else (decProps n (r.take n)).map (fun ps => (ps, r.drop n))

/-- allowed identifiers, and "MUST NOT appear more than once" (all but 38, and 11 in PUBLISH) -/
def nodupB : List Nat → Bool
  | [] => true
  | x :: xs => !xs.contains x && nodupB xs

def propsOk (allowed : List Nat) (multi : List Nat) (ps : List Property) : Bool :=
  ps.all (fun p => allowed.contains p.id) &&
  nodupB ((ps.filter (fun p => !multi.contains p.id)).map (·.id))

/-! ### packets a client sends, as the standard describes them -/

structure Will where
  qos : Nat
  retain : Bool
  props : List Property
  topic : Bytes
  payload : Bytes
  deriving Repr, BEq, DecidableEq

structure ConnectView where
  level : Nat
  cleanStart : Bool
  keepAlive : Nat
  props : List Property
  clientId : Bytes
  will : Option Will
  username : Option Bytes
  password : Option Bytes
  deriving Repr, BEq, DecidableEq

structure PublishView where
  dup : Bool
  qos : Nat
  retain : Bool
  topic : Bytes
  packetId : Option Nat
  props : List Property
  payload : Bytes
  deriving Repr, BEq, DecidableEq

structure AckView where
  packetId : Nat
  reasonCode : Nat
  props : List Property
  deriving Repr, BEq, DecidableEq

structure SubView where
  filter : Bytes
  qos : Nat
  noLocal : Bool
  retainAsPublished : Bool
  retainHandling : Nat
  deriving Repr, BEq, DecidableEq

inductive ClientPacket where
  | connect (c : ConnectView)
  | publish (p : PublishView)
  | puback (a : AckView)
  | pubrec (a : AckView)
  | pubrel (a : AckView)
  | pubcomp (a : AckView)
  | subscribe (packetId : Nat) (props : List Property) (subs : List SubView)
  | unsubscribe (packetId : Nat) (props : List Property) (filters : List Bytes)
  | pingreq
  | disconnect (reasonCode : Nat) (props : List Property)
  deriving Repr, BEq, DecidableEq

def topicNameOk (t : Bytes) : Bool := !t.contains 35 && !t.contains 43   -- no '#', no '+'

def decAckBody (v : Version) (codes : List Nat) (body : Bytes) : Option AckView :=
  match decU16 body with
  | none => none
  | some (pid, r) =>
    if pid = 0 then none
    else match v with
      | .v311 => if r.isEmpty then some { packetId := pid, reasonCode := 0, props := [] } else none
      | .v5 =>
        match r with
        | [] => some { packetId := pid, reasonCode := 0, props := [] }
        | rc :: r2 =>
          if !codes.contains rc.toNat then none
          else if r2.isEmpty then some { packetId := pid, reasonCode := rc.toNat, props := [] }
          else match decPropSection r2 with
            | none => none
            | some (ps, r3) =>
              if r3.isEmpty && propsOk [31, 38] [38] ps then some { packetId := pid, reasonCode := rc.toNat, props := ps }
              else none

def decSubs5 : Nat → Bytes → Option (List SubView)
  | _, [] => some []
  | 0, _ => none
  | fuel + 1, bs =>
    match decStr bs with
    | none => none
    | some (f, r) =>
      match r with
      | [] => none
      | o :: r' =>
        let n := o.toNat
        if n ≥ 64 || n % 4 = 3 || (n / 16) % 4 = 3 then none
        else (decSubs5 fuel r').map (fun l =>
          { filter := f, qos := n % 4, noLocal := (n / 4) % 2 = 1, retainAsPublished := (n / 8) % 2 = 1,
            retainHandling := (n / 16) % 4 } :: l)

def decSubs311 : Nat → Bytes → Option (List SubView)
  | _, [] => some []
  | 0, _ => none
  | fuel + 1, bs =>
    match decStr bs with
    | none => none
    | some (f, r) =>
      match r with
      | [] => none
      | o :: r' =>
        if o.toNat ≥ 3 then none
        else (decSubs311 fuel r').map (fun l =>
          { filter := f, qos := o.toNat, noLocal := false, retainAsPublished := false, retainHandling := 0 } :: l)

def decFilters : Nat → Bytes → Option (List Bytes)
  | _, [] => some []
  | 0, _ => none
  | fuel + 1, bs =>
    match decStr bs with
    | none => none
    | some (f, r) => (decFilters fuel r).map (f :: ·)

def decConnect (v : Version) (body : Bytes) : Option ConnectView :=
  -- protocol name "MQTT", level 5 or 4
  match body with
  | 0 :: 4 :: 77 :: 81 :: 84 :: 84 :: lvl :: flags :: r =>
    let level := lvl.toNat
    let f := flags.toNat
    if level ≠ (match v with | .v5 => 5 | .v311 => 4) then none
    else if f % 2 = 1 then none   -- reserved bit
    else
      let clean := (f / 2) % 2 = 1
      let willFlag := (f / 4) % 2 = 1
      let willQos := (f / 8) % 4
      let willRetain := (f / 32) % 2 = 1
      let passFlag := (f / 64) % 2 = 1
      let userFlag := (f / 128) % 2 = 1
      if willQos = 3 || (!willFlag && (willQos ≠ 0 || willRetain)) then none
      else if v == .v311 && passFlag && !userFlag then none
      else
        match decU16 r with
        | none => none
        | some (ka, r1) =>
          let propsPart : Option (List Property × Bytes) :=
            match v with
            | .v5 => decPropSection r1
            | .v311 => some ([], r1)
          match propsPart with
          | none => none
          | some (props, r2) =>
            if !propsOk [17, 33, 39, 34, 25, 23, 38, 21, 22] [38] props then none
            else match decStr r2 with
              | none => none
              | some (cid, r3) =>
                -- [MQTT-3.1.3-7] (3.1.1): a zero-byte client identifier requires CleanSession = 1
                if v == .v311 && cid.isEmpty && !clean then none else
                let willPart : Option (Option Will × Bytes) :=
                  if willFlag then
                    let wp : Option (List Property × Bytes) :=
                      match v with
                      | .v5 => decPropSection r3
                      | .v311 => some ([], r3)
                    match wp with
                    | none => none
                    | some (wprops, r4) =>
                      if !propsOk [24, 1, 2, 3, 8, 9, 38] [38] wprops then none
                      else match decStr r4 with
                        | none => none
                        | some (wt, r5) =>
                          if wt.isEmpty || !topicNameOk wt then none
                          else match decBin r5 with
                            | none => none
                            | some (wpay, r6) =>
                              some (some { qos := willQos, retain := willRetain, props := wprops, topic := wt, payload := wpay }, r6)
                  else some (none, r3)
                match willPart with
                | none => none
                | some (will, r7) =>
                  let userPart : Option (Option Bytes × Bytes) :=
                    if userFlag then (decStr r7).map (fun (u, r) => (some u, r)) else some (none, r7)
                  match userPart with
                  | none => none
                  | some (user, r8) =>
                    let passPart : Option (Option Bytes × Bytes) :=
                      if passFlag then (decBin r8).map (fun (u, r) => (some u, r)) else some (none, r8)
                    match passPart with
                    | none => none
                    | some (pass, r9) =>
                      if r9.isEmpty then
                        some { level := level, cleanStart := clean, keepAlive := ka, props := props, clientId := cid,
                               will := will, username := user, password := pass }
                      else none
  | _ => none

/-- decode one control packet body given its first byte -/
def decBody (v : Version) (first : Nat) (body : Bytes) : Option ClientPacket :=
  let ty := first / 16
  let flags := first % 16
  if ty = 1 then
    if flags ≠ 0 then none else (decConnect v body).map .connect
  else if ty = 3 then
    let qos := (flags / 2) % 4
    if qos = 3 then none
    else if qos = 0 && flags / 8 = 1 then none      -- DUP must be 0 for QoS 0
    else match decStr body with
      | none => none
      | some (topic, r) =>
        if !topicNameOk topic then none
        else
          let pidPart : Option (Option Nat × Bytes) :=
            if qos = 0 then some (none, r)
            else match decU16 r with
              | none => none
              | some (pid, r') => if pid = 0 then none else some (some pid, r')
          match pidPart with
          | none => none
          | some (pid, r2) =>
            match v with
            | .v311 =>
              if topic.isEmpty then none
              else some (.publish { dup := flags / 8 = 1, qos := qos, retain := flags % 2 = 1, topic := topic,
                                    packetId := pid, props := [], payload := r2 })
            | .v5 =>
              match decPropSection r2 with
              | none => none
              | some (ps, payload) =>
                -- a client must not send subscription identifiers (section 3.3.2.3.8)
                if !propsOk [1, 2, 35, 8, 9, 38, 3] [38] ps then none
                else if topic.isEmpty && !(ps.any (fun p => p.id = 35)) then none
                else if ps.any (fun p => p.id = 35 && p.val == .num 0) then none
                else if ps.any (fun p => p.id = 1 && !(p.val == .num 0 || p.val == .num 1)) then none
                else if ps.any (fun p => p.id = 8 && (match p.val with | .data t => t.isEmpty || !topicNameOk t | _ => true)) then none
                else some (.publish { dup := flags / 8 = 1, qos := qos, retain := flags % 2 = 1, topic := topic,
                                      packetId := pid, props := ps, payload := payload })
  else if ty = 4 then
    if flags ≠ 0 then none else (decAckBody v Spec.pubackCodes body).map .puback
  else if ty = 5 then
    if flags ≠ 0 then none else (decAckBody v Spec.pubrecCodes body).map .pubrec
  else if ty = 6 then
    if flags ≠ 2 then none else (decAckBody v Spec.pubrelCodes body).map .pubrel
  else if ty = 7 then
    if flags ≠ 0 then none else (decAckBody v Spec.pubcompCodes body).map .pubcomp
  else if ty = 8 then
    if flags ≠ 2 then none
    else match decU16 body with
      | none => none
      | some (pid, r) =>
        if pid = 0 then none
        else match v with
          | .v311 =>
            match decSubs311 r.length r with
            | some (s :: ss) => some (.subscribe pid [] (s :: ss))
            | _ => none
          | .v5 =>
            match decPropSection r with
            | none => none
            | some (ps, r2) =>
              if !propsOk [11, 38] [38] ps then none
              else if ps.any (fun p => p.id = 11 && p.val == .num 0) then none
              else match decSubs5 r2.length r2 with
                | some (s :: ss) => some (.subscribe pid ps (s :: ss))
                | _ => none
  else if ty = 10 then
    if flags ≠ 2 then none
    else match decU16 body with
      | none => none
      | some (pid, r) =>
        if pid = 0 then none
        else
          let propsPart : Option (List Property × Bytes) :=
            match v with
            | .v5 => decPropSection r
            | .v311 => some ([], r)
          match propsPart with
          | none => none
          | some (ps, r2) =>
            if !propsOk [38] [38] ps then none
            else match decFilters r2.length r2 with
              | some (f :: fs) => some (.unsubscribe pid ps (f :: fs))
              | _ => none
  else if ty = 12 then
    if flags = 0 && body.isEmpty then some .pingreq else none
  else if ty = 14 then
    if flags ≠ 0 then none
    else match v with
      | .v311 => if body.isEmpty then some (.disconnect 0 []) else none
      | .v5 =>
        match body with
        | [] => some (.disconnect 0 [])
        | rc :: r =>
          if !Spec.disconnectCodes.contains rc.toNat then none
          else if r.isEmpty then some (.disconnect rc.toNat [])
          else match decPropSection r with
            | none => none
            | some (ps, r2) =>
              if r2.isEmpty && propsOk [17, 31, 38, 28] [38] ps then some (.disconnect rc.toNat ps) else none
  else none

/-- Decode exactly one control packet from the front of a stream: fixed header, Remaining Length,
    then a body of exactly that many bytes.  `none` = malformed or incomplete. -/
def decodeOne (v : Version) (bs : Bytes) : Option (ClientPacket × Bytes) :=
  match bs with
  | [] => none
  | first :: r =>
    match decVbi r with
    | none => none
    | some (rl, r2) =>
      if r2.length < rl then none
      else (decBody v first.toNat (r2.take rl)).map (fun p => (p, r2.drop rl))

/-- Decode a whole stream into packets; stops at the first malformed or incomplete packet and
    reports how many bytes were left over. -/
def decodeStream (v : Version) : Nat → Bytes → List ClientPacket × Nat
  | 0, bs => ([], bs.length)
  | _, [] => ([], 0)
  | fuel + 1, bs =>
    match decodeOne v bs with
    | none => ([], bs.length)
    | some (p, rest) =>
      let (ps, left) := decodeStream v fuel rest
      (p :: ps, left)

/-! ### packets a server sends: reference encoder.  Properties are given as a list in any order. -/

def encU16 (n : Nat) : Bytes := [u8 (n / 256), u8 n]
def encU32 (n : Nat) : Bytes := [u8 (n / 16777216), u8 (n / 65536), u8 (n / 256), u8 n]
def encBin (b : Bytes) : Bytes := encU16 b.length ++ b

def encProp (p : Property) : Bytes :=
  u8 p.id ::
  (match propKind p.id, p.val with
   | some .byte, .num n => [u8 n]
   | some .two, .num n => encU16 n
   | some .four, .num n => encU32 n
   | some .vbi, .num n => encVbi n
   | some .str, .data b => encBin b
   | some .bin, .data b => encBin b
   | some .pair, .pair k v => encBin k ++ encBin v
   | _, _ => [])

def encPropSection (ps : List Property) : Bytes :=
  let body := ps.flatMap encProp
  encVbi body.length ++ body

inductive ServerPacket where
  | connack (sessionPresent : Bool) (reasonCode : Nat) (props : List Property)
  | publish (dup : Bool) (qos : Nat) (retain : Bool) (topic : Bytes) (packetId : Nat) (props : List Property) (payload : Bytes)
  | puback (packetId reasonCode : Nat) (props : List Property)
  | pubrec (packetId reasonCode : Nat) (props : List Property)
  | pubrel (packetId reasonCode : Nat) (props : List Property)
  | pubcomp (packetId reasonCode : Nat) (props : List Property)
  | suback (packetId : Nat) (props : List Property) (codes : List Nat)
  | unsuback (packetId : Nat) (props : List Property) (codes : List Nat)
  | pingresp
  | disconnect (reasonCode : Nat) (props : List Property)
  deriving Repr, BEq, DecidableEq

def frame (first : Nat) (body : Bytes) : Bytes := u8 first :: (encVbi body.length ++ body)

/-- `short`: use the abbreviated forms the standard allows (omit reason code 0 / empty property
    section where "the Reason Code and Property Length can be omitted"). -/
def encAck (v : Version) (first : Nat) (pid rc : Nat) (ps : List Property) (short : Bool) : Bytes :=
  match v with
  | .v311 => frame first (encU16 pid)
  | .v5 =>
    if short && ps.isEmpty && rc = 0 then frame first (encU16 pid)
    else if short && ps.isEmpty then frame first (encU16 pid ++ [u8 rc])
    else frame first (encU16 pid ++ [u8 rc] ++ encPropSection ps)

def connack311Code (rc : Nat) : Nat :=
  match rc with
  | 0 => 0 | 132 => 1 | 133 => 2 | 136 => 3 | 134 => 4 | 135 => 5 | _ => 255

def encodeServer (v : Version) (short : Bool) : ServerPacket → Bytes
  | .connack sp rc ps =>
    (match v with
     | .v5 => frame 32 ([u8 (if sp then 1 else 0), u8 rc] ++ encPropSection ps)
     | .v311 => frame 32 [u8 (if sp then 1 else 0), u8 (connack311Code rc)])
  | .publish dup qos retain topic pid ps payload =>
    let first := 48 + (if dup then 8 else 0) + qos * 2 + (if retain then 1 else 0)
    frame first (encBin topic ++ (if qos = 0 then [] else encU16 pid)
      ++ (match v with | .v5 => encPropSection ps | .v311 => []) ++ payload)
  | .puback pid rc ps => encAck v 64 pid rc ps short
  | .pubrec pid rc ps => encAck v 80 pid rc ps short
  | .pubrel pid rc ps => encAck v 98 pid rc ps short
  | .pubcomp pid rc ps => encAck v 112 pid rc ps short
  | .suback pid ps codes =>
    frame 144 (encU16 pid ++ (match v with | .v5 => encPropSection ps | .v311 => []) ++ codes.map u8)
  | .unsuback pid ps codes =>
    (match v with
     | .v5 => frame 176 (encU16 pid ++ encPropSection ps ++ codes.map u8)
     | .v311 => frame 176 (encU16 pid))
  | .pingresp => frame 208 []
  | .disconnect rc ps =>
    (match v with
     | .v311 => frame 224 []   -- not a legal server packet in 3.1.1; kept so the function is total
     | .v5 =>
       if short && ps.isEmpty && rc = 0 then frame 224 []
       else if short && ps.isEmpty then frame 224 [u8 rc]
       else frame 224 ([u8 rc] ++ encPropSection ps))

end GV.Spec
