/-
  Spec/Interp.lean — the two bridges between the standard's view of a packet (Spec/Codec) and the
  library's data model (Model/Packets):

  * `interp v sp`  : what a conformant client must hand to the application for server packet `sp`
                     (property lookup by identifier, whatever the wire order was);
  * `canon v r p`  : the standard's view of what the application asked the client to send with
                     packet `p` under alias resolution `r` (properties in the library's order).
-/
import GV.Spec.Codec
import GV.Model.Encode
namespace GV.Spec
open GV

def findNum (ps : List Property) (id : Nat) : Option Nat :=
  match ps.find? (fun p => p.id = id) with
  | some { val := .num n, .. } => some n
  | _ => none

def findData (ps : List Property) (id : Nat) : Option Bytes :=
  match ps.find? (fun p => p.id = id) with
  | some { val := .data b, .. } => some b
  | _ => none

def findBool (ps : List Property) (id : Nat) : Option Bool := (findNum ps id).map (· != 0)

def userPropsOf (ps : List Property) : UserProps :=
  let l := ps.filterMap (fun p => match p.id, p.val with
    | 38, .pair k v => some ({ name := k, value := v } : UserProperty)
    | _, _ => none)
  if l.isEmpty then none else some l

def subIdsOf (ps : List Property) : Option (List Nat) :=
  let l := ps.filterMap (fun p => match p.id, p.val with
    | 11, .num n => some n
    | _, _ => none)
  if l.isEmpty then none else some l

def ackOf (v : Version) (pid rc : Nat) (ps : List Property) : Ack :=
  match v with
  | .v5 => { packetId := pid, reasonCode := rc, reasonString := findData ps 31, userProps := userPropsOf ps }
  | .v311 => { packetId := pid }

/-- The library-level content of a server packet. -/
def interp (v : Version) : ServerPacket → Packet
  | .connack sp rc ps =>
    (match v with
     | .v311 => .connack { sessionPresent := sp, reasonCode := rc }
     | .v5 => .connack {
        sessionPresent := sp, reasonCode := rc,
        sessionExpiry := findNum ps 17, receiveMaximum := findNum ps 33, maximumQos := findNum ps 36,
        retainAvailable := findBool ps 37, maximumPacketSize := findNum ps 39,
        assignedClientId := findData ps 18, topicAliasMaximum := findNum ps 34,
        reasonString := findData ps 31, userProps := userPropsOf ps,
        wildcardSubsAvailable := findBool ps 40, subIdsAvailable := findBool ps 41,
        sharedSubsAvailable := findBool ps 42, serverKeepAlive := findNum ps 19,
        responseInformation := findData ps 26, serverReference := findData ps 28,
        authMethod := findData ps 21, authData := findData ps 22 })
  | .publish dup qos retain topic pid ps payload =>
    let base : Publish := { packetId := if qos = 0 then 0 else pid, topic := topic, qos := qos, dup := dup,
                            retain := retain, payload := if payload.isEmpty then none else some payload }
    (match v with
     | .v311 => .publish base
     | .v5 => .publish { base with
        payloadFormat := findNum ps 1, messageExpiry := findNum ps 2, topicAlias := findNum ps 35,
        responseTopic := findData ps 8, correlationData := findData ps 9, subscriptionIds := subIdsOf ps,
        contentType := findData ps 3, userProps := userPropsOf ps })
  | .puback pid rc ps => .puback (ackOf v pid rc ps)
  | .pubrec pid rc ps => .pubrec (ackOf v pid rc ps)
  | .pubrel pid rc ps => .pubrel (ackOf v pid rc ps)
  | .pubcomp pid rc ps => .pubcomp (ackOf v pid rc ps)
  | .suback pid ps codes =>
    (match v with
     | .v5 => .suback { packetId := pid, reasonString := findData ps 31, userProps := userPropsOf ps, reasonCodes := codes }
     | .v311 => .suback { packetId := pid, reasonCodes := codes })
  | .unsuback pid ps codes =>
    (match v with
     | .v5 => .unsuback { packetId := pid, reasonString := findData ps 31, userProps := userPropsOf ps, reasonCodes := codes }
     | .v311 => .unsuback { packetId := pid })
  | .pingresp => .pingresp
  | .disconnect rc ps =>
    (match v with
     | .v5 => .disconnect { reasonCode := rc, sessionExpiry := findNum ps 17, reasonString := findData ps 31,
                            userProps := userPropsOf ps, serverReference := findData ps 28 }
     | .v311 => .disconnect {})

/-! ### validity of a server packet per the standard (what `Spec.encodeServer` may be applied to) -/

def propValOk (p : Property) : Bool :=
  match propKind p.id, p.val with
  | some .byte, .num n => n < 256
  | some .two, .num n => n < 65536
  | some .four, .num n => n < 4294967296
  | some .vbi, .num n => n < 268435456
  | some .str, .data b => b.length < 65536 && validUtf8 b
  | some .bin, .data b => b.length < 65536
  | some .pair, .pair k v => k.length < 65536 && v.length < 65536 && validUtf8 k && validUtf8 v
  | _, _ => false

def boolProps : List Nat := [37, 40, 41, 42]

def serverProps (allowed multi : List Nat) (ps : List Property) : Bool :=
  propsOk allowed multi ps && ps.all propValOk
  && ps.all (fun p => !boolProps.contains p.id || p.val == .num 0 || p.val == .num 1)

def ServerPacket.valid (v : Version) : ServerPacket → Bool
  | .connack _ rc ps =>
    (match v with
     | .v5 => connackCodes.contains rc
        && serverProps [17, 33, 36, 37, 39, 18, 34, 31, 38, 40, 41, 42, 19, 26, 28, 21, 22] [38] ps
        && ps.all (fun p => p.id ≠ 36 || p.val == .num 0 || p.val == .num 1)
     | .v311 => [0, 132, 133, 136, 134, 135].contains rc && ps.isEmpty)
  | .publish _ qos _ topic pid ps payload =>
    qos < 3 && topic.length < 65536 && validUtf8 topic && (qos = 0 || (0 < pid && pid < 65536))
    && payload.length < 268435456
    && (match v with
        | .v5 => serverProps [1, 2, 35, 8, 9, 38, 11, 3] [38, 11] ps
                 && ps.all (fun p => p.id ≠ 1 || p.val == .num 0 || p.val == .num 1)
        | .v311 => ps.isEmpty)
  | .puback pid rc ps => pid < 65536 && (match v with | .v5 => pubackCodes.contains rc && serverProps [31, 38] [38] ps | .v311 => rc = 0 && ps.isEmpty)
  | .pubrec pid rc ps => pid < 65536 && (match v with | .v5 => pubrecCodes.contains rc && serverProps [31, 38] [38] ps | .v311 => rc = 0 && ps.isEmpty)
  | .pubrel pid rc ps => pid < 65536 && (match v with | .v5 => pubrelCodes.contains rc && serverProps [31, 38] [38] ps | .v311 => rc = 0 && ps.isEmpty)
  | .pubcomp pid rc ps => pid < 65536 && (match v with | .v5 => pubcompCodes.contains rc && serverProps [31, 38] [38] ps | .v311 => rc = 0 && ps.isEmpty)
  | .suback pid ps codes =>
    pid < 65536 && (match v with
      | .v5 => codes.all subackCodes.contains && serverProps [31, 38] [38] ps
      | .v311 => codes.all suback311Codes.contains && ps.isEmpty)
  | .unsuback pid ps codes =>
    pid < 65536 && (match v with
      | .v5 => codes.all unsubackCodes.contains && serverProps [31, 38] [38] ps
      | .v311 => codes.isEmpty && ps.isEmpty)
  | .pingresp => true
  | .disconnect rc ps =>
    (match v with
     | .v5 => disconnectCodes.contains rc && serverProps [31, 38, 28] [38] ps
     | .v311 => false)

/-! ### `canon`: the standard's view of an outbound library packet -/

def propsOfUser : UserProps → List Property
  | none => []
  | some l => l.map (fun p => { id := 38, val := .pair p.name p.value })

def optNumProp (id : Nat) : Option Nat → List Property
  | none => []
  | some n => [{ id := id, val := .num n }]

def optBoolProp (id : Nat) : Option Bool → List Property
  | none => []
  | some b => [{ id := id, val := .num (if b then 1 else 0) }]

def optDataProp (id : Nat) : Option Bytes → List Property
  | none => []
  | some b => [{ id := id, val := .data b }]

def canonAck (v : Version) (a : Ack) : AckView :=
  match v with
  | .v5 => { packetId := a.packetId, reasonCode := a.reasonCode,
             props := optDataProp 31 a.reasonString ++ propsOfUser a.userProps }
  | .v311 => { packetId := a.packetId, reasonCode := 0, props := [] }

def canonWill (v : Version) (c : Connect) (w : Publish) : Will :=
  { qos := w.qos, retain := w.retain, topic := w.topic, payload := w.payload.getD [],
    props := match v with
      | .v311 => []
      | .v5 => optNumProp 24 c.willDelay ++ optNumProp 1 w.payloadFormat ++ optNumProp 2 w.messageExpiry
        ++ optDataProp 3 w.contentType ++ optDataProp 8 w.responseTopic ++ optDataProp 9 w.correlationData
        ++ propsOfUser w.userProps }

def canon (v : Version) (r : Resolution) : Packet → Option ClientPacket
  | .connect c => some (.connect {
      level := (match v with | .v5 => 5 | .v311 => 4), cleanStart := c.cleanStart, keepAlive := c.keepAlive,
      props := (match v with
        | .v311 => []
        | .v5 => optNumProp 17 c.sessionExpiry ++ optNumProp 33 c.receiveMaximum ++ optNumProp 39 c.maximumPacketSize
          ++ optNumProp 34 c.topicAliasMaximum ++ optBoolProp 25 c.requestResponseInfo
          ++ optBoolProp 23 c.requestProblemInfo ++ optDataProp 21 c.authMethod ++ optDataProp 22 c.authData
          ++ propsOfUser c.userProps),
      clientId := c.clientId.getD [], will := c.will.map (canonWill v c),
      username := c.username, password := c.password })
  | .publish p => some (.publish {
      dup := p.dup, qos := p.qos, retain := p.retain,
      topic := (match v with | .v5 => if r.skipTopic then [] else p.topic | .v311 => p.topic),
      packetId := if p.qos = 0 then none else some p.packetId,
      props := (match v with
        | .v311 => []
        | .v5 => optNumProp 1 p.payloadFormat ++ optNumProp 2 p.messageExpiry ++ optNumProp 35 r.alias
          ++ optDataProp 8 p.responseTopic ++ optDataProp 9 p.correlationData
          ++ optDataProp 3 p.contentType ++ propsOfUser p.userProps),
      payload := p.payload.getD [] })
  | .puback a => some (.puback (canonAck v a))
  | .pubrec a => some (.pubrec (canonAck v a))
  | .pubrel a => some (.pubrel (canonAck v a))
  | .pubcomp a => some (.pubcomp (canonAck v a))
  | .subscribe s => some (.subscribe s.packetId
      (match v with | .v311 => [] | .v5 => optNumProp 11 s.subscriptionId ++ propsOfUser s.userProps)
      (s.subscriptions.map (fun x => match v with
        | .v5 => { filter := x.topicFilter, qos := x.qos, noLocal := x.noLocal,
                   retainAsPublished := x.retainAsPublished, retainHandling := x.retainHandling }
        | .v311 => { filter := x.topicFilter, qos := x.qos, noLocal := false, retainAsPublished := false,
                     retainHandling := 0 })))
  | .unsubscribe u => some (.unsubscribe u.packetId
      (match v with | .v311 => [] | .v5 => propsOfUser u.userProps) u.topicFilters)
  | .pingreq => some .pingreq
  | .disconnect d => some (match v with
      | .v311 => .disconnect 0 []
      | .v5 => .disconnect d.reasonCode (optNumProp 17 d.sessionExpiry ++ optDataProp 31 d.reasonString
          ++ optDataProp 28 d.serverReference ++ propsOfUser d.userProps))
  | _ => none

end GV.Spec
