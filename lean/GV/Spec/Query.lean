/-
  Spec/Query.lean — the reader's side of a URL query string (RFC 3986 percent-encoding, `&`-separated
  `key=value` pairs), written from the standard and independent of the builder's code.
-/
import GV.Model.Bytes
namespace GV.Spec

/-- RFC 3986 unreserved characters -/
def isUnreserved (b : UInt8) : Bool :=
  (48 ≤ b && b ≤ 57) || (65 ≤ b && b ≤ 90) || (97 ≤ b && b ≤ 122) || b == 45 || b == 95 || b == 46 || b == 126

/-- value of a hex digit, either case -/
def hexVal (b : UInt8) : Option UInt8 :=
  if 48 ≤ b && b ≤ 57 then some (b - 48)
  else if 65 ≤ b && b ≤ 70 then some (b - 55)
  else if 97 ≤ b && b ≤ 102 then some (b - 87)
  else none

def pctCombine : Option UInt8 → Option UInt8 → Option Bytes → Option Bytes
  | some a, some b, some t => some ((a * 16 + b) :: t)
  | _, _, _ => none

/-- strict percent-decoding: unreserved bytes stand for themselves, `%XX` for a byte, anything else is malformed -/
def pctDecode : Bytes → Option Bytes
  | [] => some []
  | 37 :: h :: l :: r => pctCombine (hexVal h) (hexVal l) (pctDecode r)
  | b :: r => if isUnreserved b then (pctDecode r).map (b :: ·) else none

/-- split at every occurrence of `sep` -/
def splitAll (sep : UInt8) : Bytes → List Bytes
  | [] => [[]]
  | b :: r =>
    if b == sep then [] :: splitAll sep r
    else match splitAll sep r with
      | [] => [[b]]
      | x :: xs => (b :: x) :: xs

/-- split at the first occurrence of `sep` -/
def splitFirst (sep : UInt8) : Bytes → Option (Bytes × Bytes)
  | [] => none
  | b :: r => if b == sep then some ([], r) else (splitFirst sep r).map (fun (k, v) => (b :: k, v))

def parsePair (part : Bytes) : Option (Bytes × Bytes) :=
  match splitFirst 61 part with
  | some (k, v) => (match pctDecode k, pctDecode v with | some k', some v' => some (k', v') | _, _ => none)
  | none => none

def mapAll {α β} (f : α → Option β) : List α → Option (List β)
  | [] => some []
  | x :: xs => (match f x, mapAll f xs with | some y, some ys => some (y :: ys) | _, _ => none)

/-- the decoded parameters of a query string, in order; `none` when it is not well-formed -/
def parseQuery (q : Bytes) : Option (List (Bytes × Bytes)) :=
  if q.isEmpty then some [] else mapAll parsePair (splitAll 38 q)

end GV.Spec
