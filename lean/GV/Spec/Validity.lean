/-
  Spec/Validity.lean — what the OASIS texts require of a packet a client sends: static rules
  (MQTT 5.0 sections 1.5, 3.3, 3.8, 3.10, 3.14, 4.7, 4.8) and the limits a server announces in its
  CONNACK (3.2.2.3).  Written from the standard, independent of the repository.
-/
import GV.Model.Packets
namespace GV.Spec
open GV

/-- split at '/' -/
def levels : Bytes → List Bytes
  | [] => [[]]
  | b :: r =>
    match levels r with
    | [] => [[b]]
    | l :: ls => if b = 47 then [] :: l :: ls else (b :: l) :: ls

def hasWildChar (l : Bytes) : Bool := l.contains 35 || l.contains 43

/-- 4.7.1: '+' occupies a whole level; '#' is a whole level and the last one -/
def levelsOk : List Bytes → Bool
  | [] => true
  | [l] => !hasWildChar l || l.length = 1
  | l :: ls => (!hasWildChar l || l == [43]) && levelsOk ls

/-- a Topic Filter (4.7): at least one character, at most 65535 bytes, wildcards well placed -/
def plainFilterOk (f : Bytes) : Bool := !f.isEmpty && f.length ≤ 65535 && levelsOk (levels f)

def sharePrefix : Bytes := [36, 115, 104, 97, 114, 101]

inductive FilterClass where
  | invalid
  | plain (wild : Bool)
  | shared (wild : Bool)
  deriving Repr, BEq, DecidableEq

def joinLevels : List Bytes → Bytes
  | [] => []
  | [l] => l
  | l :: ls => l ++ [47] ++ joinLevels ls

/-- 4.8.2: `$share/{ShareName}/{filter}`; ShareName at least one character without '/', '+', '#';
    the remainder is a Topic Filter -/
def classify (f : Bytes) : FilterClass :=
  if f.isEmpty || f.length > 65535 || f.contains 0 then .invalid
  else match levels f with
    | first :: rest =>
      if first == sharePrefix then
        (match rest with
         | name :: tail =>
           let inner := joinLevels tail
           if name.isEmpty || hasWildChar name || tail.isEmpty || !plainFilterOk inner then .invalid
           else .shared (tail.any hasWildChar)
         | [] => .plain false)   -- "$share" alone does not start with "$share/": an ordinary filter
      else if levelsOk (first :: rest) then .plain ((first :: rest).any hasWildChar) else .invalid
    | [] => .invalid

/-- a Topic Name (4.7): non-empty, no wildcard characters, no null character [MQTT-4.7.3-2] -/
def topicNameValid (t : Bytes) : Bool := !t.isEmpty && t.length ≤ 65535 && !hasWildChar t && !t.contains 0

/-- Binary Data (1.5.6): a two-byte length -/
def strOk (b : Bytes) : Bool := b.length ≤ 65535
def optOk : Option Bytes → Bool
  | none => true
  | some b => strOk b
/-- UTF-8 Encoded String (1.5.4): a two-byte length, and no null character [MQTT-1.5.4-2] (its only one-byte encoding is
    0x00, and 0x00 encodes nothing else) -/
def utf8Ok (b : Bytes) : Bool := b.length ≤ 65535 && !b.contains 0
def optStrOk : Option Bytes → Bool
  | none => true
  | some b => utf8Ok b
def upsOk : UserProps → Bool
  | none => true
  | some ps => ps.all (fun p => utf8Ok p.name && utf8Ok p.value)

/-- static rules for an application PUBLISH (before a packet identifier is assigned) -/
def publishStaticOk (p : Publish) : Bool :=
  topicNameValid p.topic && p.qos ≤ 2 && !p.dup && p.topicAlias ≠ some 0 && p.subscriptionIds.isNone
  && (match p.responseTopic with | none => true | some t => topicNameValid t)
  && optOk p.correlationData && optStrOk p.contentType && upsOk p.userProps
  && (match p.payloadFormat with | none => true | some f => f ≤ 1)

def FilterClass.isShared : FilterClass → Bool
  | .shared _ => true
  | _ => false

/-- 3.8.3: a non-empty list of well-formed filters; "It is a Protocol Error to set the No Local bit to 1 on a Shared
    Subscription" [MQTT-3.8.3-4] - a rule about the packet alone, whatever the server announced -/
def subscribeStaticOk (p : Subscribe) : Bool :=
  !p.subscriptions.isEmpty && upsOk p.userProps
  && p.subscriptions.all (fun s => classify s.topicFilter != .invalid && s.qos ≤ 2 && s.retainHandling ≤ 2
        && !((classify s.topicFilter).isShared && s.noLocal))
  && (match p.subscriptionId with | none => true | some i => 1 ≤ i && i ≤ 268435455)

def unsubscribeStaticOk (p : Unsubscribe) : Bool :=
  !p.topicFilters.isEmpty && upsOk p.userProps && p.topicFilters.all (fun f => classify f != .invalid)

def disconnectStaticOk (p : Disconnect) : Bool :=
  optStrOk p.reasonString && optStrOk p.serverReference && upsOk p.userProps

def connectStaticOk (p : Connect) : Bool :=
  optStrOk p.clientId && optStrOk p.username && optOk p.password && optStrOk p.authMethod && optOk p.authData
  && upsOk p.userProps && p.receiveMaximum ≠ some 0 && p.maximumPacketSize ≠ some 0
  && (match p.will with
      | none => true
      | some w => topicNameValid w.topic && optOk w.payload && optStrOk w.contentType && optOk w.correlationData
          && (match w.responseTopic with | none => true | some t => topicNameValid t) && upsOk w.userProps && w.qos ≤ 2)

/-- what a server announced (CONNACK), with the standard's defaults for absent properties -/
structure Limits where
  maximumQos : Nat := 2
  retainAvailable : Bool := true
  maximumPacketSize : Nat := 268435455
  wildcardAvailable : Bool := true
  subIdAvailable : Bool := true
  sharedAvailable : Bool := true
  /-- not announced by the server but fixed by the connection: the Session Expiry Interval of the CONNECT -/
  connectSessionExpiry : Nat := 0
  deriving Repr, BEq, DecidableEq

def publishDynamicOk (l : Limits) (p : Publish) : Bool :=
  p.qos ≤ l.maximumQos && (!p.retain || l.retainAvailable)

def filterDynamicOk (l : Limits) (f : Bytes) (noLocal : Bool) : Bool :=
  match classify f with
  | .invalid => false
  | .plain w => !w || l.wildcardAvailable
  | .shared w => l.sharedAvailable && !noLocal && (!w || l.wildcardAvailable)

def subscribeDynamicOk (l : Limits) (p : Subscribe) : Bool :=
  p.subscriptions.all (fun s => filterDynamicOk l s.topicFilter s.noLocal)
  && (p.subscriptionId.isNone || l.subIdAvailable)

/-- 3.2.2.3.11 / 3.2.2.3.13 restrict the SUBSCRIBE packet ("If the Server receives a SUBSCRIBE packet containing a Wildcard
    Subscription and it does not support Wildcard Subscriptions, this is a Protocol Error"; likewise Shared Subscriptions):
    nothing a server announces limits an UNSUBSCRIBE -/
def unsubscribeDynamicOk (_l : Limits) (p : Unsubscribe) : Bool :=
  p.topicFilters.all (fun f => classify f != .invalid)

/-- 3.14.2.2.2: "If the Session Expiry Interval in the CONNECT packet was zero, then it is a Protocol Error to set a non-zero
    Session Expiry Interval in the DISCONNECT packet sent by the Client" -/
def disconnectDynamicOk (l : Limits) (p : Disconnect) : Bool :=
  !(l.connectSessionExpiry = 0 && (match p.sessionExpiry with | none => false | some v => v > 0))

end GV.Spec
