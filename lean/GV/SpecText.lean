/-
  SpecText.lean — textual form of the standard-level packet views (Spec/Codec): kind, fixed fields,
  then properties `P<id>=<value>` in wire order (numbers decimal, data `x<hex>`, pairs `x..:x..`).
-/
import GV.Text
import GV.Spec.Interp
namespace GV.Spec
open GV

def printProp (p : Property) : String :=
  match p.val with
  | .num n => s!" P{p.id}={n}"
  | .data b => s!" P{p.id}={hexOf b}"
  | .pair k v => s!" P{p.id}={hexOf k}:{hexOf v}"

def printProps (ps : List Property) : String := String.join (ps.map printProp)

def printAckView (name : String) (a : AckView) : String :=
  s!"{name} pid={a.packetId} rc={a.reasonCode}" ++ printProps a.props

def printClient : ClientPacket → String
  | .connect c =>
    s!"connect level={c.level} clean={b01 c.cleanStart} ka={c.keepAlive} cid={hexOf c.clientId}"
    ++ (match c.will with
        | none => ""
        | some w => s!" w.qos={w.qos} w.retain={b01 w.retain} w.topic={hexOf w.topic} w.payload={hexOf w.payload}"
            ++ String.join (w.props.map (fun p => match p.val with
                | .num n => s!" W{p.id}={n}"
                | .data b => s!" W{p.id}={hexOf b}"
                | .pair k v => s!" W{p.id}={hexOf k}:{hexOf v}")))
    ++ putBytes "user" c.username ++ putBytes "pass" c.password ++ printProps c.props
  | .publish p =>
    s!"publish dup={b01 p.dup} qos={p.qos} retain={b01 p.retain} topic={hexOf p.topic}"
    ++ putNum "pid" p.packetId ++ s!" payload={hexOf p.payload}" ++ printProps p.props
  | .puback a => printAckView "puback" a
  | .pubrec a => printAckView "pubrec" a
  | .pubrel a => printAckView "pubrel" a
  | .pubcomp a => printAckView "pubcomp" a
  | .subscribe pid ps subs =>
    s!"subscribe pid={pid}" ++ String.join (subs.map (fun x =>
      s!" sub={hexOf x.filter}:{x.qos}:{b01 x.noLocal}:{b01 x.retainAsPublished}:{x.retainHandling}")) ++ printProps ps
  | .unsubscribe pid ps fs =>
    s!"unsubscribe pid={pid}" ++ String.join (fs.map (fun f => s!" tf={hexOf f}")) ++ printProps ps
  | .pingreq => "pingreq"
  | .disconnect rc ps => s!"disconnect rc={rc}" ++ printProps ps

def parsePropVal (id : Nat) (s : String) : Option Property :=
  match propKind id with
  | none => none
  | some .pair =>
    (match s.splitOn ":" with
     | [k, v] => match unhex k, unhex v with
       | some kb, some vb => some { id := id, val := .pair kb vb }
       | _, _ => none
     | _ => none)
  | some .str => (unhex s).map (fun b => { id := id, val := .data b })
  | some .bin => (unhex s).map (fun b => { id := id, val := .data b })
  | some _ => s.toNat?.map (fun n => { id := id, val := .num n })

/-- all `P<id>=...` entries, in order -/
def parseProps (kv : Kv) : Option (List Property) :=
  (kv.filter (fun (k, _) => k.startsWith "P")).mapM (fun (k, v) =>
    match (k.drop 1).toNat? with
    | some id => parsePropVal id v
    | none => none)

def parseServer (line : String) : Option ServerPacket :=
  let (kind, kv) := splitKv line
  match kind with
  | "s.connack" => do
    let sp ← kv.bool "sp"
    let rc ← kv.numD "rc"
    let ps ← parseProps kv
    pure (.connack (sp.getD false) rc ps)
  | "s.publish" => do
    let dup ← kv.bool "dup"
    let qos ← kv.numD "qos"
    let retain ← kv.bool "retain"
    let topic ← kv.bytes "topic"
    let pid ← kv.numD "pid"
    let payload ← kv.bytes "payload"
    let ps ← parseProps kv
    pure (.publish (dup.getD false) qos (retain.getD false) (topic.getD []) pid ps (payload.getD []))
  | "s.puback" => do pure (.puback (← kv.numD "pid") (← kv.numD "rc") (← parseProps kv))
  | "s.pubrec" => do pure (.pubrec (← kv.numD "pid") (← kv.numD "rc") (← parseProps kv))
  | "s.pubrel" => do pure (.pubrel (← kv.numD "pid") (← kv.numD "rc") (← parseProps kv))
  | "s.pubcomp" => do pure (.pubcomp (← kv.numD "pid") (← kv.numD "rc") (← parseProps kv))
  | "s.suback" => do
    let codes ← (kv.getAll "rc").mapM String.toNat?
    pure (.suback (← kv.numD "pid") (← parseProps kv) codes)
  | "s.unsuback" => do
    let codes ← (kv.getAll "rc").mapM String.toNat?
    pure (.unsuback (← kv.numD "pid") (← parseProps kv) codes)
  | "s.pingresp" => some .pingresp
  | "s.disconnect" => do pure (.disconnect (← kv.numD "rc") (← parseProps kv))
  | _ => none

end GV.Spec
