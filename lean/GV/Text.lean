/-
  Text.lean — the neutral textual representation of packets shared with the Rust facade
  (gneiss-mqtt/src/verif/text.rs): `<kind> key=value ...`, integers decimal, bytes `x<hex>`,
  absent optional = absent key, lists = repeated keys.  Parsing and printing only; no logic.
-/
import GV.Model.Packets
namespace GV

def hexDigit (n : Nat) : Char :=
  if n < 10 then Char.ofNat (48 + n) else Char.ofNat (87 + n)

def hexOf (bs : Bytes) : String :=
  String.ofList ('x' :: bs.flatMap (fun b => [hexDigit (b.toNat / 16), hexDigit (b.toNat % 16)]))

def hexVal (c : Char) : Option Nat :=
  if '0' ≤ c && c ≤ '9' then some (c.toNat - 48)
  else if 'a' ≤ c && c ≤ 'f' then some (c.toNat - 87)
  else if 'A' ≤ c && c ≤ 'F' then some (c.toNat - 55)
  else none

def unhexChars : List Char → Option Bytes
  | [] => some []
  | a :: b :: r =>
    match hexVal a, hexVal b, unhexChars r with
    | some h, some l, some rest => some (UInt8.ofNat (h * 16 + l) :: rest)
    | _, _, _ => none
  | _ => none

def unhex (s : String) : Option Bytes :=
  match s.toList with
  | 'x' :: r => unhexChars r
  | _ => none

abbrev Kv := List (String × String)

def splitKv (line : String) : String × Kv :=
  let parts := (line.splitOn " ").filter (fun p => p ≠ "")
  match parts with
  | [] => ("", [])
  | kind :: rest =>
    (kind, rest.map (fun p =>
      match p.splitOn "=" with
      | [k] => (k, "")
      | k :: vs => (k, "=".intercalate vs)
      | [] => ("", "")))

def Kv.get (kv : Kv) (key : String) : Option String := kv.lookup key
def Kv.getAll (kv : Kv) (key : String) : List String := (kv.filter (fun p => p.1 == key)).map (·.2)

def Kv.num (kv : Kv) (key : String) : Option (Option Nat) :=
  match kv.get key with
  | none => some none
  | some v => match v.toNat? with
    | some n => some (some n)
    | none => none

def Kv.numD (kv : Kv) (key : String) (d : Nat := 0) : Option Nat :=
  (kv.num key).map (·.getD d)

def Kv.bool (kv : Kv) (key : String) : Option (Option Bool) :=
  (kv.num key).map (fun o => o.map (· != 0))

def Kv.bytes (kv : Kv) (key : String) : Option (Option Bytes) :=
  match kv.get key with
  | none => some none
  | some v => match unhex v with
    | some b => some (some b)
    | none => none

def parseUserProp (s : String) : Option UserProperty :=
  match s.splitOn ":" with
  | [n, v] => match unhex n, unhex v with
    | some nb, some vb => some { name := nb, value := vb }
    | _, _ => none
  | _ => none

def Kv.ups (kv : Kv) (key emptyKey : String) : Option UserProps :=
  let all := kv.getAll key
  if all.isEmpty then
    if (kv.get emptyKey).isSome then some (some []) else some none
  else
    (all.mapM parseUserProp).map some

def parsePublishFields (kv : Kv) (pre : String) : Option Publish := do
  let pid ← kv.numD (pre ++ "pid")
  let topic ← kv.bytes (pre ++ "topic")
  let qos ← kv.numD (pre ++ "qos")
  let dup ← kv.bool (pre ++ "dup")
  let retain ← kv.bool (pre ++ "retain")
  let payload ← kv.bytes (pre ++ "payload")
  let pfi ← kv.num (pre ++ "pfi")
  let mei ← kv.num (pre ++ "mei")
  let ta ← kv.num (pre ++ "ta")
  let rt ← kv.bytes (pre ++ "rt")
  let cd ← kv.bytes (pre ++ "cd")
  let ct ← kv.bytes (pre ++ "ct")
  let ups ← kv.ups (pre ++ "up") (pre ++ "upe")
  let sids ← match kv.get (pre ++ "sids") with
    | none => some none
    | some v => (((v.splitOn ",").filter (· ≠ "")).mapM String.toNat?).map some
  pure { packetId := pid, topic := topic.getD [], qos := qos, dup := dup.getD false, retain := retain.getD false, payload := payload, payloadFormat := pfi, messageExpiry := mei, topicAlias := ta, responseTopic := rt, correlationData := cd, subscriptionIds := sids, contentType := ct, userProps := ups }

def parseAck (kv : Kv) : Option Ack := do
  let pid ← kv.numD "pid"
  let rc ← kv.numD "rc"
  let rs ← kv.bytes "rs"
  let ups ← kv.ups "up" "upe"
  pure { packetId := pid, reasonCode := rc, reasonString := rs, userProps := ups }

def parseSubscription (s : String) : Option Subscription :=
  match s.splitOn ":" with
  | [f, q, nl, rap, rh] => do
    let fb ← unhex f
    let q ← q.toNat?
    let nl ← nl.toNat?
    let rap ← rap.toNat?
    let rh ← rh.toNat?
    pure { topicFilter := fb, qos := q, noLocal := nl != 0, retainAsPublished := rap != 0, retainHandling := rh }
  | _ => none

def parseSubackLike (kv : Kv) : Option Suback := do
  let pid ← kv.numD "pid"
  let rs ← kv.bytes "rs"
  let ups ← kv.ups "up" "upe"
  let rcs ← (kv.getAll "rc").mapM String.toNat?
  pure { packetId := pid, reasonString := rs, userProps := ups, reasonCodes := rcs }

def parsePacket (line : String) : Option Packet :=
  let (kind, kv) := splitKv line
  match kind with
  | "connect" => do
    let ka ← kv.numD "ka"
    let clean ← kv.bool "clean"
    let cid ← kv.bytes "cid"
    let uname ← kv.bytes "user"
    let pwd ← kv.bytes "pass"
    let sei ← kv.num "sei"
    let rri ← kv.bool "rri"
    let rpi ← kv.bool "rpi"
    let rm ← kv.num "rm"
    let tam ← kv.num "tam"
    let mps ← kv.num "mps"
    let am ← kv.bytes "am"
    let ad ← kv.bytes "ad"
    let wdi ← kv.num "wdi"
    let ups ← kv.ups "up" "upe"
    let will ← if (kv.get "w.topic").isSome then (parsePublishFields kv "w.").map some else some none
    pure (.connect { keepAlive := ka, cleanStart := clean.getD false, clientId := cid, username := uname, password := pwd, sessionExpiry := sei, requestResponseInfo := rri, requestProblemInfo := rpi, receiveMaximum := rm, topicAliasMaximum := tam, maximumPacketSize := mps, authMethod := am, authData := ad, willDelay := wdi, will := (will : Option Publish), userProps := ups })
  | "connack" => do
    let sp ← kv.bool "sp"
    let rc ← kv.numD "rc"
    let sei ← kv.num "sei"
    let rm ← kv.num "rm"
    let mq ← kv.num "mq"
    let ra ← kv.bool "ra"
    let mps ← kv.num "mps"
    let acid ← kv.bytes "acid"
    let tam ← kv.num "tam"
    let rs ← kv.bytes "rs"
    let ups ← kv.ups "up" "upe"
    let wsa ← kv.bool "wsa"
    let sia ← kv.bool "sia"
    let ssa ← kv.bool "ssa"
    let ska ← kv.num "ska"
    let ri ← kv.bytes "ri"
    let sr ← kv.bytes "sr"
    let am ← kv.bytes "am"
    let ad ← kv.bytes "ad"
    pure (.connack { sessionPresent := sp.getD false, reasonCode := rc, sessionExpiry := sei, receiveMaximum := rm, maximumQos := mq, retainAvailable := ra, maximumPacketSize := mps, assignedClientId := acid, topicAliasMaximum := tam, reasonString := rs, userProps := ups, wildcardSubsAvailable := wsa, subIdsAvailable := sia, sharedSubsAvailable := ssa, serverKeepAlive := ska, responseInformation := ri, serverReference := sr, authMethod := am, authData := ad })
  | "publish" => (parsePublishFields kv "").map .publish
  | "puback" => (parseAck kv).map .puback
  | "pubrec" => (parseAck kv).map .pubrec
  | "pubrel" => (parseAck kv).map .pubrel
  | "pubcomp" => (parseAck kv).map .pubcomp
  | "subscribe" => do
    let pid ← kv.numD "pid"
    let subs ← (kv.getAll "sub").mapM parseSubscription
    let subid ← kv.num "subid"
    let ups ← kv.ups "up" "upe"
    pure (.subscribe { packetId := pid, subscriptions := subs, subscriptionId := subid, userProps := ups })
  | "suback" => (parseSubackLike kv).map .suback
  | "unsubscribe" => do
    let pid ← kv.numD "pid"
    let tfs ← (kv.getAll "tf").mapM unhex
    let ups ← kv.ups "up" "upe"
    pure (.unsubscribe { packetId := pid, topicFilters := tfs, userProps := ups })
  | "unsuback" => (parseSubackLike kv).map .unsuback
  | "pingreq" => some .pingreq
  | "pingresp" => some .pingresp
  | "disconnect" => do
    let rc ← kv.numD "rc"
    let sei ← kv.num "sei"
    let rs ← kv.bytes "rs"
    let ups ← kv.ups "up" "upe"
    let sr ← kv.bytes "sr"
    pure (.disconnect { reasonCode := rc, sessionExpiry := sei, reasonString := rs, userProps := ups, serverReference := sr })
  | "auth" => do
    let rc ← kv.numD "rc"
    let am ← kv.bytes "am"
    let ad ← kv.bytes "ad"
    let rs ← kv.bytes "rs"
    let ups ← kv.ups "up" "upe"
    pure (.auth { reasonCode := rc, authMethod := am, authData := ad, reasonString := rs, userProps := ups })
  | _ => none

/-! ### printing -/

def putBytes (key : String) : Option Bytes → String
  | none => ""
  | some b => s!" {key}={hexOf b}"

def putNum (key : String) : Option Nat → String
  | none => ""
  | some n => s!" {key}={n}"

def putBool (key : String) : Option Bool → String
  | none => ""
  | some b => s!" {key}={if b then 1 else 0}"

def b01 (b : Bool) : Nat := if b then 1 else 0

def putUps (key emptyKey : String) : UserProps → String
  | none => ""
  | some [] => s!" {emptyKey}=1"
  | some ps => String.join (ps.map (fun p => s!" {key}={hexOf p.name}:{hexOf p.value}"))

def printPublishFields (p : Publish) (pre : String) : String :=
  s!" {pre}pid={p.packetId} {pre}topic={hexOf p.topic} {pre}qos={p.qos} {pre}dup={b01 p.dup} {pre}retain={b01 p.retain}"
  ++ putBytes (pre ++ "payload") p.payload
  ++ putNum (pre ++ "pfi") p.payloadFormat
  ++ putNum (pre ++ "mei") p.messageExpiry
  ++ putNum (pre ++ "ta") p.topicAlias
  ++ putBytes (pre ++ "rt") p.responseTopic
  ++ putBytes (pre ++ "cd") p.correlationData
  ++ (match p.subscriptionIds with
      | none => ""
      | some ids => s!" {pre}sids={",".intercalate (ids.map toString)}")
  ++ putBytes (pre ++ "ct") p.contentType
  ++ putUps (pre ++ "up") (pre ++ "upe") p.userProps

def printAck (name : String) (p : Ack) : String :=
  s!"{name} pid={p.packetId} rc={p.reasonCode}" ++ putBytes "rs" p.reasonString ++ putUps "up" "upe" p.userProps

def printSubackLike (name : String) (p : Suback) : String :=
  s!"{name} pid={p.packetId}" ++ putBytes "rs" p.reasonString ++ putUps "up" "upe" p.userProps
  ++ String.join (p.reasonCodes.map (fun c => s!" rc={c}"))

def printPacket : Packet → String
  | .connect c =>
    s!"connect ka={c.keepAlive} clean={b01 c.cleanStart}"
    ++ putBytes "cid" c.clientId ++ putBytes "user" c.username ++ putBytes "pass" c.password
    ++ putNum "sei" c.sessionExpiry ++ putBool "rri" c.requestResponseInfo ++ putBool "rpi" c.requestProblemInfo
    ++ putNum "rm" c.receiveMaximum ++ putNum "tam" c.topicAliasMaximum ++ putNum "mps" c.maximumPacketSize
    ++ putBytes "am" c.authMethod ++ putBytes "ad" c.authData ++ putNum "wdi" c.willDelay
    ++ (match c.will with | none => "" | some w => printPublishFields w "w.")
    ++ putUps "up" "upe" c.userProps
  | .connack c =>
    s!"connack sp={b01 c.sessionPresent} rc={c.reasonCode}"
    ++ putNum "sei" c.sessionExpiry ++ putNum "rm" c.receiveMaximum ++ putNum "mq" c.maximumQos
    ++ putBool "ra" c.retainAvailable ++ putNum "mps" c.maximumPacketSize ++ putBytes "acid" c.assignedClientId
    ++ putNum "tam" c.topicAliasMaximum ++ putBytes "rs" c.reasonString ++ putUps "up" "upe" c.userProps
    ++ putBool "wsa" c.wildcardSubsAvailable ++ putBool "sia" c.subIdsAvailable ++ putBool "ssa" c.sharedSubsAvailable
    ++ putNum "ska" c.serverKeepAlive ++ putBytes "ri" c.responseInformation ++ putBytes "sr" c.serverReference
    ++ putBytes "am" c.authMethod ++ putBytes "ad" c.authData
  | .publish p => "publish" ++ printPublishFields p ""
  | .puback p => printAck "puback" p
  | .pubrec p => printAck "pubrec" p
  | .pubrel p => printAck "pubrel" p
  | .pubcomp p => printAck "pubcomp" p
  | .subscribe s =>
    s!"subscribe pid={s.packetId}"
    ++ String.join (s.subscriptions.map (fun x =>
        s!" sub={hexOf x.topicFilter}:{x.qos}:{b01 x.noLocal}:{b01 x.retainAsPublished}:{x.retainHandling}"))
    ++ putNum "subid" s.subscriptionId ++ putUps "up" "upe" s.userProps
  | .suback s => printSubackLike "suback" s
  | .unsubscribe u =>
    s!"unsubscribe pid={u.packetId}" ++ String.join (u.topicFilters.map (fun f => s!" tf={hexOf f}"))
    ++ putUps "up" "upe" u.userProps
  | .unsuback s => printSubackLike "unsuback" s
  | .pingreq => "pingreq"
  | .pingresp => "pingresp"
  | .disconnect d =>
    s!"disconnect rc={d.reasonCode}" ++ putNum "sei" d.sessionExpiry ++ putBytes "rs" d.reasonString
    ++ putUps "up" "upe" d.userProps ++ putBytes "sr" d.serverReference
  | .auth a =>
    s!"auth rc={a.reasonCode}" ++ putBytes "am" a.authMethod ++ putBytes "ad" a.authData
    ++ putBytes "rs" a.reasonString ++ putUps "up" "upe" a.userProps

end GV
