import GV.Driver
import GV.DriverExt
open GV

partial def loop (h : IO.FS.Stream) (out : IO.FS.Stream) (st : Session) (interactive : Bool) : IO Unit := do
  let line ← h.getLine
  if line.isEmpty then return ()
  let t := line.trimAscii.toString
  if t.isEmpty || t.startsWith "#" then
    loop h out st interactive
  else
    let (st', resp) := if t == "session.reset" then (Session.new, "res=ok") else dispatch st t
    out.putStrLn resp
    if interactive then out.flush
    loop h out st' interactive

def main (args : List String) : IO Unit := do
  let out ← IO.getStdout
  loop (← IO.getStdin) out Session.new (args.contains "--interactive")
  out.flush
