import GV.Driver
import GV.DriverExt
import GV.EngineDriver
import GV.ClientDriver
import GV.AwsDriver
import GV.DrvDriver
open GV

structure Full where
  base : Session := Session.new
  eng : EngSession := {}
  cli : CliSession := {}

def dispatchAll (st : Full) (line : String) : Full × String :=
  let (verb, head, payload) := splitRequest line
  if verb.startsWith "eng." then
    let (e', r) := engDispatch st.eng verb head payload
    ({ st with eng := e' }, r)
  else if verb.startsWith "cli." then
    let (c', r) := cliDispatch st.cli verb head payload
    ({ st with cli := c' }, r)
  else if verb.startsWith "ws." || verb.startsWith "wl." || verb.startsWith "slot." || verb == "cfg.wsrequest" then
    (st, drvDispatch verb head)
  else if verb.startsWith "aws." then
    (st, awsDispatch verb head payload)
  else
    let (b', r) := dispatch st.base line
    ({ st with base := b' }, r)

partial def loop (h : IO.FS.Stream) (out : IO.FS.Stream) (st : Full) (interactive : Bool) : IO Unit := do
  let line ← h.getLine
  if line.isEmpty then return ()
  let t := line.trimAscii.toString
  if t.isEmpty || t.startsWith "#" then
    loop h out st interactive
  else
    let (st', resp) := if t == "session.reset" then (({} : Full), "res=ok") else dispatchAll st t
    out.putStrLn resp
    if interactive then out.flush
    loop h out st' interactive

def main (args : List String) : IO Unit := do
  let out ← IO.getStdout
  loop (← IO.getStdin) out {} (args.contains "--interactive")
  out.flush
