#!/bin/sh
# Build the framework from files on disk only (offline): Lean project (model, spec, theorems,
# compiled driver) and the Rust harness against /repo's current tree with the `verif` feature.
set -e
cd "$(dirname "$0")"
export CARGO_NET_OFFLINE=true
[ -f harness/Cargo.lock ] || cp /repo/Cargo.lock harness/Cargo.lock
(cd lean && lake build)
(cd harness && cargo build --release --offline)
echo "setup ok"
