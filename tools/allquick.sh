#!/bin/sh
# allquick.sh: every property's quick check on the current tree, a few in parallel; prints one line per check.
cd "$(dirname "$0")/.."
(cd lean && lake build GV gvdriver >/dev/null 2>&1)
python3 -c "import sys; sys.path.insert(0,'tools'); import gv; ok,_=gv.build_harness(); sys.exit(0 if ok else 1)" || { echo "harness build failed"; exit 1; }
for p in C01 C02 C03 C04 C05 C06 C07 C08 C09 C10 C11 C12 C13 C14 C15 C16 C17 C18 C19 C20; do echo $p; done | \
  xargs -P 5 -I{} sh -c './check {} 2>&1 | grep -E "^VIOLATION|^KNOWN-FINDING|-> (OK|VIOLATION)" | tr "\n" " "; echo'
