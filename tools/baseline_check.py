#!/usr/bin/env python3
"""Run the repository's pinned test suite (guard OFF) and compare with /root/.vp/BASELINE.json:
every test in `stable_pass` must pass.  Exit 0 iff none of them fails or is missing."""
import json, os, re, subprocess, sys, xml.etree.ElementTree as ET

base = json.load(open("/root/.vp/BASELINE.json"))
stable = set(base["stable_pass"])
root = "/repo"
env = dict(os.environ, CARGO_NET_OFFLINE="true")
cfg = "/w/lib/nextest.toml"
junit = os.path.join(root, "target", "nextest", "pb", "junit.xml")
if os.path.exists(junit):
    os.remove(junit)
passed = set()
failed = set()
if os.path.exists(cfg):
    cmd = ["cargo", "nextest", "run", "--workspace", "--no-fail-fast", "--tool-config-file", f"pb:{cfg}", "--profile", "pb",
           "--test-threads", "8", "--offline"]
    p = subprocess.run(cmd, cwd=root, env=env, stdout=subprocess.PIPE, stderr=subprocess.STDOUT, text=True)
    if os.path.exists(junit):
        for tc in ET.parse(junit).getroot().iter("testcase"):
            name = f"{tc.get('classname')}::{tc.get('name')}"
            bad = any(ch.tag in ("failure", "error") for ch in tc)
            (failed if bad else passed).add(name)
if not passed and not failed:
    # fallback: plain cargo test, parse "test <name> ... ok"
    p = subprocess.run(["cargo", "test", "--workspace", "--no-fail-fast", "--offline"], cwd=root, env=env,
                       stdout=subprocess.PIPE, stderr=subprocess.STDOUT, text=True)
    crate = None
    for line in p.stdout.split("\n"):
        m = re.match(r"\s*Running (unittests )?\S+ \(target/debug/deps/([a-z_0-9]+)-", line)
        if m:
            crate = m.group(2).replace("_", "-")
        m = re.match(r"test (\S+) \.\.\. (ok|FAILED)", line)
        if m and crate:
            (passed if m.group(2) == "ok" else failed).add(f"{crate}::{m.group(1)}")
missing = sorted(stable - passed)
print(f"stable baseline tests: {len(stable)}; passed now: {len(stable & passed)}; failing or missing: {len(missing)}")
for m in missing[:40]:
    print("  NOT PASSING:", m)
sys.exit(0 if not missing else 1)
