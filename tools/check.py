#!/usr/bin/env python3
"""./check <property id> [--tier quick|thorough] — decide one property on /repo's current tree."""
import os, sys, time
sys.path.insert(0, os.path.dirname(os.path.abspath(__file__)))
import gv
from gv import Report, Finding


def common_build(report):
    ok, log = gv.build_harness()
    if not ok:
        report.obligation("build:harness", "build", False, "cargo build of /repo with feature verif failed: " + log[-600:])
        return False
    ok, log = gv.build_lean(["GV", "gvdriver"])
    if not ok:
        report.obligation("build:lean", "build", False, "lake build failed: " + log[-600:])
        return False
    return True


def check_C02(report, tier, seed):
    import suites_codec as S
    report.rule = ("type-directed random client packets (all optional-field combinations, boundary lengths, multi-byte UTF-8, "
                   "up to 60 user properties) x {v5,v311} x alias resolutions x 3 capacity sequences (caps>=4, prefill); "
                   "a case is distinct by (version, resolution, packet text)")
    gv.theorem_obligations(report, "GV/Props/C02.lean", "GV.Props.C02", audit=True)
    S.suite_encode(report, tier, seed, "C02")


def check_C03(report, tier, seed):
    import suites_codec as S
    report.rule = ("server packets generated at the level of the standard (any allowed reason code, shuffled property order), "
                   "reference-encoded, concatenated, mutated (bit flips, truncation, length edits, random bytes) x 4 chunkings "
                   "incl. 1-byte reads; distinct by (version, max size, byte string)")
    gv.theorem_obligations(report, "GV/Props/C03.lean", "GV.Props.C03", audit=True)
    S.suite_tables(report, ["connect", "puback", "pubrec", "pubrel", "pubcomp", "disconnect", "suback", "unsuback", "auth",
                            "qos", "pfi", "connect311", "suback311"], "C03")
    S.suite_decode(report, tier, seed, "C03")


def check_C16(report, tier, seed):
    import suites_validate as S
    report.rule = ("packets for the validators: valid shapes plus lengths around 65535/65536, topic filters over the alphabet "
                   "{/,+,#,$share,a,b,''}, zero aliases, bound ids; settings drawn around each packet's encoded size; distinct by (settings, packet)")
    gv.theorem_obligations(report, "GV/Props/C16.lean", "GV.Props.C16", audit=True)
    S.suite_validate(report, tier, seed, "C16")


def check_C17(report, tier, seed):
    import suites_alias as S
    report.rule = ("resolver sessions: kind in {null, manual, lru(0..65535)}, 1-3 connections with server maxima 0..65535, up to 40 "
                   "resolutions over topic pools above and below the maximum; inbound sessions with alias 0/in range/above, empty topics; "
                   "distinct by the whole session script")
    gv.theorem_obligations(report, "GV/Props/C17.lean", "GV.Props.C17", audit=True)
    S.suite_alias(report, tier, seed, "C17")


CHECKS = {"C02": check_C02, "C03": check_C03, "C16": check_C16, "C17": check_C17}


def main():
    args = sys.argv[1:]
    if not args:
        print("usage: check <id> [--tier quick|thorough]")
        return 2
    prop = args[0]
    tier = os.environ.get("VERIF_TIER", "quick")
    if "--tier" in args:
        tier = args[args.index("--tier") + 1]
    seed = gv.seed_from_env()
    report = Report(prop, tier, seed)
    if prop not in CHECKS:
        print(f"unknown property {prop}")
        return 2
    if common_build(report):
        CHECKS[prop](report, tier, seed)
    code = report.finish()
    dis = sum(1 for o in report.obligations if o.ok)
    print(f"{prop} [{tier}] obligations {dis}/{len(report.obligations)} evaluations={report.evaluations} "
          f"distinct={len(report.distinct)} wall={time.time() - report.t0:.1f}s -> {'OK' if code == 0 else 'VIOLATION'}")
    return code


if __name__ == "__main__":
    sys.exit(main())
