#!/usr/bin/env python3
"""./check <property id> [--tier quick|thorough] — decide one property on /repo's current tree."""
import os, sys, time
sys.path.insert(0, os.path.dirname(os.path.abspath(__file__)))
import gv
from gv import Report, Finding


def common_build(report):
    ok, log = gv.build_harness()
    if not ok:
        report.obligation("build:harness", "build", False, "cargo build of /repo with feature verif failed: " + log[-600:])
        return False
    ok, log = gv.build_lean(["GV", "gvdriver"])
    if not ok:
        report.obligation("build:lean", "build", False, "lake build failed: " + log[-600:])
        return False
    return True


def check_C02(report, tier, seed):
    import suites_codec as S
    report.rule = ("type-directed random client packets (all optional-field combinations, boundary lengths, multi-byte UTF-8, "
                   "up to 60 user properties) x {v5,v311} x alias resolutions x 3 capacity sequences (caps>=4, prefill); "
                   "a case is distinct by (version, resolution, packet text)")
    gv.theorem_obligations(report, "GV/Props/C02.lean", "GV.Props.C02", audit=True)
    S.suite_encode(report, tier, seed, "C02")
    # the packets the engine itself builds and writes (CONNECT from the options, acknowledgements, pings, user packets with their
    # ids and flags): every one is accepted by the reference decoder of the negotiated version
    import suites_engine as E
    walks = E.run_walks(seed, tier, "engine-c02", 160, 4000, profile=lambda i: "connects" if i % 2 == 0 else "default")
    corr_ok = E.correspondence(report, walks, "C02")
    mon_ok = E.monitor(report, walks, "C02")
    if not corr_ok and mon_ok:
        more = E.run_walks(seed + 1, tier, "engine-c02-search", 1200, 4000, replay_model=False, profile=lambda i: "connects")
        E.monitor(report, more, "C02", label="search")


def check_C03(report, tier, seed):
    import suites_codec as S
    report.rule = ("server packets generated at the level of the standard (any allowed reason code, shuffled property order), "
                   "reference-encoded, concatenated, mutated (bit flips, truncation, length edits, random bytes) x 4 chunkings "
                   "incl. 1-byte reads; distinct by (version, max size, byte string)")
    gv.theorem_obligations(report, "GV/Props/C03.lean", "GV.Props.C03", audit=True)
    S.suite_tables(report, ["connect", "puback", "pubrec", "pubrel", "pubcomp", "disconnect", "suback", "unsuback", "auth",
                            "qos", "pfi", "connect311", "suback311"], "C03")
    S.suite_decode(report, tier, seed, "C03")
    S.suite_size_limit_headers(report, "C03")
    S.suite_engine_inbound_size(report, "C03")
    import suites_engine as E0
    E0.inbound_chunking_family(report, "C03")
    # the decoder inside the engine: hostile bytes on one connection, then well-formed traffic on the next ones
    import suites_engine as E
    walks = E.run_walks(seed, tier, "engine-c03", 120, 3000, adversarial=True)
    corr_ok = E.correspondence(report, walks, "C03")
    mon_ok = E.monitor(report, walks, "C03")
    if not corr_ok and mon_ok:
        more = E.run_walks(seed + 1, tier, "engine-c03-search", 1200, 3000, adversarial=True, replay_model=False)
        E.monitor(report, more, "C03", label="search")


def check_C16(report, tier, seed):
    import suites_validate as S
    report.rule = ("packets for the validators: valid shapes plus lengths around 65535/65536, topic filters over the alphabet "
                   "{/,+,#,$share,a,b,''}, zero aliases, bound ids; settings drawn around each packet's encoded size; distinct by (settings, packet)")
    gv.theorem_obligations(report, "GV/Props/C16.lean", "GV.Props.C16", audit=True)
    S.suite_validate(report, tier, seed, "C16")
    S.suite_connect_limits(report, tier, seed, "C16")
    S.suite_huge_publish(report, tier, seed, "C16")
    S.suite_huge_subscribe(report, tier, seed, "C16")
    import suites_engine as E
    walks = E.run_walks(seed, tier, "engine-c16", 160, 4000, profile=lambda i: "mpstight" if i % 2 == 0 else ("connects" if i % 4 == 1 else "default"))
    corr_ok = E.correspondence(report, walks, "C16")
    mon_ok = E.monitor(report, walks, "C16")
    E.announced_availability_family(report, "C16")
    if not corr_ok and mon_ok:
        more = E.run_walks(seed + 1, tier, "engine-c16-search", 1200, 4000, replay_model=False, profile=lambda i: "mpstight")
        E.monitor(report, more, "C16", label="search")


ENGINE_RULE = ("state-aware random walks over the engine: user publish/subscribe/unsubscribe/disconnect, open/close, service with "
               "buffer capacities 4..4096 and prefill, write completions, clock advances to/around reported service times, a reference "
               "broker answering timely, late, reordered (and in adversarial walks duplicated, wrong-type, unknown-id, garbage) over "
               "all offline policies, both versions, both drain policies, retry limits, resolvers; distinct by the whole concrete script")


def engine_check(prop, report, tier, seed, n_quick=160, n_thorough=6000, extra=None, **kw):
    import suites_engine as S
    report.rule = ENGINE_RULE
    gv.theorem_obligations(report, f"GV/Props/{prop}.lean", f"GV.Props.{prop}", audit=True)
    walks = S.run_walks(seed, tier, "engine", n_quick, n_thorough, plans=True, **kw)
    corr_ok = S.correspondence(report, walks, prop)
    mon_ok = S.monitor(report, walks, prop)
    if not corr_ok and mon_ok:
        # the tie between model and code broke: search harder for a concrete history on which the
        # property itself fails (more and longer walks, judged by the implementation-level monitor only)
        more = S.run_walks(seed + 1, tier, "engine-search", n_quick * 12, n_thorough, replay_model=False, **kw)
        S.monitor(report, more, prop, label="search")
    if extra:
        extra(report, walks, tier, seed)
    return walks


def check_C01(report, tier, seed):
    import suites_engine as S
    engine_check("C01", report, tier, seed, plan_policies=True)
    S.failing_ack_family(report, "C01")
def check_C04(report, tier, seed):
    import suites_engine as S
    engine_check("C04", report, tier, seed)
    # neither PUBLISH nor PUBREL is ever repeated within one connection, whatever the server repeats
    S.pubrel_race_family(report, "C04")
def check_C05(report, tier, seed):
    engine_check("C05", report, tier, seed)
    import suites_engine as E0
    E0.inbound_chunking_family(report, "C05")
    E0.inbound_qos2_sessions_family(report, "C05")
    import suites_client as SC
    SC.suite_client_inbound(report, tier, seed, "C05")
    import suites_drivers as SD
    SD.suite_real_inbound(report, tier, seed, "C05")
def check_C06(report, tier, seed):
    import suites_engine as S
    engine_check("C06", report, tier, seed)
    # once round the identifier space: the wrap from 65535 to 1, with identifiers still held
    S.packet_id_wrap_family(report, "C06")
def check_C07(report, tier, seed):
    import suites_engine as S
    engine_check("C07", report, tier, seed, profile=lambda i: "connects" if i % 3 == 1 else "default")
    S.exhaustive(report, "C07", 3 if tier == "quick" else 4)
def check_C09(report, tier, seed):
    import suites_engine as S
    engine_check("C09", report, tier, seed)
    S.receive_maximum_resume_family(report, "C09")
    S.slow_start_family(report, "C09")
def check_C10(report, tier, seed):
    import suites_engine as S
    engine_check("C10", report, tier, seed)
    # in-flight publishes go first after a reconnect, also while the new Receive Maximum holds some of them back
    S.receive_maximum_resume_family(report, "C10")
def check_C11(report, tier, seed):
    import suites_engine as S
    engine_check("C11", report, tier, seed, adversarial=True)
    # every ordering of a small alphabet of user, network and timer events (incl. data before open, acks for nothing,
    # garbage, reset anywhere): same responses from model and implementation, and never a panic
    S.exhaustive(report, "C11", 3 if tier == "quick" else 4)
    S.pubrel_race_family(report, "C11")
    S.trailing_empty_field_family(report, "C11")
    S.session_present_family(report, "C11")
    # a server that follows the protocol is never reported as violating it: which inbound size limit is in force
    import suites_codec
    suites_codec.suite_engine_inbound_size(report, "C11")
    # no configuration value the builders accept can make the client panic: the websocket upgrade request for any endpoint string
    import suites_drivers
    suites_drivers.suite_ws_request(report, "C11")
    # the client (engine + event dispatch) against a CONNACK that breaks the protocol or refuses the connection
    import suites_client
    suites_client.suite_hostile_connack(report, tier, seed, "C11")
def check_C14(report, tier, seed):
    import suites_engine as S
    engine_check("C14", report, tier, seed, snap_after_svc=True)
    S.ping_behind_large_publish_family(report, "C14")
    S.ping_queued_at_close_family(report, "C14")
def check_C15(report, tier, seed): engine_check("C15", report, tier, seed, plan_policies=True)
def check_C18(report, tier, seed):
    import suites_engine as S
    engine_check("C18", report, tier, seed)
    S.timeout_at_failing_service_family(report, "C18")
    S.timeout_while_written_family(report, "C18")
    S.timeout_before_close_family(report, "C18")


def check_C17(report, tier, seed):
    import suites_alias as S
    import suites_engine as E
    report.rule = ("resolver sessions: kind in {null, manual, lru(0..65535)}, 1-3 connections with server maxima 0..65535, up to 40 "
                   "resolutions over topic pools above and below the maximum; inbound sessions with alias 0/in range/above, empty topics; "
                   "plus engine walks (alias replay on the decoded client stream; a quarter with a server that re-uses alias numbers it bound on "
                   "earlier connections of a resumed session); distinct by the whole session script")
    gv.theorem_obligations(report, "GV/Props/C17.lean", "GV.Props.C17", audit=True)
    S.suite_alias(report, tier, seed, "C17")
    # half of the walks run with publishes sized around the server's maximum packet size, so that last-chance validation
    # fails for packets whose alias resolution has already been made
    walks = E.run_walks(seed, tier, "engine", 240, 6000, profile=lambda i: "mpstight" if i % 2 == 0 else ("inalias" if i % 4 == 1 else "default"))
    corr_ok = E.correspondence(report, walks, "C17")
    mon_ok = E.monitor(report, walks, "C17")
    E.alias_with_connack_family(report, "C17")
    if not corr_ok and mon_ok:
        more = E.run_walks(seed + 1, tier, "engine-c17-search", 1200, 4000, replay_model=False, profile=lambda i: "mpstight")
        E.monitor(report, more, "C17", label="search")


def check_C08(report, tier, seed):
    import suites_engine as S
    report.rule = ("a simulated minimal driver that calls service only when the reported service time is reached and after each event, "
                   "against a broker that answers everything; operation mixes, receive maximum 1..10, drain policies, buffer capacities "
                   "4..4096 (operations spanning many writes), offline submissions, reconnects; distinct by script")
    gv.theorem_obligations(report, "GV/Props/C08.lean", "GV.Props.C08", audit=True)
    walks = S.run_strict_walks(seed, tier, 150, 5000)
    S.correspondence(report, walks, "C08")
    S.monitor_strict(report, walks, "C08")
    S.due_timeout_family(report, "C08")
    S.delayed_ping_spin_family(report, "C08")
    S.trailing_empty_field_family(report, "C08")


def check_C19(report, tier, seed):
    import suites_client as S
    report.rule = ("reconnect configurations: base/max/stability from {0, 1 ns, sub-ms, 1 s .. 120 s, 2^63 ns, u64::MAX s, Duration::MAX}, "
                   "base>max, jitter none/uniform, 1..70 consecutive waits, then a connection that succeeds and ends; distinct by script")
    gv.theorem_obligations(report, "GV/Props/C19.lean", "GV.Props.C19", audit=True)
    S.suite_backoff(report, tier, seed, "C19")
    S.suite_stability(report, tier, seed, "C19")


def check_C12(report, tier, seed):
    import suites_client as S
    report.rule = ("replica of client_event_loop over the real MqttClientImpl: random interleavings of start/stop/stop-with-DISCONNECT/close/"
                   "publish with transport outcomes (refused, timed out, established, EOF, failing/successful CONNACK, write completions), "
                   "followed by a fairness phase with a reacting transport; distinct by script")
    gv.theorem_obligations(report, "GV/Props/C12.lean", "GV.Props.C12", audit=True)
    S.suite_lifecycle(report, tier, seed, "C12")
    import suites_drivers as SD
    SD.suite_real_lifecycle(report, tier, seed, "C12")


def check_C20(report, tier, seed):
    import suites_aws as S
    report.rule = ("custom-auth configurations: authorizer names over [\\w=,@-] and hostile alphabets (&,=,%,+,space,?,non-ASCII), signatures as raw base64 "
                   "(with +,/,=), pre-encoded (upper/lower hex) and out-of-domain strings, token keys/values, usernames (with '?'), binary passwords; user connect "
                   "options over every field with client id none/empty/set; client options over version x drain x retries x other fields; distinct by request")
    gv.theorem_obligations(report, "GV/Props/C20.lean", "GV.Props.C20", audit=True)
    S.suite_aws(report, tier, seed, "C20")


def check_C13(report, tier, seed):
    import suites_drivers as S
    report.rule = ("(1) websocket sessions: 1-8 server frames (binary/text/ping/close; payloads 0..70000 bytes incl. 125/126/127, 4095/4096/4097, 65535/65536), read "
                   "buffers 1..4096 bytes, frames arriving byte-wise, split, several at once; (2) the real tokio and threaded clients over a scripted transport: "
                   "write accepts of 1..5000 bytes, stalls released while further operations are submitted, read fragments of 1..100 bytes with would-block, "
                   "publish/subscribe/unsubscribe mixes before and after start; (2b) the same with a connection that ends while bytes are unsent (write error after partial acceptance, EOF, stop) "
                   "followed by a reconnect; (3) stop/close races: submissions before, during and after close, from several threads; distinct by request line")
    report.assumptions.append("thread/task interleavings are sampled by running the real drivers, not enumerated; the model covers the write-loop accounting, the websocket read adapter and the result slot")
    gv.theorem_obligations(report, "GV/Props/C13.lean", "GV.Props.C13", audit=True)
    S.suite_ws(report, tier, seed, "C13")
    S.suite_ws_write(report, tier, seed, "C13")
    S.suite_ws_aread(report, tier, seed, "C13")
    S.suite_flush_service(report, "C13")
    S.suite_fidelity(report, tier, seed, "C13")
    S.suite_midbatch_service(report, tier, seed, "C13")
    S.suite_reconnect_fidelity(report, tier, seed, "C13")
    S.suite_results(report, tier, seed, "C13")


CHECKS = {"C13": check_C13, "C20": check_C20, "C08": check_C08, "C12": check_C12, "C19": check_C19, "C01": check_C01, "C02": check_C02, "C03": check_C03, "C04": check_C04, "C05": check_C05, "C06": check_C06,
          "C07": check_C07, "C09": check_C09, "C10": check_C10, "C11": check_C11, "C14": check_C14, "C15": check_C15,
          "C16": check_C16, "C17": check_C17, "C18": check_C18}


def main():
    args = sys.argv[1:]
    if not args:
        print("usage: check <id> [--tier quick|thorough]")
        return 2
    prop = args[0]
    if "--replay" in args:
        import replay
        return replay.main(args[args.index("--replay") + 1])
    tier = os.environ.get("VERIF_TIER", "quick")
    if "--tier" in args:
        tier = args[args.index("--tier") + 1]
    seed = gv.seed_from_env()
    report = Report(prop, tier, seed)
    if prop not in CHECKS:
        print(f"unknown property {prop}")
        return 2
    if common_build(report):
        CHECKS[prop](report, tier, seed)
    code = report.finish()
    dis = sum(1 for o in report.obligations if o.ok)
    print(f"{prop} [{tier}] obligations {dis}/{len(report.obligations)} evaluations={report.evaluations} "
          f"distinct={len(report.distinct)} wall={time.time() - report.t0:.1f}s -> {'OK' if code == 0 else 'VIOLATION'}")
    return code


if __name__ == "__main__":
    sys.exit(main())
