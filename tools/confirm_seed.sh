#!/bin/sh
# confirm_seed.sh <id> [worktree]: verify a seeded change in its scratch worktree:
#  1. patch only: the crate's lib tests still pass   2. patch + demo: the demo fails   3. demo only: the demo passes
id=$1; wt=${2:-/tmp/wt-$id}; cd $wt || exit 2
export CARGO_NET_OFFLINE=true
git checkout -q -- . ; git clean -fdq -e SEED -e target
git apply SEED/patch.diff || { echo "patch does not apply"; exit 2; }
echo "== patch only: lib tests"; cargo test -p gneiss-mqtt --offline --lib 2>&1 | grep -E "^test result|FAILED" | tail -3
if [ -f SEED/demo.diff ]; then
  git apply SEED/demo.diff || { echo "demo does not apply"; exit 2; }
  filt=${3:-}
  echo "== patch + demo"; cargo test -p gneiss-mqtt --offline --lib $filt 2>&1 | grep -E "^test result|FAILED|failed" | tail -6
  git apply -R SEED/patch.diff
  echo "== demo only"; cargo test -p gneiss-mqtt --offline --lib $filt 2>&1 | grep -E "^test result|FAILED|failed" | tail -4
fi
