"""Type-directed generators for MQTT packets in the neutral text format (see verif/text.rs, GV/Text.lean).

Outbound (client) packets follow the shape of the crate's own packet types: every optional field
present or absent, boundary lengths, multi-byte UTF-8, many user properties.  Server packets are
generated at the level of the standard (`s.<kind> ... P<id>=...`) with properties in random order.
"""
from gv import hexs

BOUNDARY = [0, 1, 2, 127, 128, 129, 255, 256, 16383, 16384]
BIG = [65535]
OVER = [65536, 65537, 70000]

UTF8_SNIPPETS = ["a", "topic", "é", "€", "😀", "/", "x/y", "$", " ", "Ω", " ", "퟿", "", "\U0010ffff"]


def gen_len(rng, allow_big=True, allow_over=False):
    r = rng.random()
    if r < 0.55:
        return rng.randint(0, 12)
    if r < 0.85:
        return rng.choice(BOUNDARY)
    if r < 0.93:
        return rng.randint(13, 400)
    if allow_over and r < 0.96:
        return rng.choice(OVER)
    if allow_big:
        return rng.choice(BIG)
    return rng.randint(0, 12)


def gen_utf8(rng, n):
    """a valid UTF-8 string of exactly n bytes (n >= 0)"""
    out = bytearray()
    while len(out) < n:
        left = n - len(out)
        s = rng.choice(UTF8_SNIPPETS).encode()
        if len(s) <= left and rng.chance(0.3):
            out += s
        else:
            out += bytes([rng.randint(0x61, 0x7a)])
    return bytes(out)


def gen_str(rng, allow_big=True, allow_over=False, nonempty=False):
    n = gen_len(rng, allow_big, allow_over)
    if nonempty and n == 0:
        n = 1
    return gen_utf8(rng, n)


def gen_bin(rng, allow_big=True, allow_over=False):
    n = gen_len(rng, allow_big, allow_over)
    if n > 2000:
        return bytes([rng.randint(0, 255)]) * n
    return bytes(rng.randint(0, 255) for _ in range(n))


def gen_topic(rng, allow_big=False):
    if rng.chance(0.8):
        segs = [rng.choice(["a", "b", "sensor", "é", "t1", "x" * rng.randint(1, 9)]) for _ in range(rng.randint(1, 4))]
        return "/".join(segs).encode()
    s = gen_str(rng, allow_big=allow_big, nonempty=True)
    return s.replace(b"#", b"h").replace(b"+", b"p")


def gen_ups(rng, key="up", allow_over=False):
    r = rng.random()
    if r < 0.5:
        return []
    if r < 0.55:
        return [f"{key}e=1"]
    n = rng.choice([1, 1, 2, 3, 5, 12]) if r < 0.97 else 60
    out = []
    for _ in range(n):
        small = n > 5
        name = gen_utf8(rng, rng.randint(0, 6)) if small else gen_str(rng, allow_big=rng.chance(0.05), allow_over=allow_over and rng.chance(0.3))
        val = gen_utf8(rng, rng.randint(0, 6)) if small else gen_str(rng, allow_big=rng.chance(0.05), allow_over=allow_over and rng.chance(0.3))
        out.append(f"{key}={hexs(name)}:{hexs(val)}")
    return out


def opt(rng, p=0.5):
    return rng.chance(p)


def gen_publish_fields(rng, prefix="", outbound=True, allow_over=False, qos=None, pid=None):
    f = []
    q = qos if qos is not None else rng.choice([0, 1, 2])
    if pid is None:
        pid = 0 if q == 0 else rng.choice([1, 2, 255, 256, 65535, rng.randint(1, 65535)])
    f.append(f"{prefix}pid={pid}")
    f.append(f"{prefix}topic={hexs(gen_topic(rng, allow_big=rng.chance(0.03)))}")
    f.append(f"{prefix}qos={q}")
    f.append(f"{prefix}dup={1 if (q > 0 and rng.chance(0.2)) else 0}")
    f.append(f"{prefix}retain={1 if rng.chance(0.3) else 0}")
    if opt(rng, 0.8):
        f.append(f"{prefix}payload={hexs(gen_bin(rng, allow_big=rng.chance(0.1), allow_over=rng.chance(0.05)))}")
    if opt(rng, 0.3):
        f.append(f"{prefix}pfi={rng.choice([0, 1])}")
    if opt(rng, 0.3):
        f.append(f"{prefix}mei={rng.choice([0, 1, 255, 65536, 4294967295])}")
    if prefix == "" and opt(rng, 0.2):
        f.append(f"ta={rng.choice([1, 2, 10, 65535])}")
    if opt(rng, 0.3):
        f.append(f"{prefix}rt={hexs(gen_topic(rng))}")
    if opt(rng, 0.3):
        f.append(f"{prefix}cd={hexs(gen_bin(rng, allow_big=rng.chance(0.05), allow_over=allow_over))}")
    if opt(rng, 0.3):
        f.append(f"{prefix}ct={hexs(gen_str(rng, allow_big=rng.chance(0.05), allow_over=allow_over))}")
    f += gen_ups(rng, prefix + "up", allow_over=allow_over)
    return f


def gen_connect(rng, allow_over=False):
    f = ["connect", f"ka={rng.choice([0, 1, 60, 1200, 65535])}", f"clean={rng.choice([0, 1])}"]
    if opt(rng, 0.7):
        f.append(f"cid={hexs(gen_str(rng, allow_big=rng.chance(0.03), allow_over=allow_over and rng.chance(0.2)))}")
    if opt(rng, 0.5):
        f.append(f"user={hexs(gen_str(rng, allow_big=rng.chance(0.03), allow_over=allow_over and rng.chance(0.2)))}")
    if opt(rng, 0.5):
        f.append(f"pass={hexs(gen_bin(rng, allow_big=rng.chance(0.03), allow_over=allow_over and rng.chance(0.2)))}")
    if opt(rng, 0.4):
        f.append(f"sei={rng.choice([0, 1, 3600, 4294967295])}")
    if opt(rng, 0.3):
        f.append(f"rri={rng.choice([0, 1])}")
    if opt(rng, 0.3):
        f.append(f"rpi={rng.choice([0, 1])}")
    if opt(rng, 0.4):
        f.append(f"rm={rng.choice([1, 10, 65535])}")
    if opt(rng, 0.4):
        f.append(f"tam={rng.choice([0, 1, 10, 65535])}")
    if opt(rng, 0.4):
        f.append(f"mps={rng.choice([1, 128, 65536, 268435455, 4294967295])}")
    if opt(rng, 0.3):
        f.append(f"wdi={rng.choice([0, 5, 4294967295])}")
    if opt(rng, 0.4):
        f += gen_publish_fields(rng, "w.", allow_over=allow_over)
    f += gen_ups(rng, "up", allow_over=allow_over)
    return " ".join(f)


def gen_publish(rng, allow_over=False):
    return " ".join(["publish"] + gen_publish_fields(rng, "", allow_over=allow_over))


def gen_ack(rng, kind, allow_over=False):
    codes = {"puback": [0, 16, 128, 131, 135, 144, 145, 151, 153], "pubrec": [0, 16, 128, 131, 135, 144, 145, 151, 153],
             "pubrel": [0, 146], "pubcomp": [0, 146]}[kind]
    f = [kind, f"pid={rng.choice([1, 2, 256, 65535, rng.randint(1, 65535)])}", f"rc={rng.choice(codes) if rng.chance(0.5) else 0}"]
    if opt(rng, 0.3):
        f.append(f"rs={hexs(gen_str(rng, allow_big=rng.chance(0.05), allow_over=allow_over))}")
    f += gen_ups(rng, "up", allow_over=allow_over)
    return " ".join(f)


FILTERS = ["a/b", "a/+", "a/#", "#", "+", "+/+", "$share/g/a", "$share/g/a/#", "é/x", "a", "/", "a//b"]


def gen_filter(rng):
    if rng.chance(0.8):
        return rng.choice(FILTERS).encode()
    return gen_str(rng, allow_big=rng.chance(0.05), nonempty=True)


def gen_subscribe(rng, allow_over=False):
    f = ["subscribe", f"pid={rng.choice([1, 7, 65535])}"]
    n = rng.choice([1, 1, 2, 3, 8]) if rng.chance(0.97) else 40
    for _ in range(n):
        f.append(f"sub={hexs(gen_filter(rng))}:{rng.choice([0, 1, 2])}:{rng.choice([0, 1])}:{rng.choice([0, 1])}:{rng.choice([0, 1, 2])}")
    if opt(rng, 0.3):
        f.append(f"subid={rng.choice([1, 127, 128, 16384, 268435455])}")
    f += gen_ups(rng, "up", allow_over=allow_over)
    return " ".join(f)


def gen_unsubscribe(rng, allow_over=False):
    f = ["unsubscribe", f"pid={rng.choice([1, 7, 65535])}"]
    n = rng.choice([1, 1, 2, 3, 8]) if rng.chance(0.97) else 40
    for _ in range(n):
        f.append(f"tf={hexs(gen_filter(rng))}")
    f += gen_ups(rng, "up", allow_over=allow_over)
    return " ".join(f)


DISCONNECT_CODES = [0, 4, 128, 129, 130, 131, 135, 137, 139, 141, 142, 143, 144, 147, 148, 149, 150, 151, 152, 153, 154, 155,
                    156, 157, 158, 159, 160, 161, 162]


def gen_disconnect(rng, allow_over=False):
    f = ["disconnect", f"rc={rng.choice(DISCONNECT_CODES) if rng.chance(0.6) else 0}"]
    if opt(rng, 0.3):
        f.append(f"sei={rng.choice([0, 1, 4294967295])}")
    if opt(rng, 0.3):
        f.append(f"rs={hexs(gen_str(rng, allow_big=rng.chance(0.05), allow_over=allow_over))}")
    f += gen_ups(rng, "up", allow_over=allow_over)
    if opt(rng, 0.2):
        f.append(f"sr={hexs(gen_str(rng, allow_big=False, allow_over=allow_over))}")
    return " ".join(f)


def gen_outbound(rng, allow_over=False):
    """one packet the client can emit"""
    k = rng.choice(["connect", "publish", "publish", "publish", "subscribe", "unsubscribe", "disconnect",
                    "puback", "pubrec", "pubrel", "pubcomp", "pingreq"])
    if k == "connect":
        return gen_connect(rng, allow_over)
    if k == "publish":
        return gen_publish(rng, allow_over)
    if k == "subscribe":
        return gen_subscribe(rng, allow_over)
    if k == "unsubscribe":
        return gen_unsubscribe(rng, allow_over)
    if k == "disconnect":
        return gen_disconnect(rng, allow_over)
    if k == "pingreq":
        return "pingreq"
    return gen_ack(rng, k, allow_over)


def gen_caps(rng):
    """a capacity sequence: each >= 4, optional prefill leaving >= 0 free"""
    r = rng.random()
    if r < 0.2:
        return "4096"
    if r < 0.3:
        return str(rng.choice([4, 5, 6, 7, 8]))
    n = rng.randint(1, 6)
    caps = []
    for _ in range(n):
        c = rng.choice([4, 5, 6, 7, 8, 9, 12, 16, 31, 64, 128, 1000, 4096, 70000])
        if rng.chance(0.25):
            caps.append(f"{c}:{rng.randint(0, c)}")
        else:
            caps.append(str(c))
    # the last capacity repeats forever: it must leave at least 4 bytes free
    last = caps[-1]
    if ":" in last:
        c, p = last.split(":")
        if int(c) - int(p) < 4:
            caps[-1] = c
    return ",".join(caps)


# ------------------------------------------------------------------------------------------------
# server packets at the level of the standard
# ------------------------------------------------------------------------------------------------

def prop_val(rng, pid, valid=True):
    kinds = {1: "byte", 2: "four", 3: "str", 8: "str", 9: "bin", 11: "vbi", 17: "four", 18: "str", 19: "two", 21: "str",
             22: "bin", 23: "byte", 24: "four", 25: "byte", 26: "str", 28: "str", 31: "str", 33: "two", 34: "two",
             35: "two", 36: "byte", 37: "byte", 38: "pair", 39: "four", 40: "byte", 41: "byte", 42: "byte"}
    k = kinds[pid]
    if k == "byte":
        return str(rng.choice([0, 1]))
    if k == "two":
        return str(rng.choice([1, 2, 255, 256, 65535]))
    if k == "four":
        return str(rng.choice([1, 255, 65536, 4294967295]))
    if k == "vbi":
        return str(rng.choice([1, 127, 128, 16383, 16384, 2097151, 2097152, 268435455]))
    if k == "str":
        return hexs(gen_str(rng, allow_big=rng.chance(0.03)))
    if k == "bin":
        return hexs(gen_bin(rng, allow_big=rng.chance(0.03)))
    return hexs(gen_utf8(rng, rng.randint(0, 8))) + ":" + hexs(gen_utf8(rng, rng.randint(0, 8)))


def gen_props(rng, allowed, multi=(38,)):
    ids = [p for p in allowed if p not in multi and rng.chance(0.4)]
    for m in multi:
        if m in allowed and rng.chance(0.4):
            ids += [m] * rng.choice([1, 2, 3])
    rng.shuffle(ids)
    return [f"P{p}={prop_val(rng, p)}" for p in ids]


SPEC_CODES = {
    "connack": [0, 128, 129, 130, 131, 132, 133, 134, 135, 136, 137, 138, 140, 144, 149, 151, 153, 154, 155, 156, 157, 159],
    "puback": [0, 16, 128, 131, 135, 144, 145, 151, 153],
    "pubrec": [0, 16, 128, 131, 135, 144, 145, 151, 153],
    "pubrel": [0, 146], "pubcomp": [0, 146],
    "suback": [0, 1, 2, 128, 131, 135, 143, 145, 151, 158, 161, 162],
    "unsuback": [0, 17, 128, 131, 135, 143, 145],
    "disconnect": [0, 128, 129, 130, 131, 135, 137, 139, 141, 142, 143, 144, 147, 148, 149, 150, 151, 152, 153, 154, 155, 156,
                   157, 158, 159, 160, 161, 162],
}


def gen_server(rng, v):
    """a well-formed server packet (standard-level text), any reason code the standard allows"""
    kinds = ["connack", "publish", "publish", "puback", "pubrec", "pubrel", "pubcomp", "suback", "unsuback", "pingresp"]
    if v == 5:
        kinds.append("disconnect")
    k = rng.choice(kinds)
    pid = rng.choice([1, 2, 255, 256, 65535, rng.randint(1, 65535)])
    if k == "connack":
        if v == 5:
            rc = rng.choice(SPEC_CODES["connack"]) if rng.chance(0.5) else 0
            sp = 1 if (rc == 0 and rng.chance(0.4)) else 0
            props = gen_props(rng, [17, 33, 36, 37, 39, 18, 34, 31, 38, 40, 41, 42, 19, 26, 28, 21, 22])
            return " ".join([f"s.connack sp={sp} rc={rc}"] + props)
        rc = rng.choice([0, 132, 133, 136, 134, 135])
        return f"s.connack sp={1 if (rc == 0 and rng.chance(0.4)) else 0} rc={rc}"
    if k == "publish":
        q = rng.choice([0, 1, 2])
        topic = gen_topic(rng) if rng.chance(0.9) else b""
        payload = gen_bin(rng, allow_big=rng.chance(0.05)) if rng.chance(0.8) else b""
        f = [f"s.publish dup={1 if (q > 0 and rng.chance(0.3)) else 0} qos={q} retain={rng.choice([0, 1])} topic={hexs(topic)} pid={pid if q else 0} payload={hexs(payload)}"]
        if v == 5:
            f += gen_props(rng, [1, 2, 35, 8, 9, 38, 11, 3], multi=(38, 11))
        return " ".join(f)
    if k in ("puback", "pubrec", "pubrel", "pubcomp"):
        rc = (rng.choice(SPEC_CODES[k]) if rng.chance(0.6) else 0) if v == 5 else 0
        props = gen_props(rng, [31, 38]) if v == 5 else []
        return " ".join([f"s.{k} pid={pid} rc={rc}"] + props)
    if k == "suback":
        codes = SPEC_CODES["suback"] if v == 5 else [0, 1, 2, 128]
        n = rng.choice([0, 1, 1, 2, 5, 30])
        props = gen_props(rng, [31, 38]) if v == 5 else []
        return " ".join([f"s.suback pid={pid}"] + props + [f"rc={rng.choice(codes)}" for _ in range(n)])
    if k == "unsuback":
        n = rng.choice([0, 1, 1, 2, 5, 30]) if v == 5 else 0
        props = gen_props(rng, [31, 38]) if v == 5 else []
        return " ".join([f"s.unsuback pid={pid}"] + props + [f"rc={rng.choice(SPEC_CODES['unsuback'])}" for _ in range(n)])
    if k == "pingresp":
        return "s.pingresp"
    rc = rng.choice(SPEC_CODES["disconnect"]) if rng.chance(0.7) else 0
    return " ".join([f"s.disconnect rc={rc}"] + gen_props(rng, [31, 38, 28]))


def chunkings(rng, data, n):
    """n different partitions of `data` into read chunks (including 1-byte reads)"""
    out = [[data]] if data else [[b""]]
    if len(data) <= 64:
        out.append([data[i:i + 1] for i in range(len(data))])
    else:
        # 1-byte reads through the fixed header (type byte and every length byte), then the rest
        out.append([data[i:i + 1] for i in range(6)] + [data[6:]])
    while len(out) < n:
        cuts = sorted({rng.randint(0, len(data)) for _ in range(rng.choice([1, 2, 3, 6]))}) if data else []
        if data and rng.chance(0.4):
            cuts = sorted(set(cuts) | {rng.randint(1, min(5, len(data)))})
        parts, prev = [], 0
        for c in cuts:
            parts.append(data[prev:c])
            prev = c
        parts.append(data[prev:])
        if rng.chance(0.5):
            parts = [p for p in parts if p]
        out.append(parts or [b""])
    return out[:n]


def mutate(rng, data):
    """byte-level mutation of a valid stream"""
    b = bytearray(data)
    r = rng.random()
    if not b:
        return bytes([rng.randint(0, 255)])
    if r < 0.3:
        i = rng.randrange(len(b))
        b[i] ^= 1 << rng.randint(0, 7)
    elif r < 0.45:
        del b[rng.randrange(len(b)):]
    elif r < 0.6:
        i = rng.randrange(len(b))
        b[i] = rng.choice([0, 1, 2, 0x7f, 0x80, 0xff, rng.randint(0, 255)])
    elif r < 0.7:
        i = rng.randrange(len(b) + 1)
        b[i:i] = bytes(rng.randint(0, 255) for _ in range(rng.randint(1, 4)))
    elif r < 0.8 and len(b) > 1:
        # edit the remaining-length prefix
        b[1] = rng.choice([0, 1, 0x7f, 0x80, 0xff, b[1] ^ 1, (b[1] + 1) & 0xff])
    elif r < 0.9:
        i = rng.randrange(len(b))
        del b[i]
    else:
        return bytes(rng.randint(0, 255) for _ in range(rng.randint(1, 40)))
    return bytes(b)


# ------------------------------------------------------------------------------------------------
# validation-oriented generation: filters over a small alphabet, limits around packet sizes
# ------------------------------------------------------------------------------------------------

FILTER_ATOMS = ["/", "+", "#", "$share", "a", "b", "", "g", "é"]


def gen_filter_alpha(rng):
    n = rng.choice([1, 2, 3, 3, 4, 5, 6])
    s = "".join(rng.choice(FILTER_ATOMS) for _ in range(n))
    if rng.chance(0.5):
        # bias toward $share shapes
        s = "$share" + "".join(rng.choice(["/", "/", "g", "+", "#", "a", ""]) for _ in range(rng.randint(0, 5)))
    return s.encode()


STRING_KEYS = {"topic", "rt", "ct", "rs", "sr", "cid", "user", "am", "w.topic", "w.rt", "w.ct"}


def inject_nul(rng, pkt):
    """put the null character (one 0x00 byte; forbidden in every UTF-8 string field, [MQTT-1.5.4-2], and in topic names and
    filters, [MQTT-4.7.3-2]) into one string-valued field of the packet text"""
    toks = pkt.split(" ")
    cand = [i for i, t in enumerate(toks) if "=" in t and (t.split("=")[0] in STRING_KEYS or t.split("=")[0] in ("sub", "tf", "up", "w.up"))]
    if not cand:
        return pkt
    i = rng.choice(cand)
    k, v = toks[i].split("=", 1)

    def poke(hexstr):          # 'x6162' -> 'x610062'
        body = bytes.fromhex(hexstr[1:])
        # only at a character boundary: the string stays valid UTF-8
        spots = [i for i in range(len(body) + 1) if i == len(body) or (body[i] & 0xC0) != 0x80]
        pos = rng.choice(spots)
        return "x" + (body[:pos] + b"\x00" + body[pos:]).hex()
    if k in ("up", "w.up"):
        a, b = v.split(":", 1)
        v = (poke(a) + ":" + b) if rng.chance(0.5) else (a + ":" + poke(b))
    elif k == "sub":
        parts = v.split(":")
        parts[0] = poke(parts[0])
        v = ":".join(parts)
    else:
        v = poke(v)
    toks[i] = k + "=" + v
    return " ".join(toks)


def gen_validation_packet(rng):
    """a packet for the validators: valid shapes plus exactly the things the validators must catch"""
    pkt = gen_validation_packet0(rng)
    if rng.chance(0.12):
        pkt = inject_nul(rng, pkt)
    return pkt


def gen_validation_packet0(rng):
    k = rng.choice(["publish", "publish", "subscribe", "subscribe", "unsubscribe", "disconnect", "puback", "connect"])
    if k == "publish":
        f = gen_publish_fields(rng, "", allow_over=True)
        f = [x for x in f if not x.startswith("pid=") and not x.startswith("dup=")]
        f.append(f"pid={0 if rng.chance(0.9) else 5}")
        f.append(f"dup={0 if rng.chance(0.95) else 1}")
        if rng.chance(0.1):
            f = [x for x in f if not x.startswith("topic=")] + [f"topic={hexs(gen_filter_alpha(rng))}"]
        if rng.chance(0.1):
            f = [x for x in f if not x.startswith("ta=")] + ["ta=0"]
        if rng.chance(0.05):
            f.append("sids=1")
        if rng.chance(0.1):
            f = [x for x in f if not x.startswith("rt=")] + [f"rt={hexs(gen_filter_alpha(rng))}"]
        return "publish " + " ".join(f)
    if k == "subscribe":
        f = ["subscribe", f"pid={0 if rng.chance(0.5) else 9}"]
        for _ in range(rng.choice([0, 1, 1, 1, 2, 3])):
            flt = gen_filter_alpha(rng) if rng.chance(0.7) else gen_filter(rng)
            f.append(f"sub={hexs(flt)}:{rng.choice([0, 1, 2])}:{rng.choice([0, 0, 1])}:{rng.choice([0, 1])}:{rng.choice([0, 1, 2])}")
        if rng.chance(0.3):
            f.append(f"subid={rng.choice([0, 1, 127, 128, 268435455, 268435456, 4294967295])}")
        f += gen_ups(rng, "up", allow_over=True)
        return " ".join(f)
    if k == "unsubscribe":
        f = ["unsubscribe", f"pid={0 if rng.chance(0.5) else 9}"]
        for _ in range(rng.choice([0, 1, 1, 1, 2, 3])):
            flt = gen_filter_alpha(rng) if rng.chance(0.7) else gen_filter(rng)
            f.append(f"tf={hexs(flt)}")
        f += gen_ups(rng, "up", allow_over=True)
        return " ".join(f)
    if k == "disconnect":
        return gen_disconnect(rng, allow_over=True)
    if k == "connect":
        return gen_connect(rng, allow_over=True)
    return gen_ack(rng, "puback", allow_over=True)


def gen_settings(rng, size_hint=None):
    f = []
    if rng.chance(0.5):
        f.append(f"mq={rng.choice([0, 1, 2])}")
    if rng.chance(0.4):
        f.append(f"ra={rng.choice([0, 1])}")
    if rng.chance(0.4):
        f.append(f"wsa={rng.choice([0, 1])}")
    if rng.chance(0.4):
        f.append(f"sia={rng.choice([0, 1])}")
    if rng.chance(0.4):
        f.append(f"ssa={rng.choice([0, 1])}")
    if rng.chance(0.5):
        base = size_hint if size_hint is not None else rng.choice([10, 100, 1000])
        f.append(f"mps={max(1, base + rng.choice([-2, -1, 0, 1, 2, 50]))}")
    if rng.chance(0.3):
        f.append(f"csei={rng.choice([0, 10])}")
    return " ".join(f)
