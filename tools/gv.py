#!/usr/bin/env python3
"""Shared machinery of the gneiss-mqtt verification checks.

Builds the Rust harness from /repo's current working tree (feature `verif`) and the Lean project
(model, specification, theorems, compiled driver), talks to both through the same line protocol,
and records what a run covered.  No randomness outside `Rng`; every choice derives from VERIF_SEED.
"""
import json, os, random, re, subprocess, sys, time, hashlib, shutil

VERIF = os.path.dirname(os.path.dirname(os.path.abspath(__file__)))
REPO = "/repo"
LEAN_DIR = os.path.join(VERIF, "lean")
HARNESS_DIR = os.path.join(VERIF, "harness")
TARGET_DIR = os.path.join(VERIF, ".build", "target")
HARNESS_BIN = os.path.join(TARGET_DIR, "release", "gv-harness")
DRIVER_BIN = os.path.join(LEAN_DIR, ".lake", "build", "bin", "gvdriver")
EVIDENCE_DIR = os.path.join(VERIF, "evidence")
REPLAY_DIR = os.path.join(VERIF, "replays")
KNOWN_FINDINGS = os.path.join(VERIF, "known_findings.jsonl")

ENV = dict(os.environ)
ENV["CARGO_NET_OFFLINE"] = "true"
ENV["CARGO_TARGET_DIR"] = TARGET_DIR

TRUSTED_BASE = [
    "Lean 4.33.0 kernel (theorems re-checked by `lake build`; `leanchecker` in the thorough tier)",
    "axioms: at most propext, Classical.choice, Quot.sound (audited with #print axioms); no sorry/admit/native_decide/bv_decide",
    "Spec/*.lean: my reading of the OASIS MQTT 5.0 / 3.1.1 texts (the meaning of 'conformant')",
    "hand-written Lean model tied to the code by exhaustive table observation and seeded differential correspondence (sampled)",
    "the `verif` facade in /repo and the harness are trusted to report what the code did",
    "std collections, lru, rand, uuid, urlencoding, tungstenite, tokio are modelled, not verified",
]


def seed_from_env():
    try:
        return int(os.environ.get("VERIF_SEED", "20260923"))
    except ValueError:
        return 20260923


class Rng(random.Random):
    """All random choices of a run come from one of these, seeded from VERIF_SEED and a label."""

    def __init__(self, seed, label=""):
        h = hashlib.sha256(f"{seed}:{label}".encode()).digest()
        super().__init__(int.from_bytes(h[:8], "big"))

    def chance(self, p):
        return self.random() < p


def run(cmd, cwd=None, timeout=3600, env=None):
    p = subprocess.run(cmd, cwd=cwd, env=env or ENV, stdout=subprocess.PIPE, stderr=subprocess.STDOUT,
                       text=True, timeout=timeout)
    return p.returncode, p.stdout


def ensure_lockfile():
    lock = os.path.join(HARNESS_DIR, "Cargo.lock")
    src = os.path.join(REPO, "Cargo.lock")
    if not os.path.exists(lock) and os.path.exists(src):
        shutil.copy(src, lock)


def build_harness():
    """cargo build of the harness against /repo's current working tree. Returns (ok, log)."""
    ensure_lockfile()
    rc, out = run(["cargo", "build", "--release", "--offline"], cwd=HARNESS_DIR, timeout=3600)
    return rc == 0 and os.path.exists(HARNESS_BIN), out


def build_lean(targets=None):
    """lake build (model, spec, theorems, driver). Returns (ok, log)."""
    cmd = ["lake", "build"] + (targets or [])
    # checks may run side by side (tools/allquick.sh, a parallel thorough run): two `lake build`s in one package race on the
    # .olean files of the modules both need, so builds take turns
    import fcntl
    with open(os.path.join(LEAN_DIR, ".lake-build.lock"), "w") as lk:
        fcntl.flock(lk, fcntl.LOCK_EX)
        try:
            rc, out = run(cmd, cwd=LEAN_DIR, timeout=7200)
        finally:
            fcntl.flock(lk, fcntl.LOCK_UN)
    return rc == 0, out


class Proc:
    """A co-process speaking the line protocol (one request line -> one response line)."""

    def __init__(self, argv, name):
        self.name = name
        self.argv = argv
        self.p = subprocess.Popen(argv + ["--interactive"], stdin=subprocess.PIPE, stdout=subprocess.PIPE,
                                  stderr=subprocess.DEVNULL, text=True, bufsize=1)
        self.requests = 0

    def ask(self, line):
        self.requests += 1
        try:
            self.p.stdin.write(line + "\n")
            self.p.stdin.flush()
            resp = self.p.stdout.readline()
        except BrokenPipeError:
            resp = ""
        if resp == "":
            # the process died (abort / stack overflow): report and restart
            self.restart()
            return "res=died"
        return resp.rstrip("\n")

    def restart(self):
        try:
            self.p.kill()
        except Exception:
            pass
        self.p = subprocess.Popen(self.argv + ["--interactive"], stdin=subprocess.PIPE, stdout=subprocess.PIPE,
                                  stderr=subprocess.DEVNULL, text=True, bufsize=1)

    def close(self):
        try:
            self.p.stdin.close()
            self.p.wait(timeout=10)
        except Exception:
            self.p.kill()


def batch(argv, lines, timeout=3600):
    """Non-interactive: feed all request lines, get all response lines."""
    p = subprocess.run(argv, input="\n".join(lines) + "\n", stdout=subprocess.PIPE, stderr=subprocess.DEVNULL,
                       text=True, timeout=timeout)
    out = p.stdout.split("\n")
    if out and out[-1] == "":
        out.pop()
    return out


def harness_batch(lines):
    return batch([HARNESS_BIN], lines)


def harness_batch_parallel(lines, jobs=6):
    """for requests that carry no state from one line to the next (whole-driver scenarios): several harness processes"""
    from concurrent.futures import ThreadPoolExecutor
    if len(lines) < 2 * jobs:
        return harness_batch(lines)
    parts = [lines[i::jobs] for i in range(jobs)]
    with ThreadPoolExecutor(max_workers=jobs) as ex:
        outs = list(ex.map(harness_batch, parts))
    res = [None] * len(lines)
    for i, o in enumerate(outs):
        for k, line in enumerate(o):
            res[i + k * jobs] = line
    return res


def driver_batch(lines):
    return batch([DRIVER_BIN], lines)


def hexs(b):
    return "x" + bytes(b).hex()


def unhex(s):
    assert s.startswith("x"), s
    return bytes.fromhex(s[1:])


def parse_kv(text):
    """'<kind> k=v k=v' -> (kind, [(k, v)...])"""
    parts = [p for p in text.strip().split(" ") if p]
    if not parts:
        return "", []
    kv = []
    for p in parts[1:]:
        if "=" in p:
            k, v = p.split("=", 1)
        else:
            k, v = p, ""
        kv.append((k, v))
    return parts[0], kv


def kv_get(kv, key, default=None):
    for k, v in kv:
        if k == key:
            return v
    return default


def resp_fields(resp):
    """'res=ok a=b | x | y' -> ({'res':..}, [payload segments])"""
    segs = resp.split(" | ")
    _, kv = parse_kv("r " + segs[0])
    return dict(kv), segs[1:]


# ---------------------------------------------------------------------------------------------
# obligations, violations, evidence
# ---------------------------------------------------------------------------------------------

class Obligation:
    def __init__(self, name, kind, detail=""):
        self.name = name          # e.g. theorem name, table name, suite name
        self.kind = kind          # theorem | table | correspondence | monitor | build
        self.detail = detail
        self.ok = None
        self.note = ""


class Finding:
    """One failing case: which property, which clause, the concrete input (if any)."""

    def __init__(self, prop, clause, signature, what, replay_lines=None, has_input=True):
        self.prop = prop
        self.clause = clause
        self.signature = signature      # structural identity used to match known findings
        self.what = what
        self.replay_lines = replay_lines or []
        self.has_input = has_input


def load_known_findings():
    out = []
    if os.path.exists(KNOWN_FINDINGS):
        for line in open(KNOWN_FINDINGS):
            line = line.strip()
            if line and not line.startswith("#"):
                out.append(json.loads(line))
    return out


class Report:
    def __init__(self, prop, tier, seed):
        self.prop = prop
        self.tier = tier
        self.seed = seed
        self.t0 = time.time()
        self.obligations = []
        self.findings = []
        self.evaluations = 0
        self.distinct = set()
        self.traces_validated = 0
        self.samples = []
        self.distribution = {}
        self.rule = ""
        self.assumptions = []
        self.exhaustive_tables = 0

    def obligation(self, name, kind, ok, note=""):
        o = Obligation(name, kind)
        o.ok = bool(ok)
        o.note = note
        self.obligations.append(o)
        return o

    def count(self, key, n=1):
        self.distribution[key] = self.distribution.get(key, 0) + n

    def case(self, canonical, nontrivial=True):
        self.evaluations += 1
        if nontrivial:
            self.distinct.add(hashlib.sha1(canonical.encode()).hexdigest())

    def sample(self, s, limit=6):
        if len(self.samples) < limit:
            self.samples.append(s)

    def add_finding(self, f):
        self.findings.append(f)

    def finish(self):
        """Write evidence, replays; print KNOWN-FINDING / VIOLATION lines; return exit code."""
        known = [k for k in load_known_findings() if k.get("property") == self.prop and k.get("status") == "open"]
        violations = []
        known_hits = {}
        for f in self.findings:
            hit = None
            for k in known:
                if k.get("signature") == f.signature:
                    hit = k
                    break
            if hit is not None:
                known_hits.setdefault(json.dumps(hit["signature"], sort_keys=True) + "|" + f.clause, (hit, f))
            else:
                violations.append(f)
        shown = set()
        for _, (k, f) in sorted(known_hits.items()):
            line = f"KNOWN-FINDING: property={self.prop} {k.get('what', f.what)}"
            if line not in shown:
                shown.add(line)
                print(line)
        # an obligation all of whose failing cases are listed known findings counts as discharged
        # (the property is then claimed only outside the listed cases: see the _partial theorems)
        violation_clauses = {f.clause for f in violations}
        known_clauses = {f.clause for _, (k, f) in known_hits.items()}
        for o in self.obligations:
            if not o.ok and o.name in known_clauses and o.name not in violation_clauses:
                o.ok = True
                o.note += " [holds except for listed known findings]"
        # broken obligations with no failing input are violations too
        failed_obls = [o for o in self.obligations if not o.ok]
        exit_code = 0
        os.makedirs(os.path.join(REPLAY_DIR, self.prop), exist_ok=True)
        for old in os.listdir(os.path.join(REPLAY_DIR, self.prop)):
            if old.startswith(self.tier + "-"):
                os.remove(os.path.join(REPLAY_DIR, self.prop, old))
        printed = set()
        n = 0
        for f in violations:
            sig = json.dumps(f.signature, sort_keys=True)
            if sig in printed:
                continue
            printed.add(sig)
            n += 1
            path = os.path.join(REPLAY_DIR, self.prop, f"{self.tier}-{n}.replay")
            with open(path, "w") as fh:
                fh.write(f"# property={self.prop} clause={f.clause}\n# what: {f.what}\n# signature: {sig}\n")
                for line in f.replay_lines:
                    fh.write(line + "\n")
            tail = "" if f.has_input else " no-failing-input-found"
            print(f"VIOLATION property={self.prop} replay={path}{tail}")
            exit_code = 1
        # obligations that failed and are not explained by a finding carrying an input
        explained = {f.clause for f in self.findings}
        for o in failed_obls:
            if o.name in explained:
                continue
            n += 1
            path = os.path.join(REPLAY_DIR, self.prop, f"{self.tier}-{n}.replay")
            with open(path, "w") as fh:
                fh.write(f"# property={self.prop}\n# obligation no longer checks: {o.kind} {o.name}\n# {o.note}\n")
            print(f"VIOLATION property={self.prop} replay={path} no-failing-input-found")
            exit_code = 1
        self.write_evidence(len(violations) + sum(1 for o in failed_obls if o.name not in explained))
        return exit_code

    def write_evidence(self, nviol):
        os.makedirs(EVIDENCE_DIR, exist_ok=True)
        obl = len(self.obligations)
        dis = sum(1 for o in self.obligations if o.ok)
        ev = {
            "property_id": self.prop,
            "tier": self.tier,
            "seed": self.seed,
            "level": "proof",
            "coverage": {
                "obligations": max(obl, 1),
                "discharged": dis,
                "checker_cmd": f"cd {LEAN_DIR} && lake build  (kernel re-checks every theorem; ./check {self.prop} --tier {self.tier} runs the table tie, correspondence and monitors)",
                "trusted_base": TRUSTED_BASE,
                "obligation_list": [{"name": o.name, "kind": o.kind, "ok": o.ok, "note": o.note} for o in self.obligations],
                "evaluations": self.evaluations,
                "distinct_nontrivial": len(self.distinct),
                "rule": self.rule,
                "samples": self.samples if self.samples else ["(no sampled case in this run)"],
                "traces_validated_against_impl": self.traces_validated,
                "distribution": self.distribution,
                "known_findings_matched": sorted({json.dumps(f.signature, sort_keys=True) for f in self.findings}),
            },
            "assumptions": self.assumptions,
            "wall_s": round(time.time() - self.t0, 2),
            "violations": nviol,
        }
        with open(os.path.join(EVIDENCE_DIR, f"{self.prop}.json"), "w") as fh:
            json.dump(ev, fh, indent=1)


# ---------------------------------------------------------------------------------------------
# theorem obligations: the Props module must build; axioms are audited
# ---------------------------------------------------------------------------------------------

FORBIDDEN = re.compile(r"\b(sorry|admit|native_decide|bv_decide|implemented_by|unsafe)\b|^axiom\s|maxHeartbeats 0")


def strip_comments(src):
    src = re.sub(r"/-.*?-/", "", src, flags=re.S)
    src = re.sub(r"--.*", "", src)
    return src


def forbidden_hits():
    hits = []
    for root, _, files in os.walk(os.path.join(LEAN_DIR, "GV")):
        for f in files:
            if f.endswith(".lean"):
                p = os.path.join(root, f)
                src = strip_comments(open(p).read())
                for i, line in enumerate(src.split("\n")):
                    if FORBIDDEN.search(line):
                        hits.append(f"{p}:{i + 1}: {line.strip()[:80]}")
    return hits


def theorems_of(module_path):
    """names of theorems declared in a Props file"""
    src = strip_comments(open(module_path).read())
    return re.findall(r"^\s*theorem\s+([A-Za-z0-9_.']+)", src, flags=re.M)


ALLOWED_AXIOMS = {"propext", "Classical.choice", "Quot.sound"}


def audit_axioms(module, names):
    """#print axioms on each theorem; returns {name: [axioms]} (runs lean on a scratch file)."""
    scratch = os.path.join(LEAN_DIR, ".lake", "audit_" + module.replace(".", "_") + ".lean")
    with open(scratch, "w") as fh:
        fh.write(f"import {module}\n")
        for n in names:
            fh.write(f"#print axioms {module}.{n}\n")
    rc, out = run(["lake", "env", "lean", scratch], cwd=LEAN_DIR, timeout=1800)
    res = {}
    cur = None
    for m in re.finditer(r"'([^']+)' (depends on axioms: \[([^\]]*)\]|does not depend on any axioms)", out.replace("\n", " ")):
        name = m.group(1)
        axs = [a.strip() for a in (m.group(3) or "").split(",") if a.strip()]
        res[name] = axs
    return rc, res, out


def theorem_obligations(report, prop_module_file, module, audit=True):
    """Every theorem of the property's Props module is an obligation; it is discharged iff the module
    builds (kernel-checked) and its axioms are within the allowed set."""
    path = os.path.join(LEAN_DIR, prop_module_file)
    if not os.path.exists(path):
        report.obligation(module, "theorem", False, "Props module missing")
        return
    names = theorems_of(path)
    ok, log = build_lean([module])
    if not ok:
        tail = "\n".join(log.strip().split("\n")[-15:])
        for n in names or [module]:
            report.obligation(n, "theorem", False, "lake build failed: " + tail[-400:])
        return
    hits = forbidden_hits()
    if hits:
        report.obligation("no-sorry-no-axiom-audit", "theorem", False, "; ".join(hits[:5]))
    if audit and names:
        rc, axs, out = audit_axioms(module, names)
        for n in names:
            full = [k for k in axs if k.endswith(n)]
            if not full:
                report.obligation(n, "theorem", False, "axiom audit produced no entry: " + out[-200:])
                continue
            bad = [a for a in axs[full[0]] if a not in ALLOWED_AXIOMS]
            report.obligation(n, "theorem", not bad, "axioms: " + (", ".join(axs[full[0]]) or "none"))
    else:
        for n in names:
            report.obligation(n, "theorem", True, "built (kernel-checked)")
    if report.tier == "thorough":
        # independent re-check of the compiled module (and everything it imports) by the toolchain's leanchecker
        rc, out = run(["lake", "env", "leanchecker", module], cwd=LEAN_DIR, timeout=3600)
        report.obligation("leanchecker:" + module, "theorem", rc == 0, "leanchecker exit 0" if rc == 0 else ("leanchecker: " + out[-300:]))
