#!/usr/bin/env python3
"""Regenerates MANIFEST.json from the table below (kept in one place so it always validates)."""
import json, os
VERIF = os.path.dirname(os.path.dirname(os.path.abspath(__file__)))

CLAIMED = {
 "C02": ("Lean 4 theorems (VLI round trip, resumable-encoder chunk invariance, remaining-length and conformance lemmas) about an executable model of encode.rs/mqtt/*.rs; model tied to the code by byte-exact differential correspondence; reference decoder written from the OASIS text re-decodes the implementation's bytes",
         "7 C02", "Lean 4 proof + model/implementation correspondence + spec-decoder monitor"),
 "C03": ("Lean 4 theorems (feed/append law => chunking invariance, no panic site, early size rejection, table equality with the standard) about an executable model of decode.rs/mqtt/*.rs; reason-code tables observed exhaustively from the implementation; reference encoder written from the OASIS text generates the faithful-decoding inputs",
         "7 C03", "Lean 4 proof + exhaustive table tie + model/implementation correspondence"),
 "C16": ("Lean 4 theorems relating the model of validate.rs / mqtt/*::validate_* to the standard's validity rules (user-property name and value bounds, PUBLISH static validity, limits and packet size at last-chance validation); validators tied to the model by differential correspondence; an independent validity predicate written from the OASIS text judges what the real validators accept",
         "7 C16", "Lean 4 proof + model/implementation correspondence + spec validity monitor"),
 "C17": ("Lean 4 theorems on the alias resolvers (inbound resolver = reference client table; manual outbound resolver's table = the table a conformant server derives from the wire; null resolver never aliases); all three outbound resolvers and the inbound resolver tied to the model by differential correspondence; a reference server-table replay judges the implementation's resolutions. Engine-level clause (binding recorded before a failed last-chance validation) is exercised by the engine walks once built",
         "7 C17", "Lean 4 proof + model/implementation correspondence + reference server-table replay"),
}
PENDING = {}
ids = [json.loads(l)["id"] for l in open(os.path.join(VERIF, "properties.jsonl"))]
checks = []
for pid in ids:
    if pid in CLAIMED:
        text, ref, tech = CLAIMED[pid]
        checks.append({
            "property_id": pid,
            "quick_cmd": f"./check {pid} --tier quick",
            "thorough_cmd": f"./check {pid} --tier thorough",
            "evidence_file": f"/verif/evidence/{pid}.json",
            "replay_cmd_template": f"./check {pid} --replay {{path}}",
            "engine": "lean-proof",
            "level_claimed": {"category": "proof", "text": text, "design_ref": f"DESIGN.md section {ref}"},
            "level_note": "Trusted: Lean kernel; axioms propext/Classical.choice/Quot.sound only; Spec/*.lean as the reading of the OASIS standard; the hand-written model is tied to the code by correspondence on sampled inputs (finite tables exhaustively); facade/harness report what the code did; std/lru/rand/tungstenite modelled.",
            "technique": tech,
        })
na = [{"property_id": pid, "reason": PENDING.get(pid, "model, theorems and correspondence for this property are not built yet in this round; it is not claimed until they run (technique applies; see DESIGN.md section 7)")}
      for pid in ids if pid not in CLAIMED]
manifest = {
    "version": 1,
    "setup_cmd": "./setup.sh",
    "hooks": {
        "guard": "cargo feature `verif` on gneiss-mqtt (and `verif` on gneiss-mqtt-aws)",
        "enable": "harness crate /verif/harness depends on /repo/gneiss-mqtt by path with features [verif, threaded, tokio, threaded-websockets]; every check runs `cargo build --release --offline` there, which rebuilds from /repo's working tree",
        "baseline_off_cmd": "python3 /verif/tools/baseline_check.py",
        "source_commits": [l.strip() for l in open(os.path.join(VERIF, "hook_commits.txt")) if l.strip()] if os.path.exists(os.path.join(VERIF, "hook_commits.txt")) else [],
        "add_only": True,
    },
    "engines": [
        {"name": "lean-proof", "path": "/verif/lean", "serves_properties": sorted(CLAIMED), "kind_free_text": "Lean 4 model + specification + theorems (lake project GV), compiled model driver gvdriver"},
        {"name": "harness", "path": "/verif/harness", "serves_properties": sorted(CLAIMED), "kind_free_text": "Rust line-protocol front end over the in-crate `verif` facade; drives the real code"},
        {"name": "check", "path": "/verif/tools", "serves_properties": sorted(CLAIMED), "kind_free_text": "Python orchestration: builds, generators, correspondence, monitors, shrinking, evidence"},
    ],
    "checks": checks,
    "not_applicable": na,
    "notes": "Family: machine-checked proof in Lean 4. See DESIGN.md. Known findings: /verif/known_findings.jsonl.",
}
json.dump(manifest, open(os.path.join(VERIF, "MANIFEST.json"), "w"), indent=1)
print("claimed:", sorted(CLAIMED), "not claimed:", len(na))
