#!/usr/bin/env python3
"""Regenerates MANIFEST.json from the table below (kept in one place so it always validates)."""
import json, os
VERIF = os.path.dirname(os.path.dirname(os.path.abspath(__file__)))

CLAIMED = {
 "C02": ("Lean 4 theorems (VLI round trip, resumable-encoder chunk invariance, remaining-length and conformance lemmas) about an executable model of encode.rs/mqtt/*.rs; model tied to the code by byte-exact differential correspondence; reference decoder written from the OASIS text re-decodes the implementation's bytes",
         "7 C02", "Lean 4 proof + model/implementation correspondence + spec-decoder monitor"),
 "C03": ("Lean 4 theorems (feed/append law => chunking invariance, no panic site, early size rejection, table equality with the standard) about an executable model of decode.rs/mqtt/*.rs; reason-code tables observed exhaustively from the implementation; reference encoder written from the OASIS text generates the faithful-decoding inputs",
         "7 C03", "Lean 4 proof + exhaustive table tie + model/implementation correspondence"),
 "C16": ("Lean 4 theorems relating the model of validate.rs / mqtt/*::validate_* to the standard's validity rules (user-property name and value bounds, PUBLISH static validity, limits and packet size at last-chance validation); validators tied to the model by differential correspondence; an independent validity predicate written from the OASIS text judges what the real validators accept",
         "7 C16", "Lean 4 proof + model/implementation correspondence + spec validity monitor"),
 "C17": ("Lean 4 theorems on the alias resolvers (inbound resolver = reference client table; manual outbound resolver's table = the table a conformant server derives from the wire; null resolver never aliases); all three outbound resolvers and the inbound resolver tied to the model by differential correspondence; a reference server-table replay judges the implementation's resolutions. Engine-level clause (binding recorded before a failed last-chance validation) is exercised by the engine walks once built",
         "7 C17", "Lean 4 proof + model/implementation correspondence + reference server-table replay"),
 "C13": ("Lean 4 theorems about the logic inside both drivers: the write loop's cursor accounting (transport bytes ++ unsent remainder = engine bytes for every interleaving of services, partial writes and stalls; write completion only for a fully written batch), the websocket read adapter (bytes handed to the engine ++ what the adapter holds = concatenation of message payloads, for every message size, arrival pattern and buffer size) and the result slot (exactly one result). The real tokio and threaded clients, built through the public API, run over a scripted in-memory transport: their transport bytes are compared with the stream the engine model predicts, their write-call logs are replayed by the write-loop model, the real WebsocketStreamWrapper is compared with its model, and stop/close races check that every operation resolves once. PARTIAL: thread/task interleavings are sampled by running the real drivers, not enumerated; tokio's select! and the OS transports are the environment",
         "7 C13", "Lean 4 proof (write loop, websocket adapter, result slot) + real drivers over scripted transports vs model"),
 "C20": ("Lean 4 theorems about an executable model of the AWS builder glue: percent-encoding round trip against an independent RFC 3986 query reader, the custom-auth username parses back to exactly the configured authorizer/signature/token pair for all strings, the signature is encoded once whether raw or pre-encoded, client id never empty / kept / generated, every other connect option preserved, 3.1.1 defaults iff neither option set. Model tied to the real builder by differential correspondence through a feature-gated facade; an independent Python query parser judges the implementation's output",
         "7 C20", "Lean 4 proof + model/implementation correspondence + independent query-string monitor"),
}
PENDING = {}
ids = [json.loads(l)["id"] for l in open(os.path.join(VERIF, "properties.jsonl"))]
checks = []
for pid in ids:
    if pid in CLAIMED:
        text, ref, tech = CLAIMED[pid]
        checks.append({
            "property_id": pid,
            "quick_cmd": f"./check {pid} --tier quick",
            "thorough_cmd": f"./check {pid} --tier thorough",
            "evidence_file": f"/verif/evidence/{pid}.json",
            "replay_cmd_template": f"./check {pid} --replay {{path}}",
            "engine": "lean-proof",
            "level_claimed": {"category": "proof", "text": text, "design_ref": f"DESIGN.md section {ref}"},
            "level_note": "Trusted: Lean kernel; axioms propext/Classical.choice/Quot.sound only; Spec/*.lean as the reading of the OASIS standard; the hand-written model is tied to the code by correspondence on sampled inputs (finite tables exhaustively); facade/harness report what the code did; std/lru/rand/tungstenite modelled.",
            "technique": tech,
        })
na = [{"property_id": pid, "reason": PENDING.get(pid, "model, theorems and correspondence for this property are not built yet in this round; it is not claimed until they run (technique applies; see DESIGN.md section 7)")}
      for pid in ids if pid not in CLAIMED]
manifest = {
    "version": 1,
    "setup_cmd": "./setup.sh",
    "hooks": {
        "guard": "cargo feature `verif` on gneiss-mqtt (and `verif` on gneiss-mqtt-aws)",
        "enable": "harness crate /verif/harness depends on /repo/gneiss-mqtt by path with features [verif, threaded, tokio, threaded-websockets]; every check runs `cargo build --release --offline` there, which rebuilds from /repo's working tree",
        "baseline_off_cmd": "python3 /verif/tools/baseline_check.py",
        "source_commits": [l.strip() for l in open(os.path.join(VERIF, "hook_commits.txt")) if l.strip()] if os.path.exists(os.path.join(VERIF, "hook_commits.txt")) else [],
        "add_only": True,
    },
    "engines": [
        {"name": "lean-proof", "path": "/verif/lean", "serves_properties": sorted(CLAIMED), "kind_free_text": "Lean 4 model + specification + theorems (lake project GV), compiled model driver gvdriver"},
        {"name": "harness", "path": "/verif/harness", "serves_properties": sorted(CLAIMED), "kind_free_text": "Rust line-protocol front end over the in-crate `verif` facade; drives the real code"},
        {"name": "check", "path": "/verif/tools", "serves_properties": sorted(CLAIMED), "kind_free_text": "Python orchestration: builds, generators, correspondence, monitors, shrinking, evidence"},
    ],
    "checks": checks,
    "not_applicable": na,
    "notes": "Family: machine-checked proof in Lean 4. See DESIGN.md. Known findings: /verif/known_findings.jsonl.",
}
json.dump(manifest, open(os.path.join(VERIF, "MANIFEST.json"), "w"), indent=1)
print("claimed:", sorted(CLAIMED), "not claimed:", len(na))
