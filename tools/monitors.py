"""Implementation-level monitors over engine walks: each returns a list of (clause, detail, step).

A walk is first digested into connections (the client-to-server byte stream of each, decoded by the
reference decoder of Spec/Codec.lean and located in time), user operations, completions and the
server's deliveries.  The monitors use only that digest and the standard-level packet views; they
never look at the model.
"""
from gv import parse_kv, kv_get, resp_fields, unhex, hexs, driver_batch
from walk import split_packets, describe


class Conn:
    def __init__(self, index, open_step, t_open, deadline):
        self.index = index
        self.open_step = open_step
        self.t_open = t_open
        self.deadline = deadline
        self.chunks = []          # (step, time, bytes)
        self.close_step = None
        self.connack = None       # dict(sp, rc, caps, step) of the first CONNACK delivered and accepted
        self.connack_step = None
        self.packets = []         # dict(view text, kind, pid, first_step, last_step, t_first, t_last, raw desc)
        self.error_step = None
        self.leftover = 0
        self.spec_n = None
        self.taint_step = None


def digest(walk, spec_out_iter=None):
    """build connections / ops / completions; `spec_out_iter` yields the spec.decode answers in order"""
    d = {"conns": [], "ops": {}, "completions": {}, "steps": []}
    v5 = walk.v5
    cur = None
    for i, (line, out, note) in enumerate(zip(walk.script, walk.out, walk.notes)):
        verb, kv = parse_kv(line.split(" | ")[0])
        f, segs = resp_fields(out)
        res = f.get("res", "")
        t = note.get("t", 0)
        kind = note.get("kind")
        if kind == "open":
            cur = Conn(len(d["conns"]) + 1, i, t, note.get("deadline"))
            cur.open_ok = res == "ok"
            d["conns"].append(cur)
        elif kind == "close":
            if cur is not None and cur.close_step is None:
                cur.close_step = i
        elif kind == "svc":
            b = unhex(f.get("bytes", "x")) if f.get("bytes") else b""
            if b and cur is not None:
                cur.chunks.append((i, t, b))
        if kind == "user":
            pkt = line.split(" | ", 1)[1]
            pk, pkv = parse_kv(pkt)
            if not res.startswith("rejected"):
                d["ops"][note["index"]] = {"kind": note["op"], "step": i, "t": t, "packet": pkt, "qos": int(kv_get(pkv, "qos", "0")),
                                           "timeout": int(kv_get(kv, "timeout")) if kv_get(kv, "timeout") not in (None, "", "max") else None,
                                           "n": sum(1 for k, _ in pkv if k in ("sub", "tf")), "connected_at_submit": None,
                                           "retain": kv_get(pkv, "retain", "0") == "1"}
        if res.startswith("err") and cur is not None and cur.close_step is None and cur.error_step is None \
                and kind in ("svc", "data", "wc", "open", "user", "user-disconnect"):
            # (a user event that fails - e.g. a second DISCONNECT while one is being flushed - halts the engine as well)
            cur.error_step = i
        for c in (f.get("comps", "") or "").split(","):
            if c:
                idx, outcome = c.split(":", 1)
                d["completions"].setdefault(int(idx), []).append((i, t, outcome))
        if kind == "data" and note.get("connack") and res == "ok" and cur is not None and cur.connack is None \
                and any(sg.startswith("connack ") for sg in segs):
            cur.connack = note["connack"]
            cur.connack_step = i
        if kind == "data" and note.get("tainted") and cur is not None and getattr(cur, "taint_step", None) is None:
            cur.taint_step = i
    # decode each connection's stream with the reference decoder
    reqs = []
    for c in d["conns"]:
        stream = b"".join(b for _, _, b in c.chunks)
        c.stream = stream
        reqs.append(f"spec.decode v={'5' if v5 else '311'} b={hexs(stream)}")
    outs = driver_batch(reqs) if reqs else []
    for c, o in zip(d["conns"], outs):
        f, segs = resp_fields(o)
        c.spec_n = int(f.get("n", "0"))
        c.leftover = int(f.get("left", "0"))
        pkts, rest, bad = split_packets(c.stream)
        # byte offsets -> steps
        bounds = []
        off = 0
        for st, t, b in c.chunks:
            bounds.append((off, off + len(b), st, t))
            off += len(b)

        def locate(pos):
            for a, b2, st, t in bounds:
                if a <= pos < b2:
                    return st, t
            return bounds[-1][2], bounds[-1][3]
        c.packet_ends = set()
        c.cum = {}
        tot = 0
        for st, t, b in c.chunks:
            tot += len(b)
            c.cum[st] = tot
        pos = 0
        for k, (first, body) in enumerate(pkts):
            from walk import enc_vli
            ln = 1 + len(enc_vli(len(body))) + len(body)
            fs, ft = locate(pos)
            ls, lt = locate(pos + ln - 1)
            desc = describe(first, body, v5)
            c.packets.append({"view": segs[k] if k < len(segs) else None, "desc": desc, "kind": desc.get("kind"), "pid": desc.get("pid"), "len": ln,
                              "first_step": fs, "t_first": ft, "last_step": ls, "t_last": lt})
            pos += ln
            c.packet_ends.add(pos)
    return d


def tag_of(p):
    """user-operation index carried by a client packet (see walk.user_op)"""
    d = p["desc"]
    if d.get("kind") == "publish":
        pl = d.get("payload", b"")
        # every PUBLISH the client sends is a user operation of the walk (payload = 2-byte index + filler); the topic
        # may be absent (alias-only transmission) or, in some profiles, not of the form t/<n>
        if len(pl) >= 2:
            return (pl[0] << 8) | pl[1]
    if d.get("kind") in ("subscribe", "unsubscribe"):
        fl = d.get("filter") or b""
        if fl.startswith(b"f/"):
            try:
                return int(fl[2:].split(b"/")[0])
            except ValueError:
                return None
    return None


# ------------------------------------------------------------------------------------------------

def mon_C11(walk, d):
    out = []
    for i, (line, o, note) in enumerate(zip(walk.script, walk.out, walk.notes)):
        if o.startswith("res=panic") or o == "res=died":
            out.append(("panic", panic_site(o, walk, i), i))
    for c in d["conns"]:
        if c.error_step is not None:
            end = c.close_step if c.close_step is not None else len(walk.script)
            for i in range(c.error_step + 1, end):
                k = walk.notes[i].get("kind")
                f, _ = resp_fields(walk.out[i])
                if k == "svc" and f.get("bytes", "x") != "x":
                    out.append(("bytes-after-error", "service emitted bytes after an entry point failed", i))
                if k in ("svc", "data", "wc") and f.get("res") == "ok":
                    out.append(("ok-after-error", f"{k} succeeded on a halted engine", i))
    # a server packet that is illegal at this point of a handshake is refused (connection error), not acted upon
    for i, (o, note) in enumerate(zip(walk.out, walk.notes)):
        if note.get("kind") == "data" and note.get("must_refuse"):
            f, _ = resp_fields(o)
            c = conn_at(d, i)
            if f.get("res") == "ok" and c is not None and (c.error_step is None or c.error_step >= i):
                out.append(("violation-accepted", f"{note.get('label')}: a PUBCOMP / failing PUBREC for packet id {note['ack']['pid']} arrived before the "
                                                  f"client had sent its PUBREL and was accepted", i))
    # a CONNACK that arrives before the CONNECT has completely left the client is a protocol violation, not a connection
    for c in d["conns"]:
        if c.connack_step is not None and (not c.packets or c.packets[0]["kind"] != "connect" or c.packets[0]["last_step"] > c.connack_step):
            out.append(("connack-before-connect-sent", f"connection {c.index}: a CONNACK was accepted although the CONNECT had not been completely written yet", c.connack_step))
    # the engine never fails an entry point with an internal error while the driver and the server follow their contracts
    if True:
        for i, (o, note) in enumerate(zip(walk.out, walk.notes)):
            if note.get("kind") in ("svc", "wc", "data", "user") and resp_fields(o)[0].get("res") == "err:InternalStateError":
                c = conn_at(d, i)
                if c is not None and (c.error_step is None or c.error_step >= i) and not note.get("after_error"):
                    out.append(("internal-error", f"{note.get('kind')} failed with InternalStateError on a healthy connection", i))
    # a well-formed packet from the reference broker is never undecodable, whatever happened on earlier connections
    # (judged in adversarial walks too: on a connection that has not been tainted yet)
    client_mps = int(kv_get(walk.connect_kv, "mps", "0") or 0)
    if client_mps == 0 or client_mps >= 200:
        for i, (o, note) in enumerate(zip(walk.out, walk.notes)):
            if note.get("kind") != "data" or note.get("tainted") or str(note.get("label", "")).startswith("hostile"):
                continue
            f, _ = resp_fields(o)
            if f.get("res") != "err:DecodingFailure":
                continue
            c = conn_at(d, i)
            if c is None or (c.error_step is not None and c.error_step < i) or (getattr(c, "taint_step", None) is not None and c.taint_step <= i):
                continue
            # split deliveries: the first part of a packet cannot fail either
            out.append(("conformant-packet-undecodable", f"a well-formed packet from the server ({note.get('label')}) was answered with a decoding failure "
                                                         f"on connection {c.index}, which had seen nothing malformed", i))
    if not walk.adv:
        for i, (o, note) in enumerate(zip(walk.out, walk.notes)):
            if note.get("kind") == "data":
                f, _ = resp_fields(o)
                res = f.get("res", "")
                if res.startswith("err"):
                    ck = note.get("connack")
                    if ck and ck["rc"] != 0:
                        continue
                    if walk.notes[i].get("after_error"):
                        continue
                    # was the connection already failed?
                    c = conn_at(d, i)
                    if c is not None and c.error_step is not None and c.error_step < i:
                        continue
                    if note.get("tainted"):
                        continue
                    ack = note.get("ack")
                    if ack and ack.get("pid") is not None and late_after_timeout(d, c, ack, i):
                        out.append(("late-ack-after-timeout", f"the legal (late) {ack['kind']} for packet id {ack['pid']} of an operation that had "
                                                              f"timed out locally was answered with {res}: a conformant server is accused", i))
                        continue
                    out.append(("false-positive", f"a conformant server packet ({note.get('label')}) was answered with {res}", i))
    return out


def late_after_timeout(d, c, ack, step):
    """was the packet this ack answers sent by an operation that failed with AckTimeout before `step`?"""
    if c is None:
        return False
    for p in c.packets:
        if p.get("pid") == ack["pid"] and p["last_step"] < step:
            tg = tag_of(p)
            if tg is None and p["kind"] == "pubrel":
                # PUBREL carries no tag: find the (latest earlier) publish with that id, on any connection
                for cc in d["conns"]:
                    for q in cc.packets:
                        if q.get("pid") == ack["pid"] and q["kind"] == "publish" and q["last_step"] < p["first_step"]:
                            tg = tag_of(q)
            if tg is not None:
                for st, t, outcome in d["completions"].get(tg, []):
                    if outcome == "err.AckTimeout" and st < step:
                        return True
    return False


def panic_site(o, walk, i):
    msg = o.split(" ")[0][len("res=panic:"):]
    if "pending_write_completion_operations" in msg:
        return "assert-pending-wc"
    if "unwrap" in msg and "None" in msg:
        return "unwrap-none@" + walk.script[i].split(" ")[0]
    return msg[:40]


def conn_at(d, step):
    best = None
    for c in d["conns"]:
        if c.open_step <= step and (c.close_step is None or step <= c.close_step):
            best = c
    return best


def mon_C01(walk, d):
    out = []
    for idx, lst in d["completions"].items():
        if len(lst) > 1:
            out.append(("completed-twice", f"operation {idx} resolved {len(lst)} times: {[x[2] for x in lst]}", lst[1][0]))
        if idx not in d["ops"]:
            out.append(("unknown-completion", f"completion for an operation that was never accepted: {idx}", lst[0][0]))
            continue
        op = d["ops"][idx]
        step, t, outcome = lst[0]
        if outcome.startswith("ok."):
            parts = outcome.split(".")
            kind = parts[1]
            if op["kind"] == "pub":
                allowed = {0: ["qos0"], 1: ["puback"], 2: ["pubcomp", "pubrec"]}[op["qos"]]
            else:
                allowed = ["suback"] if op["kind"] == "sub" else ["unsuback"]
            if kind not in allowed:
                out.append(("wrong-ack-type", f"operation {idx} ({op['kind']} qos {op['qos']}) completed by {kind}", step))
                continue
            if kind != "qos0":
                pid = int(parts[2])
                # the ack the broker delivered in this very step must be this kind and id
                note = walk.notes[step]
                ack = note.get("ack")
                if not ack or ack.get("kind") != kind or ack.get("pid") != pid:
                    out.append(("ack-not-delivered", f"operation {idx} completed with {outcome} but the server delivered {ack}", step))
                # the operation must have been sent with that id
                sent = [p for c in d["conns"] for p in c.packets if tag_of(p) == idx and p.get("pid") == pid]
                if not sent:
                    out.append(("foreign-ack", f"operation {idx} completed by an ack for packet id {pid} it was never sent with", step))
                if kind in ("suback", "unsuback"):
                    codes = [x for x in parts[3].split("+") if x != ""] if len(parts) > 3 else []
                    if len(codes) != op["n"]:
                        out.append(("reason-code-count", f"operation {idx} asked for {op['n']} entries, result has {len(codes)}", step))
                if kind == "pubrec" and len(parts) > 3 and int(parts[3]) < 128:
                    out.append(("pubrec-success-completion", f"operation {idx} completed by a successful PUBREC", step))
    # no silent drop: every tracked operation sits in some container from which a later event resolves it
    for i, (o, note) in enumerate(zip(walk.out, walk.notes)):
        if note.get("kind") == "snap":
            f, _ = resp_fields(o)
            if not f.get("ops"):
                continue
            located = set()
            for key in ("userq", "resubq", "highq", "pwcops"):
                located |= set(x for x in f.get(key, "").split("+") if x)
            for key in ("ppub", "pnon"):
                located |= set(x.split(":")[1] for x in f.get(key, "").split("+") if x)
            if f.get("cur") not in (None, "none"):
                located.add(f["cur"])
            for op in f["ops"].split("+"):
                if op not in located:
                    out.append(("operation-in-no-container", f"operation {op} is tracked but sits in no queue, table or current slot: nothing can ever resolve it", i))
                    break
    # after the final reset everything accepted has been resolved exactly once and nothing stays tracked
    if walk.notes and walk.notes[-1].get("kind") == "snap" and not walk.dead:
        for idx in d["ops"]:
            if idx not in d["completions"]:
                out.append(("never-resolved", f"operation {idx} ({d['ops'][idx]['kind']}) was accepted but never resolved, not even by reset", len(walk.script) - 1))
        f, _ = resp_fields(walk.out[-1])
        for key in ("ops", "userq", "resubq", "highq", "inq2", "alloc", "ppub", "pnon", "pwcops", "timeouts"):
            if f.get(key, "") != "":
                out.append(("tracked-after-reset", f"{key} not empty after reset: {f.get(key)}", len(walk.script) - 1))
        if f.get("cur") != "none":
            out.append(("tracked-after-reset", "current operation set after reset", len(walk.script) - 1))
    return out


def mon_C07(walk, d):
    out = []
    for c in d["conns"]:
        if not c.packets:
            continue
        if c.packets[0]["kind"] != "connect":
            out.append(("first-packet-not-connect", f"first packet on connection {c.index} is {c.packets[0]['kind']}", c.packets[0]["first_step"]))
        nconn = sum(1 for p in c.packets if p["kind"] == "connect")
        if nconn != 1:
            out.append(("connect-count", f"{nconn} CONNECT packets on connection {c.index}", c.open_step))
        for p in c.packets[1:]:
            if c.connack_step is None or p["first_step"] < c.connack_step:
                out.append(("packet-before-connack", f"{p['kind']} sent before a successful CONNACK on connection {c.index}", p["first_step"]))
                break
        for k, p in enumerate(c.packets):
            if p["kind"] == "disconnect" and k != len(c.packets) - 1:
                out.append(("packet-after-disconnect", f"{c.packets[k + 1]['kind']} sent after DISCONNECT on connection {c.index}", c.packets[k + 1]["first_step"]))
        # CONNECT content
        v = c.packets[0].get("view")
        if v and c.packets[0]["kind"] == "connect":
            out += check_connect(walk, d, c, v)
        elif c.packets[0]["kind"] == "connect" and not walk.v5:
            # a CONNECT the reference decoder refuses: still judge the one clause that can be read off the raw bytes, the
            # 3.1.1 rule that a zero-byte client identifier goes with CleanSession = 1
            body = split_packets(c.stream)[0][0][1]
            if len(body) >= 12 and ((body[10] << 8) | body[11]) == 0 and not (body[7] & 0x02):
                out.append(("clean-start", f"connection {c.index}: 3.1.1 CONNECT with a zero-byte client identifier and CleanSession = 0", c.open_step))
    # a connection never reaches Connected without a successful CONNACK: every snapshot
    for i, (o, note) in enumerate(zip(walk.out, walk.notes)):
        if note.get("kind") == "snap":
            f, _ = resp_fields(o)
            if f.get("state") == "Connected":
                c = conn_at(d, i)
                if c is None or c.connack_step is None or c.connack_step > i or c.connack["rc"] != 0:
                    out.append(("connected-without-connack", "engine is Connected without a successful CONNACK on this connection", i))
                elif "mps" not in c.connack["caps"] and "s.mps" in f and int(f["s.mps"]) < 268435460:
                    # no Maximum Packet Size in the CONNACK: no limit beyond the protocol's own (1 + 4 + 268,435,455 bytes)
                    out.append(("default-maximum-packet-size", f"the server announced no maximum packet size, the negotiated settings say {f['s.mps']} (the largest MQTT packet has 268435460 bytes)", i))
    return out


def check_connect(walk, d, c, view):
    out = []
    kind, kv = parse_kv(view)
    ckv = walk.connect_kv
    # clean start by policy and history
    prior_success = any(x.connack is not None and x.connack["rc"] == 0 for x in d["conns"] if x.index < c.index) and \
        not any(walk.notes[i].get("kind") in ("reset", "final-reset") for i in range(last_success_step(d, c), c.open_step))
    rejoin = kv_get(ckv, "rejoin", "post")
    want_clean = {"post": "0" if prior_success else "1", "always": "0", "never": "1"}[rejoin]
    if not walk.v5 and kv_get(kv, "cid", "x") == "x":
        # a 3.1.1 CONNECT with a zero-byte client identifier has no choice: CleanSession must be 1 [MQTT-3.1.3-7]
        want_clean = "1"
    if kv_get(kv, "clean") != want_clean:
        out.append(("clean-start", f"connection {c.index}: clean start {kv_get(kv, 'clean')} but policy {rejoin} with prior success={prior_success}", c.open_step))
    if kv_get(kv, "ka") != kv_get(ckv, "ka", "0"):
        out.append(("connect-content", f"keep alive {kv_get(kv, 'ka')} differs from the configured {kv_get(ckv, 'ka', '0')}", c.open_step))
    for key in ("user", "pass"):
        if kv_get(kv, key) != kv_get(ckv, key):
            out.append(("connect-content", f"{key} differs from the configured value", c.open_step))
    cid = kv_get(ckv, "cid")
    if cid is not None and cid != "x" and kv_get(kv, "cid") != cid:
        out.append(("connect-content", "client id differs from the configured one", c.open_step))
    if cid is None or cid == "x":
        # (an empty client id asks the server to assign one, just like none at all)
        # a server-assigned id is reused on later connections
        assigned = None
        for x in d["conns"]:
            if x.index < c.index and x.connack and x.connack["rc"] == 0 and "acid" in x.connack["caps"]:
                if not any(walk.notes[i].get("kind") in ("reset", "final-reset") for i in range(x.open_step, c.open_step)):
                    assigned = x.connack["caps"]["acid"]
        if assigned is not None and kv_get(kv, "cid") != hexs(assigned):
            out.append(("client-id-reuse", "server-assigned client id not reused on a later connection", c.open_step))
        if assigned is None and kv_get(kv, "cid", "x") != "x":
            out.append(("connect-content", "a client id is sent although none is configured and none has been assigned", c.open_step))
    if walk.v5:
        expect = {"P17": kv_get(ckv, "sei"), "P33": kv_get(ckv, "rm"), "P34": kv_get(ckv, "tam"), "P39": kv_get(ckv, "mps")}
        for k, v in expect.items():
            if kv_get(kv, k) != v:
                out.append(("connect-content", f"property {k}: sent {kv_get(kv, k)}, configured {v}", c.open_step))
    return out


def last_success_step(d, c):
    s = 0
    for x in d["conns"]:
        if x.index < c.index and x.connack and x.connack["rc"] == 0:
            s = x.connack_step
    return s


def lost_ops(walk):
    """(step, op id, kind) for tracked operations that sit in no queue, table or current slot"""
    res = []
    for i, (o, note) in enumerate(zip(walk.out, walk.notes)):
        if note.get("kind") != "snap":
            continue
        f, _ = resp_fields(o)
        if not f.get("ops"):
            continue
        located = set()
        for key in ("userq", "resubq", "highq", "pwcops"):
            located |= set(x for x in f.get(key, "").split("+") if x)
        for key in ("ppub", "pnon"):
            located |= set(x.split(":")[1] for x in f.get(key, "").split("+") if x)
        if f.get("cur") not in (None, "none"):
            located.add(f["cur"])
        kinds = {}
        for tok in o.split(" | ")[0].split(" "):
            if tok.startswith("op="):
                parts = tok[3:].split(":")
                kinds[parts[0]] = parts[1]
        for op in f["ops"].split("+"):
            if op not in located:
                res.append((i, op, kinds.get(op, "?")))
    return res


def mon_C04(walk, d):
    """QoS 1/2 sender protocol per tagged publish"""
    real_out = []
    scratch = []
    out = real_out
    hist = {}      # tag -> dict(state, pid, content, last_conn, pubrec_ok)
    completed_at = {idx: lst[0][0] for idx, lst in d["completions"].items()}
    for c in d["conns"]:
        sp = c.connack["sp"] if c.connack else 0
        if c.connack is not None and not sp:
            # the server has no session: everything unacknowledged starts over (or is failed)
            for h in hist.values():
                h["fresh"] = True
                h["pubrec"] = False
        pid_owner = {}     # pid -> tag for packets of this session view
        seen_pub, seen_rel = {}, {}
        # PUBREC deliveries in this connection, by step
        for p in c.packets:
            k = p["kind"]
            # once the server has misbehaved on this connection (duplicates, garbage) the history is still
            # recorded but nothing is judged: C04 quantifies over disconnect points and sessions, not over
            # server misbehaviour (that is C11)
            out = real_out if not (c.taint_step is not None and p["first_step"] > c.taint_step) else scratch
            if k == "publish" and p["desc"].get("qos", 0) > 0:
                tag = tag_of(p)
                if tag is None or tag not in d["ops"]:
                    continue
                h = hist.get(tag)
                seen_pub[tag] = seen_pub.get(tag, 0) + 1
                if seen_pub[tag] > 1:
                    out.append(("publish-repeated-in-connection", f"PUBLISH of operation {tag} sent twice on connection {c.index}", p["first_step"]))
                if tag in completed_at and completed_at[tag] < p["first_step"]:
                    out.append(("sent-after-completion", f"operation {tag} transmitted after its result was reported", p["first_step"]))
                dup = p["desc"].get("dup")
                content = (p["desc"].get("topic"), p["desc"].get("payload"))
                if h is None:
                    if dup:
                        out.append(("first-transmission-dup", f"first PUBLISH of operation {tag} has DUP=1", p["first_step"]))
                    hist[tag] = {"pid": p["pid"], "content": content, "conn": c.index, "pubrec": False}
                else:
                    if h["conn"] == c.index:
                        pass
                    elif sp and not h.get("fresh"):
                        if h["pubrec"]:
                            out.append(("publish-after-pubrec", f"PUBLISH of operation {tag} re-sent although PUBREC was received", p["first_step"]))
                        if not dup:
                            out.append(("retransmission-without-dup", f"operation {tag} retransmitted on a resumed session with DUP=0", p["first_step"]))
                        if p["pid"] != h["pid"]:
                            out.append(("retransmission-new-id", f"operation {tag} retransmitted with packet id {p['pid']} instead of {h['pid']}", p["first_step"]))
                        # application content: the payload, and the topic where both transmissions carry it (a topic
                        # sent as an alias on one connection is spelled out on the next: aliases do not outlive a connection)
                        same = content[1] == h["content"][1] and (not content[0] or not h["content"][0] or content[0] == h["content"][0])
                        if content[0] and not h["content"][0]:
                            h["content"] = content
                        if not same:
                            out.append(("retransmission-content", f"operation {tag} retransmitted with different content", p["first_step"]))
                    else:
                        if dup:
                            out.append(("fresh-session-dup", f"operation {tag} restarted on a new session with DUP=1", p["first_step"]))
                        h["pubrec"] = False
                    h["pid"] = p["pid"]
                    h["conn"] = c.index
                    h["content"] = content
                    h["fresh"] = False
                pid_owner[p["pid"]] = tag
            elif k == "pubrel":
                tag = pid_owner.get(p["pid"])
                if tag is None:
                    # PUBREL on a resumed session for a publish sent on an earlier connection
                    for tg, h in hist.items():
                        if h["pid"] == p["pid"] and h["pubrec"]:
                            tag = tg
                if tag is None:
                    continue
                seen_rel[tag] = seen_rel.get(tag, 0) + 1
                if seen_rel[tag] > 1:
                    out.append(("pubrel-repeated-in-connection", f"PUBREL of operation {tag} sent twice on connection {c.index}", p["first_step"]))
                if tag in completed_at and completed_at[tag] < p["first_step"]:
                    out.append(("sent-after-completion", f"PUBREL of operation {tag} transmitted after its result was reported", p["first_step"]))
        # successful PUBRECs delivered during this connection
        end = c.close_step if c.close_step is not None else len(walk.script)
        for i in range(c.open_step, end):
            ack = walk.notes[i].get("ack")
            if ack and ack.get("kind") == "pubrec" and resp_fields(walk.out[i])[0].get("res") == "ok" \
                    and not walk.notes[i].get("tainted"):
                for tg, h in hist.items():
                    if h["pid"] == ack["pid"] and h["conn"] == c.index and d["ops"][tg]["qos"] == 2:
                        # rc >= 128 completes the operation instead
                        if tg not in completed_at or completed_at[tg] != i:
                            h["pubrec"] = True
        if c.connack is not None and not sp:
            pass
    for step, op, kind in lost_ops(walk):
        if kind in ("publish1", "publish2"):
            real_out.append(("publish-abandoned", f"QoS>0 publish operation {op} is tracked but sits in no queue or table: its PUBLISH/PUBREL will never be (re)sent", step))
            break
    return real_out


def mon_C05(walk, d):
    out = []
    incomplete = set()     # QoS2 ids received and not yet released (reference receiver)
    unknown = False        # after a desynchronised (tainted) stretch the reference set is unknown
    prev_end = 0
    for c in d["conns"]:
        # a reset (client closed) between connections forgets the receive state as well
        if any(walk.notes[j].get("kind") == "reset" for j in range(prev_end, c.open_step)):
            incomplete = set()
            unknown = False
        end = c.close_step if c.close_step is not None else len(walk.script)
        prev_end = end
        owed = []              # acks owed, in arrival order: (kind, pid, step)
        for i in range(c.open_step, end):
            note = walk.notes[i]
            if note.get("kind") in ("reset",):
                incomplete = set()
                unknown = False
            if note.get("connack") and resp_fields(walk.out[i])[0].get("res") == "ok" and not note["connack"]["sp"] \
                    and c.connack_step == i:
                incomplete = set()
                unknown = False
            f, segs = resp_fields(walk.out[i])
            sp = note.get("srv_publish")
            if note.get("tainted"):
                unknown = True
                owed = None
                break
            if sp and f.get("res") == "ok":
                surfaced = [s for s in segs if s.startswith("publish ")]
                if sp["qos"] == 0:
                    if len(surfaced) != 1:
                        out.append(("qos0-not-surfaced", f"inbound QoS0 publish surfaced {len(surfaced)} times", i))
                elif sp["qos"] == 1:
                    if len(surfaced) != 1:
                        out.append(("qos1-not-surfaced", f"inbound QoS1 publish surfaced {len(surfaced)} times", i))
                    owed.append(("puback", sp["pid"], i))
                else:
                    want = 0 if sp["pid"] in incomplete else 1
                    if len(surfaced) != want and not unknown:
                        out.append(("qos2-exactly-once", f"inbound QoS2 publish id {sp['pid']} surfaced {len(surfaced)} times, expected {want}", i))
                    incomplete.add(sp["pid"])
                    owed.append(("pubrec", sp["pid"], i))
            ack = note.get("ack")
            if ack and ack.get("kind") == "pubrel" and f.get("res") == "ok":
                incomplete.discard(ack["pid"])
                owed.append(("pubcomp", ack["pid"], i))
        # acks actually sent on this connection, in order
        sent = [(p["kind"], p["pid"], p["first_step"]) for p in c.packets if p["kind"] in ("puback", "pubrec", "pubcomp")]
        if owed is None:
            continue
        k = 0
        for kind, pid, st in sent:
            if k < len(owed) and owed[k][0] == kind and owed[k][1] == pid:
                if st < owed[k][2]:
                    out.append(("ack-before-packet", f"{kind} {pid} sent before the packet it answers", st))
                k += 1
            else:
                out.append(("ack-order", f"connection {c.index}: sent {kind} {pid} but the next answer owed is {owed[k][:2] if k < len(owed) else None}", st))
                break
        # every owed ack is sent unless the connection ended first (only checked when the connection
        # stayed up and the engine was serviced afterwards: see quiescence in the walk)
    if walk.notes and walk.notes[-1].get("kind") == "snap":
        pass
    return out


def mon_C06(walk, d):
    # a retransmission after a resumed reconnect reuses the identifier of the original (judged by the delivery monitor)
    reuse = [x for x in mon_C04(walk, d) if x[0] == "retransmission-new-id"]
    out = []
    inuse = {}        # pid -> tag
    completed_at = {idx: lst[0][0] for idx, lst in d["completions"].items()}
    for c in d["conns"]:
        if c.connack is not None and not c.connack["sp"]:
            pass
        for p in c.packets:
            k = p["kind"]
            if k in ("publish", "subscribe", "unsubscribe") and (k != "publish" or p["desc"].get("qos", 0) > 0):
                tag = tag_of(p)
                pid = p.get("pid")
                if pid == 0:
                    out.append(("zero-packet-id", f"{k} sent with packet id 0", p["first_step"]))
                # release ids of operations completed before this emission, and after a lost session
                for q, tg in list(inuse.items()):
                    if tg in completed_at and completed_at[tg] < p["first_step"]:
                        del inuse[q]
                if c.connack is not None and not c.connack["sp"]:
                    for q, tg in list(inuse.items()):
                        if session_lost_between(d, tg, c):
                            del inuse[q]
                if pid in inuse and inuse[pid] != tag and tag is not None:
                    out.append(("packet-id-in-use", f"{k} of operation {tag} sent with packet id {pid} still used by unacknowledged operation {inuse[pid]}", p["first_step"]))
                if tag is not None:
                    for q, tg in list(inuse.items()):
                        if tg == tag and q != pid:
                            del inuse[q]
                    inuse[pid] = tag
    # no leak: whenever no operation is tracked, no id is reserved
    for i, (o, note) in enumerate(zip(walk.out, walk.notes)):
        if note.get("kind") == "snap":
            f, _ = resp_fields(o)
            if f.get("ops", "") == "" and f.get("alloc", "") != "":
                out.append(("packet-id-leak", f"ids {f.get('alloc')} reserved although no operation is tracked", i))
            # every reserved id belongs to a tracked operation
            ops = set(f.get("ops", "").split("+")) if f.get("ops") else set()
            for pair in (f.get("alloc", "").split("+") if f.get("alloc") else []):
                pid, op = pair.split(":")
                if op not in ops:
                    out.append(("packet-id-leak", f"id {pid} reserved for operation {op} which is no longer tracked", i))
    return out + reuse


def session_lost_between(d, tag, c):
    return True


def mon_C09(walk, d):
    out = []
    completed_at = {idx: lst[0][0] for idx, lst in d["completions"].items()}
    for c in d["conns"]:
        if c.connack is None:
            continue
        rm = c.connack["caps"].get("rm", 65535)
        inflight = {}    # tag -> first step
        for p in c.packets:
            if p["kind"] == "publish" and p["desc"].get("qos", 0) > 0:
                tag = tag_of(p)
                if tag is None:
                    continue
                # a completion reported by the very service call that sends this packet precedes the send exactly when it
                # comes from the timeout pass that opens the call; the pass that closes it can only reach an operation
                # that was being written when the call began, and such an operation has bytes on the wire in this call
                for tg in list(inflight):
                    if tg in completed_at and (completed_at[tg] < p["first_step"] or
                                               (completed_at[tg] == p["first_step"] and
                                                not any(q is not p and tag_of(q) == tg and q["last_step"] >= p["first_step"] for q in c.packets))):
                        del inflight[tg]
                inflight[tag] = p["first_step"]
                if len(inflight) > rm:
                    out.append(("receive-maximum-exceeded", f"{len(inflight)} unacknowledged QoS>0 publishes in flight, server Receive Maximum is {rm}", p["first_step"]))
    # one-at-a-time drain after a reconnect: while an operation interrupted by the latest disconnection is unresolved, at most
    # one operation that requires an acknowledgement is outstanding
    if walk.cfg.get("drain") == "one":
        def needs_ack(p):
            return (p["kind"] == "publish" and p["desc"].get("qos", 0) > 0) or p["kind"] in ("subscribe", "unsubscribe")
        interrupted = set()      # operations that were in flight at some disconnection (resolved ones drop out below)
        for c in d["conns"]:
            if c.connack is not None and c.connack.get("rc") == 0 and c.connack_step is not None and interrupted \
                    and getattr(c, "taint_step", None) is None:
                outstanding = []
                for p in c.packets:
                    tag = tag_of(p)
                    if tag is None or not needs_ack(p) or p["first_step"] <= c.connack_step:
                        continue
                    st = p["first_step"]
                    # (a completion reported by the very service call that sends this packet precedes it: validation
                    # failures and acknowledgement handling come before the next dequeue)
                    live = [tg for tg in interrupted if completed_at.get(tg, 10 ** 9) > st]
                    outstanding = [tg for tg in outstanding if completed_at.get(tg, 10 ** 9) > st and tg != tag]
                    if live and outstanding:
                        out.append(("slow-start-exceeded", f"operation {tag} sent while operation {outstanding[0]} awaits its acknowledgement and the operations "
                                                           f"{sorted(live)[:4]} interrupted by the last disconnection are unresolved (one-at-a-time drain configured)", st))
                        break
                    outstanding.append(tag)
            close = c.close_step if c.close_step is not None else len(walk.script)
            for p in c.packets:
                tag = tag_of(p)
                if tag is not None and needs_ack(p) and p["last_step"] <= close and completed_at.get(tag, 10 ** 9) > close:
                    interrupted.add(tag)
    return out


def mon_C10(walk, d):
    out = []
    for c in d["conns"]:
        last_new = -1
        last_retrans = -1
        seen_new = False
        first_seen = set()
        for p in c.packets:
            tag = tag_of(p)
            if tag is None or p["kind"] not in ("publish", "subscribe", "unsubscribe"):
                continue
            if tag in first_seen:
                continue
            first_seen.add(tag)
            retrans = p["kind"] == "publish" and p["desc"].get("dup")
            if retrans:
                if seen_new:
                    out.append(("retransmission-after-new", f"retransmission of operation {tag} sent after a newer first transmission on connection {c.index}", p["first_step"]))
                if tag < last_retrans and getattr(c, "taint_step", None) is None:
                    out.append(("retransmission-out-of-order", f"retransmission of operation {tag} sent after that of operation {last_retrans} on connection {c.index}: "
                                                               f"in-flight publishes are not retransmitted in their submission order", p["first_step"]))
                last_retrans = max(last_retrans, tag)
                continue
            seen_new = True
            if tag < last_new:
                # allowed only if the earlier one was submitted later than this one was dequeued... submission order is the index
                out.append(("out-of-order", f"operation {tag} first transmitted after operation {last_new} on connection {c.index}", p["first_step"]))
            last_new = max(last_new, tag)
    return out


def mon_C15(walk, d):
    """offline-queue policy: who may be failed with OfflineQueuePolicyFailed"""
    out = []
    policy = walk.cfg["policy"]

    def passes(op):
        if op["kind"] in ("sub", "unsub"):
            return policy in ("all", "acked")
        if policy == "nothing":
            return False
        if policy in ("qos1plus", "acked"):
            return op["qos"] != 0
        return True
    for idx, lst in d["completions"].items():
        if idx not in d["ops"]:
            continue
        op = d["ops"][idx]
        step, t, outcome = lst[0]
        if outcome == "err.OfflineQueuePolicyFailed" and passes(op):
            out.append(("policy-failed-retained-kind", f"operation {idx} ({op['kind']} qos {op['qos']}) failed by offline policy {policy}, which retains it", step))
        if outcome == "err.OfflineQueuePolicyFailed" and op["kind"] == "pub" and op["qos"] > 0 and walk.notes[step].get("kind") == "close":
            # the mandated exception: a QoS 1/2 publish already in flight is retained across the disconnection and meets the
            # policy only when the server reports no session
            sent = [p for c in d["conns"] for p in c.packets if p["kind"] == "publish" and tag_of(p) == idx and p["last_step"] < step
                    and getattr(c, "taint_step", None) is None]
            if sent:
                out.append(("in-flight-publish-failed-at-disconnect", f"QoS {op['qos']} publish {idx}, completely written on an earlier connection and unacknowledged, "
                                                                      f"was failed by the offline policy at a disconnection (before any server reported the session lost)", step))
        if outcome == "err.ConnectionClosed":
            out.append(("user-op-connection-closed", f"user operation {idx} failed with ConnectionClosed", step))
    # at submission: while the engine is not in its Connected state an operation the policy rejects fails at once
    for idx, op in d["ops"].items():
        c = conn_at(d, op["step"])
        connected = c is not None and c.connack_step is not None and c.connack_step < op["step"] and c.connack["rc"] == 0 \
            and (c.error_step is None or c.error_step > op["step"]) and (c.close_step is None or c.close_step > op["step"]) \
            and not any(p["kind"] == "disconnect" and p["last_step"] < op["step"] for p in c.packets) \
            and not (c.taint_step is not None and c.taint_step < op["step"])
        tainted = c is not None and c.taint_step is not None and c.taint_step < op["step"]
        if not connected and not tainted and not passes(op):
            f, _ = resp_fields(walk.out[op["step"]])
            if f"{idx}:err.OfflineQueuePolicyFailed" not in (f.get("comps") or "").split(","):
                out.append(("accepted-while-offline", f"operation {idx} ({op['kind']} qos {op['qos']}) submitted while not connected under policy {policy} "
                                                      f"was not failed at submission", op["step"]))
    # an operation rejected by policy is never emitted later
    failed_at = {idx: lst[0][0] for idx, lst in d["completions"].items() if lst[0][2] == "err.OfflineQueuePolicyFailed"}
    for c in d["conns"]:
        for p in c.packets:
            tag = tag_of(p)
            if tag in failed_at and p["first_step"] > failed_at[tag]:
                out.append(("emitted-after-policy-failure", f"operation {tag} emitted after it was failed by the offline policy", p["first_step"]))
    return out


def mon_C16(walk, d):
    """limits announced in CONNACK are honoured by what is written, and only violating operations are failed by validation"""
    out = []
    for c in d["conns"]:
        if not c.connack or c.connack.get("rc") != 0 or c.connack_step is None:
            continue
        caps = c.connack["caps"]
        for p in c.packets:
            if p["first_step"] <= c.connack_step or not p.get("view"):
                continue
            kind, kv = parse_kv(p["view"])
            if "mps" in caps and p["len"] > caps["mps"]:
                out.append(("oversize-written", f"a {p['len']}-byte {kind} was written on a connection whose server announced maximum packet size {caps['mps']}", p["last_step"]))
            if kind == "publish":
                if "mq" in caps and int(kv_get(kv, "qos", "0")) > caps["mq"]:
                    out.append(("qos-above-maximum", f"QoS {kv_get(kv, 'qos')} publish written, server maximum QoS is {caps['mq']}", p["last_step"]))
                if caps.get("ra") == 0 and kv_get(kv, "retain", "0") == "1":
                    out.append(("retain-unavailable", "retained publish written although the server announced Retain Available = 0", p["last_step"]))
            if kind == "subscribe":
                filters = [unhex(v.split(":")[0]) for k, v in kv if k == "sub"]
                if caps.get("wsa") == 0 and any(b"#" in f or b"+" in f for f in filters):
                    out.append(("wildcard-unavailable", "wildcard subscription written although the server announced Wildcard Subscription Available = 0", p["last_step"]))
                if caps.get("ssa") == 0 and any(f.startswith(b"$share/") for f in filters):
                    out.append(("shared-unavailable", "shared subscription written although the server announced Shared Subscription Available = 0", p["last_step"]))
    # the will is a user-built message too: a will whose topic (or response topic) is not a topic name never reaches the wire
    ckv = walk.connect_kv
    wt = kv_get(ckv, "w.topic")
    if wt is not None:
        bad = []
        for key, val in (("topic", wt), ("response topic", kv_get(ckv, "w.rt"))):
            if val is not None:
                b = unhex(val)
                if len(b) == 0 or b"#" in b or b"+" in b or b"\x00" in b:
                    bad.append(key)
        if bad:
            for c in d["conns"]:
                if c.packets and c.packets[0]["kind"] == "connect":
                    out.append(("invalid-will-sent", f"a CONNECT whose will has an invalid {' and '.join(bad)} was written on connection {c.index}", c.packets[0]["last_step"]))
                    break
    # operations failed by send-time validation must violate a limit of the connection they were dequeued on
    for idx, lst in d["completions"].items():
        step, t, outcome = lst[0]
        if outcome != "err.PacketValidationFailure" or idx not in d["ops"]:
            continue
        op = d["ops"][idx]
        conn = next((c for c in reversed(d["conns"]) if c.open_step <= step and (c.close_step is None or c.close_step >= step)), None)
        if conn is None or not conn.connack or conn.connack_step is None or conn.connack_step > step:
            continue
        caps = conn.connack["caps"]
        _, pkv = parse_kv(op["packet"])
        reasons = []
        if op["kind"] == "pub":
            if "mq" in caps and op["qos"] > caps["mq"]:
                reasons.append("qos")
            if caps.get("ra") == 0 and op["retain"]:
                reasons.append("retain")
            if "mps" in caps:
                # largest possible wire form: full topic plus a topic alias property
                topic = unhex(kv_get(pkv, "topic", "x"))
                payload = unhex(kv_get(pkv, "payload", "x"))
                props = 3 + sum(5 + len(unhex(a)) + len(unhex(b)) for a, b in (v.split(":") for k, v in pkv if k == "up"))
                for key in ("ct", "rt", "cd"):
                    if kv_get(pkv, key):
                        props += 3 + len(unhex(kv_get(pkv, key)))
                props += 2 if kv_get(pkv, "pfi") else 0
                props += 5 if kv_get(pkv, "mei") else 0
                rl = 2 + len(topic) + (2 if op["qos"] else 0) + len(enc_vli_len(props)) + props + len(payload)
                if 1 + len(enc_vli_len(rl)) + rl > caps["mps"]:
                    reasons.append("size")
            else:
                pass
        else:
            filters = [unhex(v.split(":")[0]) for k, v in pkv if k in ("sub", "tf")]
            if caps.get("wsa") == 0 and any(b"#" in f or b"+" in f for f in filters):
                reasons.append("wildcard")
            if caps.get("ssa") == 0 and any(f.startswith(b"$share/") for f in filters):
                reasons.append("shared")
            if "mps" in caps:
                reasons.append("size?")      # not judged for subscribe/unsubscribe
        if not reasons:
            out.append(("valid-rejected", f"operation {idx} ({op['kind']}) was failed by send-time validation although it satisfies every limit the server announced ({caps})", step))
    return out


def enc_vli_len(n):
    from walk import enc_vli
    return enc_vli(n)


def mon_C17(walk, d):
    out = []
    for c in d["conns"]:
        table = {}
        tam = c.connack["caps"].get("tam", 0) if c.connack else 0
        for p in c.packets:
            if p["kind"] != "publish" or not p.get("view"):
                continue
            kind, kv = parse_kv(p["view"])
            alias = kv_get(kv, "P35")
            topic = kv_get(kv, "topic")
            tag = None
            pl = unhex(kv_get(kv, "payload", "x"))
            if len(pl) >= 2:
                tag = (pl[0] << 8) | pl[1]
            want = None
            if tag is not None and tag in d["ops"] and d["ops"][tag]["kind"] == "pub":
                want = kv_get(parse_kv(d["ops"][tag]["packet"])[1], "topic")
            if alias is None:
                got = topic
            else:
                a = int(alias)
                if a < 1 or a > tam:
                    out.append(("alias-out-of-range", f"alias {a} used, server Topic Alias Maximum is {tam}", p["first_step"]))
                if topic == "x":
                    got = table.get(a)
                else:
                    table[a] = topic
                    got = topic
            if want is not None and got != want:
                out.append(("server-reconstructs-wrong-topic", f"operation {tag}: server reconstructs {got}, application topic is {want}", p["first_step"]))
    # inbound: the reference client table, per connection (bindings never survive a reconnect): an alias-only PUBLISH is
    # surfaced with the topic bound to that alias on this connection, and rejected when there is no such binding
    for c in d["conns"]:
        table = {}
        end = c.close_step if c.close_step is not None else len(walk.script)
        for i in range(c.open_step, end):
            note = walk.notes[i]
            sp = note.get("srv_publish")
            if not sp or note.get("tainted") or (getattr(c, "taint_step", None) is not None and c.taint_step <= i):
                continue
            if c.error_step is not None and c.error_step < i:
                break
            f, segs = resp_fields(walk.out[i])
            surfaced = [s for s in segs if s.startswith("publish ")]
            for s in surfaced:
                _, kv = parse_kv(s)
                if kv_get(kv, "topic") == "x":
                    out.append(("empty-topic-surfaced", "a publish with an empty topic was surfaced to the application", i))
            alias, topic = sp.get("alias"), sp.get("topic")
            if alias is None:
                continue
            if topic:
                if 1 <= alias <= walk.client_tam and f.get("res") == "ok":
                    table[alias] = topic
                continue
            # alias only
            if alias not in table:
                if f.get("res") == "ok":
                    out.append(("stale-or-unknown-alias-accepted", f"an alias-only PUBLISH for alias {alias}, which is not bound on connection {c.index}, was accepted"
                                                                   + (" and surfaced" if surfaced else ""), i))
            elif surfaced:
                _, kv = parse_kv(surfaced[0])
                if unhex(kv_get(kv, "topic", "x")) != table[alias]:
                    out.append(("inbound-wrong-topic", f"alias {alias} is bound to {table[alias]!r} on this connection, the application was given {kv_get(kv, 'topic')}", i))
    return out


def mon_C18(walk, d):
    out = mon_C18_exact(walk, d)
    for idx, lst in d["completions"].items():
        if idx not in d["ops"]:
            continue
        op = d["ops"][idx]
        step, t, outcome = lst[0]
        if outcome == "err.AckTimeout":
            if op["kind"] == "pub" and op["qos"] == 0:
                out.append(("timeout-on-qos0", f"QoS 0 publish {idx} (not an acknowledged operation) failed with AckTimeout", step))
                continue
            if op["timeout"] is None:
                out.append(("timeout-without-timeout", f"operation {idx} has no ack timeout but failed with AckTimeout", step))
                continue
            pids = {p["pid"] for c in d["conns"] for p in c.packets if tag_of(p) == idx}
            writes = [p["t_last"] for c in d["conns"] for p in c.packets
                      if (tag_of(p) == idx or (p["kind"] == "pubrel" and p["pid"] in pids)) and p["last_step"] <= step
                      and c.open_step <= step and (c.close_step is None or c.close_step >= step)]
            if not writes:
                out.append(("timeout-before-write", f"operation {idx} timed out without having been fully written on this connection", step))
            elif t < min(writes) + op["timeout"]:
                out.append(("timeout-early", f"operation {idx} timed out at {t} ms, written at {min(writes)} ms, timeout {op['timeout']} ms", step))
    return out


def mon_C18_exact(walk, d):
    """an operation with ack timeout T, fully written at W on this connection and still unresolved, fails with
    AckTimeout at the first successful service call at or after W + T"""
    out = []
    completed_at = {idx: lst[0][0] for idx, lst in d["completions"].items()}
    for c in d["conns"]:
        if c.connack_step is None:
            continue
        end = c.close_step if c.close_step is not None else len(walk.script)
        pid_tag = {}
        written = {}     # tag -> earliest full-write time on this connection
        stream_pos = 0
        chunk_iter = iter(c.chunks)
        for p in c.packets:
            tg = tag_of(p)
            if tg is not None and p.get("pid") is not None:
                pid_tag[p["pid"]] = tg
        for i in range(c.connack_step, end):
            note = walk.notes[i]
            if note.get("kind") != "svc":
                continue
            f, _ = resp_fields(walk.out[i])
            if f.get("res") != "ok":
                break
            # packets fully written up to and including this step
            sofar = max([v for st, v in c.cum.items() if st <= i], default=0)
            partial = sofar != 0 and sofar not in c.packet_ends
            for p in c.packets:
                if p["last_step"] <= i:
                    tg = tag_of(p)
                    if tg is None and p["kind"] == "pubrel":
                        tg = pid_tag.get(p["pid"])
                    if tg is not None and tg in d["ops"] and tg not in written:
                        written[tg] = p["t_last"]
            if partial:
                continue
            for tg, w in written.items():
                op = d["ops"][tg]
                if op["timeout"] is None or (op["kind"] == "pub" and op["qos"] == 0):
                    continue
                if tg in completed_at and completed_at[tg] <= i:
                    continue
                if op["kind"] == "pub" and op["qos"] == 2:
                    # while the PUBREL of this operation is waiting to be / being written the timeout is deferred
                    # until that packet is complete (it cannot be abandoned half way without corrupting the stream)
                    pids = {p["pid"] for p in c.packets if tag_of(p) == tg}
                    rec = any(walk.notes[j].get("ack", {}).get("kind") == "pubrec" and walk.notes[j]["ack"].get("pid") in pids
                              and resp_fields(walk.out[j])[0].get("res") == "ok" for j in range(c.connack_step, i))
                    rel_done = any(p["kind"] == "pubrel" and p["pid"] in pids and p["last_step"] <= i for p in c.packets)
                    if rec and not rel_done:
                        continue
                if note["t"] >= w + op["timeout"]:
                    out.append(("timeout-missed", f"operation {tg} written at {w} ms with ack timeout {op['timeout']} ms is still unresolved after a service call at {note['t']} ms", i))
                    return out
    return out


def mon_C14(walk, d):
    """keep-alive arithmetic, judged on snapshots taken right after service calls (walks with snap_after_svc)"""
    out = []
    if not walk.snap_after_svc:
        return out
    prev = None           # last snapshot fields
    for i, (o, note) in enumerate(zip(walk.out, walk.notes)):
        k = note.get("kind")
        if k in ("open", "close", "new", "reset", "final-reset"):
            prev = None
        if k == "snap":
            f, _ = resp_fields(o)
            before = prev
            prev = f
            if i == 0 or walk.notes[i - 1].get("kind") != "svc" or f.get("state") != "Connected":
                continue
            sf, _ = resp_fields(walk.out[i - 1])
            t = walk.notes[i - 1]["t"]
            if before is None or before.get("state") != "Connected":
                continue
            ska = int(f.get("s.ska", "0"))
            if before.get("pingto") == "none" and f.get("pingto") != "none":
                # the answer deadline is armed by the service call that completes the PINGREQ on the wire, and runs from then
                want = t + min(walk.cfg["pingto"], ska * 500)
                c = conn_at(d, i - 1)
                written_now = c is not None and any(p["kind"] == "pingreq" and p["last_step"] == i - 1 for p in c.packets)
                if not written_now:
                    out.append(("ping-deadline", f"a PINGRESP deadline ({f['pingto']} ms) was armed at {t} ms by a service call that did not complete a PINGREQ on the wire", i - 1))
                elif int(f["pingto"]) != want:
                    out.append(("ping-deadline", f"PINGREQ written at {t} ms with keep alive {ska}s and ping timeout {walk.cfg['pingto']} ms: "
                                                 f"deadline {f['pingto']} ms, expected {want} ms (half the keep alive, exactly)", i - 1))
                if ska == 0:
                    out.append(("ping-with-keepalive-zero", "a PINGREQ was scheduled although the negotiated keep alive is 0", i - 1))
            # a PINGREQ operation appears in this service call: the next ping is K seconds from now
            if ska > 0 and before is not None:
                sb, sa = snap_state(walk.out[[j for j in range(i) if walk.notes[j].get("kind") == "snap"][-1]]), snap_state(o)
                if sb is not None and sa is not None:
                    new_pings = [x for x, v in sa["ops"].items() if v["kind"] == "pingreq" and x not in sb["ops"]]
                    if new_pings and f.get("nping") != str(t + ska * 1000):
                        out.append(("next-ping", f"a PINGREQ was queued at {t} ms: next ping at {f.get('nping')}, expected {t + ska * 1000}", i - 1))
            if ska > 0 and f.get("nping") not in (None, "none") and int(f["nping"]) > t + ska * 1000:
                out.append(("next-ping-too-late", f"at {t} ms the next PINGREQ is scheduled for {f['nping']} ms, more than the negotiated keep alive "
                                                  f"({ska} s) away: the connection can stay silent longer than the keep alive", i))
            if ska == 0 and f.get("nping") != "none":
                out.append(("ping-with-keepalive-zero", "next-ping time set although the negotiated keep alive is 0", i))
        if k == "svc":
            f, _ = resp_fields(o)
            if f.get("res") == "err:ConnectionClosed" and prev is not None and prev.get("state") == "Connected":
                # keep-alive timeout: only legal at or after the deadline of an unanswered ping
                dl = prev.get("pingto")
                # independent of the engine's own deadline: a PINGREQ of THIS connection must be outstanding (written and
                # not answered since, or at least queued) - a deadline carried over from an earlier connection does not count
                c = conn_at(d, i)
                # (not judged once the server has injected garbage on this connection: the inbound stream may be desynchronised and
                # the bytes of a later PINGRESP swallowed as the body of a bogus packet - the peer is not a live, conformant one)
                if c is not None and not (getattr(c, "taint_step", None) is not None and c.taint_step <= i):
                    reqs = [p["first_step"] for p in c.packets if p["kind"] == "pingreq" and p["first_step"] <= i]
                    resps = [j for j in range(c.open_step, i) if walk.notes[j].get("ack", {}).get("kind") == "pingresp"
                             and resp_fields(walk.out[j])[0].get("res") == "ok"]
                    wire_outstanding = bool(reqs) and (not resps or max(reqs) > max(resps))
                    if not wire_outstanding:
                        out.append(("live-peer-timed-out", f"keep-alive error at {note['t']} ms on connection {c.index} although no PINGREQ of this "
                                                           f"connection has been sent and is unanswered (PINGREQs written at steps {reqs}, PINGRESPs delivered at {resps})", i))
                if dl in (None, "none"):
                    # the deadline may have been set by this very call? no: the check precedes the scheduling
                    out.append(("live-peer-timed-out", "keep-alive error without an outstanding PINGREQ", i))
                elif note["t"] < int(dl):
                    out.append(("live-peer-timed-out", f"keep-alive error at {note['t']} ms before the deadline {dl} ms", i))
            if f.get("res") == "ok" and prev is not None and prev.get("state") == "Connected" and prev.get("pingto") not in (None, "none"):
                # has a PINGRESP been delivered since that snapshot?
                answered = False
                j = i - 1
                while j >= 0 and walk.notes[j].get("kind") != "snap":
                    if walk.notes[j].get("ack", {}).get("kind") == "pingresp" and resp_fields(walk.out[j])[0].get("res") == "ok":
                        answered = True
                    j -= 1
                if not answered and note["t"] >= int(prev["pingto"]):
                    out.append(("dead-peer-not-detected", f"service at {note['t']} ms past the ping deadline {prev['pingto']} ms did not fail", i))
    return out


# ---- state invariants evaluated on the implementation's snapshots -------------------------------------------------
# The same clauses as Model/EngineWF.lean (proved there for every history of the model), evaluated here on what the
# facade reports about the real engine.  Each monitor uses the clauses that belong to its property.

def snap_state(line):
    f, _ = resp_fields(line)
    if "state" not in f:
        return None
    lst = lambda k: [int(x) for x in f.get(k, "").split("+") if x]
    mp = lambda k: [(int(a), int(b)) for a, b in (x.split(":") for x in f.get(k, "").split("+") if x)]
    ops = {}
    for tok in line.split(" | ")[0].split(" "):
        if tok.startswith("op="):
            parts = tok[3:].split(":")
            ops[int(parts[0])] = dict(kind=parts[1], pid=int(parts[2]), dup=parts[3] == "1", pubrel=parts[4] == "1", slow=int(parts[6]))
    return dict(state=f["state"], ops=ops, opids=lst("ops"), userq=lst("userq"), resubq=lst("resubq"), highq=lst("highq"),
                cur=None if f.get("cur") in (None, "none") else int(f["cur"]), alloc=mp("alloc"), ppub=mp("ppub"), pnon=mp("pnon"),
                pwc=lst("pwcops"), timeouts=f.get("timeouts", ""), nextop=int(f.get("nextop", "0")), nextpid=int(f.get("nextpid", "1")),
                rm=int(f["s.rm"]) if "s.rm" in f else None, slow=int(f.get("slow", "0")), pending_write=f.get("pwc", "1") == "1",
                ska=int(f["s.ska"]) if "s.ska" in f else None, nping=f.get("nping"))


def needs_id(kind):
    return kind in ("subscribe", "unsubscribe", "publish1", "publish2")


def snapshot_violations(s):
    """[(clause, detail)] for one snapshot"""
    out = []
    ops = s["ops"]
    alloc = dict(s["alloc"])
    ppub_vals = [b for _, b in s["ppub"]]
    pnon_vals = [b for _, b in s["pnon"]]
    for pid, op in s["alloc"]:
        if not (1 <= pid <= 65535):
            out.append(("P1.range", f"reserved packet id {pid} is outside 1..65535"))
        if op not in ops or ops[op]["pid"] != pid:
            out.append(("P2.reserved-is-held", f"packet id {pid} is reserved for operation {op}, which is not tracked or does not carry it"))
    if not (1 <= s["nextpid"] <= 65535):
        out.append(("P1.range", f"next packet id {s['nextpid']} is outside 1..65535"))
    for i, o in ops.items():
        if o["pid"] != 0 and needs_id(o["kind"]) and alloc.get(o["pid"]) != i:
            out.append(("P3.held-is-reserved", f"operation {i} carries packet id {o['pid']} but that id is {'reserved for ' + str(alloc[o['pid']]) if o['pid'] in alloc else 'not reserved'}"))
        if o["pubrel"] and not o["dup"] and i not in ppub_vals:
            out.append(("PR.pubrel-in-flight", f"operation {i} holds a PUBREL, is not a retransmission and is not in the pending-publish table"))
    for pid, op in s["ppub"]:
        if op not in ops or ops[op]["pid"] != pid or ops[op]["kind"] not in ("publish1", "publish2"):
            out.append(("TP.entries", f"pending-publish entry {pid}:{op} does not name a tracked QoS 1/2 publish carrying that id"))
    for pid, op in s["pnon"]:
        if op not in ops or ops[op]["pid"] != pid or ops[op]["kind"] not in ("subscribe", "unsubscribe"):
            out.append(("TN.entries", f"pending-subscribe entry {pid}:{op} does not name a tracked (un)subscribe carrying that id"))
    for i in s["pwc"]:
        if i in ops and needs_id(ops[i]["kind"]):
            out.append(("WC.no-id", f"operation {i} ({ops[i]['kind']}) waits for a write completion only, although it needs an acknowledgement"))
    located = set(s["userq"]) | set(s["resubq"]) | set(s["highq"]) | set(s["pwc"]) | set(ppub_vals) | set(pnon_vals)
    if s["cur"] is not None:
        located.add(s["cur"])
    for i in ops:
        if i not in located:
            out.append(("LOC.tracked-is-located", f"operation {i} is tracked but sits in no queue, table or current slot"))
    for i in s["highq"]:
        if i in ops:
            if ops[i]["kind"] in ("publish1", "publish2") and not ops[i]["pubrel"]:
                out.append(("H2.high-publish-has-pubrel", f"publish {i} is in the high-priority queue without a PUBREL"))
            if ops[i]["pubrel"] and i not in ppub_vals:
                out.append(("PR2.high-pubrel-pending", f"PUBREL of operation {i} is queued although the operation is not pending"))
    # second layer (Proofs/EngineExcl.lean): every operation waits in one place
    both = s["userq"] + s["resubq"]
    if len(set(both)) != len(both):
        out.append(("X5.queues-duplicate-free", f"an operation waits twice in the user / resubmit queues: {both}"))
    if len(set(s["highq"])) != len(s["highq"]):
        out.append(("X7.high-once", f"an operation is queued twice in the high-priority queue: {s['highq']}"))
    if len(set(s["pwc"])) != len(s["pwc"]):
        out.append(("X9.unflushed-once", f"an operation is listed twice as written-but-unflushed: {s['pwc']}"))
    for i in both:
        if i in s["highq"]:
            out.append(("X5.queues-disjoint", f"operation {i} waits in the high-priority queue and in the user / resubmit queue"))
        if i in s["pwc"] or i in ppub_vals or i in pnon_vals:
            out.append(("X2.queued-not-filed", f"operation {i} is queued and at the same time unflushed / awaiting its acknowledgement"))
        if s["cur"] == i:
            out.append(("X4.current-not-queued", f"operation {i} is being written and still queued"))
    # nothing that waits for a SUBACK / UNSUBACK is ever queued with high priority
    for i in s["highq"]:
        if i in ops and ops[i]["kind"] in ("subscribe", "unsubscribe"):
            out.append(("HQK.high-kind", f"{ops[i]['kind']} operation {i} is in the high-priority queue"))
    # one-at-a-time drain: while operations interrupted by the last disconnection are unresolved (slow-start count not zero)
    # at most one operation awaits its acknowledgement, and an acknowledged operation that is being written and not yet
    # filed finds both tables empty
    if s["state"] == "Connected" and s.get("drain_one") and s.get("slow"):
        if len(s["ppub"]) + len(s["pnon"]) > 1:
            out.append(("SS.one-at-a-time", f"{len(s['ppub']) + len(s['pnon'])} operations await their acknowledgement while the slow-start count is {s['slow']} (one-at-a-time drain)"))
        c = s["cur"]
        if c is not None and c in ops and needs_id(ops[c]["kind"]) and c not in ppub_vals and (s["ppub"] or s["pnon"]):
            out.append(("SS.one-at-a-time", f"operation {c} is being written while another awaits its acknowledgement and the slow-start count is {s['slow']} (one-at-a-time drain)"))
    # written-but-unflushed operations are completed by the write completion of the buffer that carried their last byte: there
    # must be one to come (the signature of a packet left 'being written' after its last byte)
    if s["pwc"] and not s.get("pending_write", True):
        out.append(("PWC.unflushed-needs-pending-write", f"operations {s['pwc']} wait for a write completion although no write is pending"))
    # the keep-alive clock never stops (Proofs/EngineWrite.lean, KA)
    if s["state"] == "Connected" and s.get("ska") and s.get("nping") in (None, "none"):
        out.append(("KA.next-ping-scheduled", f"Connected with a negotiated keep alive of {s['ska']} s and no next ping scheduled"))
    if s["state"] == "Disconnected":
        if s["cur"] is not None or s["highq"] or s["ppub"] or s["pnon"] or s["pwc"] or s["timeouts"]:
            out.append(("D1.disconnected-clean", "Disconnected with a current operation, high-priority work, pending tables or timeouts left"))
    if s["state"] == "PendingConnack":
        bad = [i for i in s["highq"] + s["pwc"] + ([s["cur"]] if s["cur"] is not None else []) if i in ops and ops[i]["kind"] != "connect"]
        if bad or s["ppub"] or s["pnon"] or s["timeouts"]:
            out.append(("H1.handshake-only-connect", f"during the handshake something other than the CONNECT is in flight: {bad} ppub={s['ppub']} pnon={s['pnon']}"))
    for i in s["userq"] + s["resubq"] + s["highq"] + s["pwc"] + ([s["cur"]] if s["cur"] is not None else []):
        if i >= s["nextop"]:
            out.append(("QB.queued-exists-before", f"queued operation id {i} was never created (next id {s['nextop']})"))
    if s["state"] == "Connected":
        for name in ("userq", "resubq"):
            q = s[name]
            if any(a > b for a, b in zip(q, q[1:])):
                out.append(("S.order", f"{name} is not in submission order while connected: {q}"))
        if s["rm"] is not None:
            if len(s["ppub"]) > s["rm"]:
                out.append(("F.receive-maximum", f"{len(s['ppub'])} unacknowledged publishes with receive maximum {s['rm']}"))
            c = s["cur"]
            if c is not None and c in ops and ops[c]["kind"] in ("publish1", "publish2") and c not in ppub_vals and len(s["ppub"]) >= s["rm"]:
                out.append(("F.receive-maximum", f"publish {c} is being written while {len(s['ppub'])} publishes are unacknowledged (receive maximum {s['rm']})"))
        c = s["cur"]
        if c is not None and c in ops and needs_id(ops[c]["kind"]) and ops[c]["pid"] == 0:
            out.append(("C1.current-has-id", f"operation {c} is being written without a packet id"))
    return out


def wf_monitor(walk, prefixes):
    """violations of the named clause families on every snapshot of the walk: (clause, detail, step)"""
    out = []
    seen = set()
    for i, (o, note) in enumerate(zip(walk.out, walk.notes)):
        if note.get("kind") != "snap":
            continue
        s = snap_state(o)
        if s is None:
            continue
        s["drain_one"] = walk.cfg.get("drain") == "one"
        for clause, detail in snapshot_violations(s):
            if clause.split(".")[0] in prefixes and clause not in seen:
                seen.add(clause)
                out.append(("state-invariant:" + clause, detail, i))
    return out


WF_FAMILIES = {"C01": ("LOC", "TP", "TN", "WC", "QB", "X2", "X4", "X9", "PWC"), "C06": ("P1", "P2", "P3"), "C04": ("PR", "PR2", "H2", "X7"),
               "C07": ("H1", "D1"), "C09": ("F", "SS"), "C10": ("S", "X5", "HQK"), "C16": ("C1",), "C14": ("KA",),
               # an operation that survives being offline is queued for the next connection; one that does not was failed: never neither
               "C15": ("LOC",)}


def with_wf(prop, fn):
    def run(walk, d):
        return list(fn(walk, d)) + wf_monitor(walk, WF_FAMILIES[prop])
    return run


def mon_C02(walk, d):
    """engine level: every packet the engine writes on a connection (the CONNECT it builds from the options, user packets,
    acknowledgements, pings) is accepted by the reference decoder of the negotiated version"""
    out = []
    for c in d["conns"]:
        if c.spec_n is None or c.spec_n >= len(c.packets):
            continue
        p = c.packets[c.spec_n]
        detail = f"reference decoder rejects packet {c.spec_n} ({p['kind']}) of connection {c.index}"
        clause = "reference-decoder-disagrees"
        if p["kind"] == "connect" and not walk.v5:
            # name the broken rule of the 3.1.1 CONNECT (stable part of a finding's signature)
            pos = sum(q["len"] for q in c.packets[:c.spec_n])
            pkts, _, _ = split_packets(c.stream[pos:pos + p["len"]])
            body = pkts[0][1]
            flags = body[7]
            cid_len = (body[10] << 8) | body[11]
            if (flags & 0x40) and not (flags & 0x80):
                detail += ": Password flag without User Name flag [MQTT-3.1.2-22]"
                clause = "connect311-password-without-username"
            elif cid_len == 0 and not (flags & 0x02):
                detail += ": zero-byte client identifier with CleanSession = 0 [MQTT-3.1.3-7]"
                clause = "connect311-empty-client-id-without-clean-session"
        out.append((clause, detail, p["last_step"]))
    return out


def mon_C03(walk, d):
    """engine level: a well-formed packet is decoded whatever earlier connections fed the decoder"""
    return [x for x in mon_C11(walk, d) if x[0] == "conformant-packet-undecodable"]


MONITORS = {"C02": mon_C02, "C03": mon_C03, "C01": mon_C01, "C04": mon_C04, "C05": mon_C05, "C06": mon_C06, "C07": mon_C07, "C09": mon_C09, "C10": mon_C10,
            "C11": mon_C11, "C14": mon_C14, "C15": mon_C15, "C16": mon_C16, "C17": mon_C17, "C18": mon_C18}
for _p in WF_FAMILIES:
    if _p in MONITORS:
        MONITORS[_p] = with_wf(_p, MONITORS[_p])
