#!/usr/bin/env python3
"""./check <id> --replay <file>: re-run a replay script on the implementation and on the model, side by side."""
import sys, os
sys.path.insert(0, os.path.dirname(os.path.abspath(__file__)))
import gv
from gv import harness_batch, driver_batch, resp_fields, unhex, hexs


def main(path):
    lines = [l.rstrip("\n") for l in open(path) if l.strip() and not l.startswith("#")]
    ok, log = gv.build_harness()
    if not ok:
        print("harness build failed"); return 2
    ok, log = gv.build_lean(["GV", "gvdriver"])
    impl = harness_batch(["session.reset"] + lines)[1:]
    model = driver_batch(["session.reset"] + lines)[1:]
    import suites_engine as S
    streams, cur = [], None
    for l, a, b in zip(lines, impl, model):
        if l.startswith("drv.run"):
            # whole-driver scenarios run on the implementation only (the model's part is `wl.run` / `eng.*`)
            print("   " + l[:220])
            print("     impl : " + a[:600])
            continue
        same = S.canon(a) == S.canon(b)
        print(("  " if same else "!!") + " " + l[:220])
        print("     impl : " + a[:300])
        if not same:
            print("     model: " + b[:300])
        if l.startswith("eng.open"):
            cur = bytearray(); streams.append(cur)
        if l.startswith("eng.svc") and cur is not None:
            f, _ = resp_fields(a)
            cur += unhex(f.get("bytes", "x"))
    v = "311" if any("v=311" in l for l in lines[:1]) else "5"
    for i, s in enumerate(streams):
        out = driver_batch([f"spec.decode v={v} b={hexs(bytes(s))}"])[0]
        print(f"--- connection {i + 1}: client stream decoded by the reference decoder")
        for seg in out.split(" | "):
            print("     " + seg[:200])
    return 0


if __name__ == "__main__":
    sys.exit(main(sys.argv[1]))
