#!/bin/sh
# seed_sweep.sh [jobs] [regex on seed names] — re-run every kept seed (seeded/<id>/patch-ported.diff if present, else patch.diff) against a snapshot of
# /verif and /repo's HEAD, `jobs` at a time; one line per seed in /verif/sweep_results.txt.  Development aid, not a registered check.
jobs=${1:-4}
filter=${2:-.}
out=${SWEEP_OUT:-/verif/sweep_results.txt}
snap=/root/verif-snap-$$
rm -rf "$snap"; mkdir -p "$snap"
rsync -a --exclude .git --exclude evidence --exclude replays /verif/ "$snap"/
: > "$out"
ls -d /verif/seeded/*/ | grep -v _hunt | grep -E "$filter" | while read d; do
  id=$(basename "$d")
  patch="$d/patch-ported.diff"; [ -f "$patch" ] || patch="$d/patch.diff"
  prop=$(python3 -c "import json,sys; print(json.load(open('$d/meta.json')).get('breaks_property','').split()[0].strip(','))" 2>/dev/null)
  [ -n "$prop" ] && echo "$id $patch $prop"
done | xargs -P "$jobs" -L 1 sh -c 'r=$(VERIF_SRC='"$snap"' /verif/tools/try_seed_wt.sh "$1" "$2" 2>&1 | grep -E "^===|does not apply" | head -1); echo "$0 $2 :: $r" >> '"$out"
rm -rf "$snap"
echo sweep-done >> "$out"
