"""C17 (resolver level): outbound resolvers and the inbound resolver vs the model, and a reference
server/client alias table replay as the implementation-level oracle."""
from gv import Rng, Finding, harness_batch, driver_batch, parse_kv, kv_get, resp_fields, unhex, hexs

TOPICS = [b"a", b"b", b"a/b", b"sensor/1", b"sensor/2", b"x" * 40, "é/ü".encode(), b"t/3", b"t/4", b"t/5", b"t/6", b"t/7"]


def outbound_session(rng):
    kind = rng.choice(["null", "manual", "lru", "lru", "lru"])
    cfg = rng.choice([0, 1, 2, 3, 5, 10, 65535])
    lines = [f"alias.out.new kind={kind} max={cfg}"]
    nconn = rng.randint(1, 3)
    for _ in range(nconn):
        smax = rng.choice([0, 1, 2, 3, 4, 10, 65535])
        lines.append(f"alias.out.reset max={smax}")
        pool = rng.sample(TOPICS, rng.randint(1, len(TOPICS)))
        for _ in range(rng.randint(1, 40)):
            t = rng.choice(pool)
            a = ""
            if kind == "manual" or rng.chance(0.3):
                if rng.chance(0.85):
                    a = f" alias={rng.choice([0, 1, 1, 2, 2, 3, 4, 5, 9, 10, 11, 65535])}"
            lines.append(f"alias.out.resolve{a} topic={hexs(t)}")
    return lines


def fill_topic(i):
    return bytes([122, 48 + i // 4096 % 64, 48 + i // 64 % 64, 48 + i % 64])


def fill_session(rng):
    """an LRU resolver filled to (about) its capacity with fresh topics in one request, then a few more publishes: the only way
    to reach the top of the alias range (65535 aliases, where `len + 1` no longer fits sixteen bits)"""
    cfg = rng.choice([65535, 65535, 65534, 4096, 300])
    smax = rng.choice([65535, 65535, cfg, 65534])
    room = min(cfg, smax)
    n = rng.choice([room, room, room - 1, room + 1, room + 70, max(room - 300, 1)])
    lines = [f"alias.out.new kind=lru max={cfg}", f"alias.out.reset max={smax}", f"alias.out.fill n={n}"]
    for _ in range(rng.randint(2, 12)):
        t = rng.choice([rng.choice(TOPICS), fill_topic(rng.randint(0, max(n - 1, 0))), fill_topic(rng.randint(0, 5)), fill_topic(max(n - 1, 0))])
        lines.append(f"alias.out.resolve topic={hexs(t)}")
    return lines


def inbound_session(rng):
    mx = rng.choice([0, 1, 2, 5, 65535])
    lines = [f"alias.in.new max={mx}"]
    for _ in range(rng.randint(1, 3)):
        lines.append("alias.in.reset")
        for _ in range(rng.randint(1, 30)):
            a = ""
            if rng.chance(0.8):
                a = f" alias={rng.choice([0, 1, 1, 2, 2, 3, 5, 6, 65535])}"
            t = rng.choice(TOPICS) if rng.chance(0.6) else b""
            lines.append(f"alias.in.resolve{a} topic={hexs(t)}")
    return lines


def suite_alias(report, tier, seed, prop="C17"):
    rng = Rng(seed, "alias")
    n = 300 if tier == "quick" else 8000
    corr_ok, mon_ok = True, True
    sessions = []
    for i in range(n):
        sessions.append(("out", outbound_session(rng)))
        sessions.append(("in", inbound_session(rng)))
    # the top of the alias range first (fixed corpus), then random fills
    sessions.append(("out", ["alias.out.new kind=lru max=65535", "alias.out.reset max=65535", "alias.out.fill n=65535",
                             f"alias.out.resolve topic={hexs(b'new/1')}", f"alias.out.resolve topic={hexs(fill_topic(7))}", f"alias.out.resolve topic={hexs(b'new/2')}"]))
    for i in range(5 if tier == "quick" else 60):
        sessions.append(("out", fill_session(rng)))
    reqs = []
    for _, lines in sessions:
        reqs.append("session.reset")
        reqs += lines
    impl = harness_batch(reqs)
    model = driver_batch(reqs)
    pos = 0
    for kind, lines in sessions:
        pos += 1
        outs = impl[pos:pos + len(lines)]
        mouts = model[pos:pos + len(lines)]
        pos += len(lines)
        report.case(kind + "|" + "|".join(lines))
        report.traces_validated += 1
        report.count(f"alias.session.{kind}")
        for l, a, b in zip(lines, outs, mouts):
            if a != b:
                corr_ok = False
                report.add_finding(Finding(prop, "corr:alias", {"clause": "model-vs-impl", "session": kind, "verb": l.split(" ")[0]},
                                           "alias resolver: implementation and model disagree",
                                           lines[:lines.index(l) + 1] + ["# impl: " + a, "# model: " + b], has_input=False))
                break
        # reference replay on the implementation's answers
        if kind == "out":
            table, smax, filled = {}, 0, False
            for idx, (l, a) in enumerate(zip(lines, outs)):
                verb, kv = parse_kv(l)
                if verb == "alias.out.new":
                    continue
                if verb == "alias.out.fill":
                    # a digest: every alias handed out must lie in 1..maximum; which topic got which alias is not reported, so
                    # the server's table is unknown from here on (only the range of later aliases is judged)
                    f, _ = resp_fields(a)
                    report.count("alias.out.fill")
                    filled = True
                    bad = None
                    if f.get("res", "").startswith("panic"):
                        bad = "resolver panicked"
                    elif int(f.get("zero", "0")) > 0 or (int(f.get("n", "0")) > int(f.get("none", "0")) and (int(f.get("min", "1")) < 1 or int(f.get("max", "0")) > smax)):
                        bad = f"aliases outside 1..{smax} handed out: {a}"
                    elif smax > 0 and int(f.get("none", "0")) > 0 and lines[0].split("kind=")[1].split(" ")[0] == "lru" and int(lines[0].split("max=")[1]) > 0:
                        bad = None   # an LRU resolver may decline to alias; not a violation of C17
                    if bad:
                        mon_ok = False
                        report.add_finding(Finding(prop, "mon:alias-server-replay", {"clause": "alias-out-of-range", "resolver": "lru"},
                                                   "outbound resolution the server cannot accept: " + bad, lines[:idx + 1] + ["# impl: " + a]))
                        break
                    continue
                if verb == "alias.out.reset":
                    table, smax = {}, int(kv_get(kv, "max"))
                    continue
                f, _ = resp_fields(a)
                if f.get("res", "").startswith("panic"):
                    mon_ok = False
                    report.add_finding(Finding(prop, "mon:alias-server-replay", {"clause": "panic"}, "resolver panicked", lines[:idx + 1]))
                    break
                topic = kv_get(kv, "topic")
                alias = f.get("alias")
                skip = f.get("skip") == "1"
                bad = None
                if alias is None:
                    if skip:
                        bad = "topic skipped without an alias"
                else:
                    al = int(alias)
                    report.count("alias.out.used")
                    if al < 1 or al > smax:
                        bad = f"alias {al} outside 1..{smax}"
                    elif skip:
                        report.count("alias.out.skip")
                        if not filled and table.get(al) != topic:
                            bad = f"topic omitted but the server's binding for alias {al} is {table.get(al)}"
                    else:
                        table[al] = topic
                if bad:
                    mon_ok = False
                    report.add_finding(Finding(prop, "mon:alias-server-replay", {"clause": "server-would-reconstruct-wrong-topic", "resolver": lines[0].split("kind=")[1].split(" ")[0]},
                                               "outbound resolution the server cannot reconstruct: " + bad, lines[:idx + 1] + ["# impl: " + a]))
                    break
        else:
            table, mx = {}, 0
            for idx, (l, a) in enumerate(zip(lines, outs)):
                verb, kv = parse_kv(l)
                if verb == "alias.in.new":
                    mx = int(kv_get(kv, "max"))
                    continue
                if verb == "alias.in.reset":
                    table = {}
                    continue
                alias, topic = kv_get(kv, "alias"), kv_get(kv, "topic")
                exp = None
                if alias is None:
                    exp = f"res=ok topic={topic}"
                else:
                    al = int(alias)
                    if topic == "x":
                        exp = f"res=ok topic={table[al]}" if al in table else "res=err:InvalidInboundTopicAlias"
                    elif al == 0 or al > mx:
                        exp = "res=err:InvalidInboundTopicAlias"
                    else:
                        table[al] = topic
                        exp = f"res=ok topic={topic}"
                report.count("alias.in." + exp.split(" ")[0])
                if a != exp:
                    mon_ok = False
                    report.add_finding(Finding(prop, "mon:alias-inbound", {"clause": "inbound-resolution"},
                                               f"inbound resolution differs from the reference client table: expected {exp}", lines[:idx + 1] + ["# impl: " + a]))
                    break
    report.sample({"session": sessions[0][1][:8], "impl": impl[1:9]})
    report.sample({"session": sessions[1][1][:8], "impl": impl[2 + len(sessions[0][1]):10 + len(sessions[0][1])]})
    report.obligation("corr:alias", "correspondence", corr_ok, f"{len(reqs)} resolver calls in {len(sessions)} sessions")
    report.obligation("mon:alias-server-replay", "monitor", mon_ok, "reference server table reconstructs every outbound topic; inbound equals reference client table")
