"""C20: the AWS IoT builder glue — custom-auth username/password, final connect options, 3.1.1 defaults.
Implementation (gneiss_mqtt_aws::verif facade) vs model (Model/Aws.lean), plus a monitor that judges the
implementation's output with an independent query-string parser and field-by-field comparison."""
import re
from gv import Rng, Finding, harness_batch, driver_batch, resp_fields, hexs, unhex

B64 = "ABCDEFGHIJKLMNOPQRSTUVWXYZabcdefghijklmnopqrstuvwxyz0123456789+/"
UNRESERVED = set(b"ABCDEFGHIJKLMNOPQRSTUVWXYZabcdefghijklmnopqrstuvwxyz0123456789-_.~")
AUTH_KEY = "x-amz-customauthorizer-name"
SIG_KEY = "x-amz-customauthorizer-signature"
UUID_RE = re.compile(r"^[0-9a-f]{8}-[0-9a-f]{4}-4[0-9a-f]{3}-[89ab][0-9a-f]{3}-[0-9a-f]{12}$")


def quote(b: bytes, upper=True) -> bytes:
    out = bytearray()
    for c in b:
        if c in UNRESERVED:
            out.append(c)
        else:
            out += (b"%%%02X" if upper else b"%%%02x") % c
    return bytes(out)


def strict_unquote(b: bytes):
    """None unless b consists of unreserved bytes and well-formed %XX escapes only"""
    out, i = bytearray(), 0
    while i < len(b):
        c = b[i]
        if c == 0x25:
            h = b[i + 1:i + 3]
            if len(h) != 2 or not re.fullmatch(rb"[0-9A-Fa-f]{2}", h):
                return None
            out.append(int(h, 16))
            i += 3
        elif c in UNRESERVED:
            out.append(c)
            i += 1
        else:
            return None
    return bytes(out)


def parse_query(q: bytes):
    """[(key, value)] or None when the query string is not well-formed"""
    if q == b"":
        return []
    out = []
    for part in q.split(b"&"):
        if b"=" not in part:
            return None
        k, v = part.split(b"=", 1)
        k2, v2 = strict_unquote(k), strict_unquote(v)
        if k2 is None or v2 is None:
            return None
        out.append((k2, v2))
    return out


def gen_text(rng, kind):
    if kind == "plain":
        return "".join(rng.choice("abcXYZ019-_.~") for _ in range(rng.randint(0, 12)))
    if kind == "authname":
        return "".join(rng.choice("abzAZ09_=,@-") for _ in range(rng.randint(1, 16)))
    if kind == "nasty":
        return "".join(rng.choice(["&", "=", "%", "+", " ", "?", "/", "#", "%2", "%zz", "%41", "é", "λ", "😀", "a", "Z", "0", ";", "\x01"]) for _ in range(rng.randint(0, 10)))
    raise ValueError(kind)


def gen_b64(rng):
    n = rng.choice([0, 1, 4, 8, 24, 88, 344])
    body = "".join(rng.choice(B64 if rng.chance(0.8) else B64[:62]) for _ in range(n))
    if n and rng.chance(0.5):
        body = body[:-rng.choice([1, 2])] + "=" * rng.choice([1, 2])
    return body


def gen_custom(rng):
    """returns (args string, meta)"""
    meta = {}
    parts = []
    if rng.chance(0.85):
        meta["authorizer"] = gen_text(rng, rng.choice(["authname", "authname", "plain", "nasty"]))
        parts.append("authorizer=" + hexs(meta["authorizer"].encode()))
    if rng.chance(0.7):
        raw = gen_b64(rng)
        form = rng.choice(["raw", "raw", "encoded", "encoded-lower", "foreign"])
        if form == "raw":
            sig = raw
        elif form == "encoded":
            sig = quote(raw.encode()).decode()
        elif form == "encoded-lower":
            sig = quote(raw.encode(), upper=False).decode()
        else:
            sig = gen_text(rng, "nasty")
            raw = None
        meta["sig"], meta["raw"], meta["form"] = sig, raw, form
        meta["tokenkey"] = gen_text(rng, rng.choice(["plain", "plain", "nasty"]))
        meta["tokenvalue"] = gen_text(rng, rng.choice(["plain", "nasty", "nasty"]))
        parts += ["signature=" + hexs(sig.encode()), "tokenkey=" + hexs(meta["tokenkey"].encode()), "tokenvalue=" + hexs(meta["tokenvalue"].encode())]
    if rng.chance(0.6):
        meta["username"] = gen_text(rng, rng.choice(["plain", "nasty"]))
        parts.append("username=" + hexs(meta["username"].encode()))
    if rng.chance(0.5):
        meta["password"] = bytes(rng.randint(0, 255) for _ in range(rng.randint(0, 9)))
        parts.append("password=" + hexs(meta["password"]))
    return " ".join(parts), meta


def judge_custom(meta, username: bytes, password):
    """list of (clause, message) violations"""
    bad = []
    user = meta.get("username", "").encode()
    if not username.startswith(user + b"?"):
        return [("username-prefix", f"CONNECT username {username!r} does not start with the user's username {user!r} followed by '?'")]
    q = username[len(user) + 1:]
    if meta.get("form") == "foreign":
        # a signature that is neither raw base64 nor percent-encoded is outside the property's domain: only the
        # username prefix and the password are judged (model and implementation are still compared)
        return [("password", f"password {password!r} differs from the configured {meta.get('password')!r}")] if password != meta.get("password") else []
    params = parse_query(q)
    if params is None:
        return [("query-malformed", f"query string {q!r} is not a well-formed sequence of percent-encoded key=value pairs")]
    want = []
    if "authorizer" in meta:
        want.append((AUTH_KEY.encode(), meta["authorizer"].encode()))
    if "sig" in meta:
        if meta["raw"] is not None:
            want.append((SIG_KEY.encode(), meta["raw"].encode()))
        else:
            want.append((SIG_KEY.encode(), None))       # outside the property's domain: only its presence is judged
        want.append((meta["tokenkey"].encode(), meta["tokenvalue"].encode()))
    if len(params) != len(want):
        return [("query-params", f"query {q!r} has {len(params)} parameters, configured {len(want)}")]
    for (k, v), (wk, wv) in zip(params, want):
        if k != wk or (wv is not None and v != wv):
            clause = "signature-once" if wk == SIG_KEY.encode() else ("authorizer" if wk == AUTH_KEY.encode() else "token")
            bad.append((clause, f"query parameter {k!r}={v!r} does not decode back to the configured {wk!r}={wv!r} (query {q!r})"))
    if password != meta.get("password"):
        bad.append(("password", f"password {password!r} differs from the configured {meta.get('password')!r}"))
    return bad


CONNECT_FIELDS = [("ka", [0, 1, 60, 1200, 65535]), ("sei", [0, 3600, 4294967295]), ("rri", [0, 1]), ("rpi", [0, 1]), ("rm", [1, 10, 65535]),
                  ("tam", [0, 5, 65535]), ("mps", [1, 128, 268435455]), ("wdi", [0, 30])]


def gen_connect(rng):
    parts, meta = [], {}
    if rng.chance(0.3):
        parts.append("rejoin=" + rng.choice(["always", "never", "post"]))
    for k, vals in CONNECT_FIELDS:
        if rng.chance(0.5):
            parts.append(f"{k}={rng.choice(vals)}")
    r = rng.random()
    if r < 0.35:
        meta["cid"] = None
    elif r < 0.55:
        meta["cid"] = ""
        parts.append("cid=x")
    else:
        meta["cid"] = gen_text(rng, rng.choice(["plain", "nasty"])) or "c"
        parts.append("cid=" + hexs(meta["cid"].encode()))
    if rng.chance(0.4):
        parts.append("user=" + hexs(gen_text(rng, "plain").encode()))
    if rng.chance(0.4):
        parts.append("pass=" + hexs(bytes(rng.randint(0, 255) for _ in range(rng.randint(0, 6)))))
    if rng.chance(0.3):
        parts.append("w.topic=" + hexs(b"will/topic") + f" w.qos={rng.choice([0, 1, 2])} w.retain={rng.choice([0, 1])} w.payload=" + hexs(b"bye"))
    for _ in range(rng.choice([0, 0, 1, 3])):
        parts.append("up=" + hexs(gen_text(rng, "plain").encode()) + ":" + hexs(gen_text(rng, "plain").encode()))
    return " ".join(parts), meta


def kv_multiset(text):
    return sorted(x for x in text.split(" ") if x)


def suite_aws(report, tier, seed, prop="C20"):
    rng = Rng(seed, "aws")
    n = 400 if tier == "quick" else 20000
    reqs, metas = [], []
    for i in range(n):
        kind = rng.choice(["auth", "auth", "connect", "connect", "defaults"])
        if kind == "auth":
            args, meta = gen_custom(rng)
            reqs.append(("aws.customauth " + args).rstrip())
            metas.append(("auth", meta, None))
        elif kind == "connect":
            custom = rng.chance(0.5)
            args, ameta = gen_custom(rng) if custom else ("", None)
            ctext, cmeta = gen_connect(rng)
            reqs.append((("aws.connect custom=1 " + args).rstrip() if custom else "aws.connect") + " | " + ctext)
            metas.append(("connect", ameta, (ctext, cmeta)))
        else:
            parts = ["v=" + rng.choice(["5", "311", "311"])]
            if rng.chance(0.4):
                parts.append("drain=" + rng.choice(["one", "none"]))
            if rng.chance(0.4):
                parts.append("retries=" + str(rng.choice([0, 1, 2, 5, 4294967295])))
            if rng.chance(0.5):
                parts.append("policy=" + rng.choice(["all", "acked", "qos1plus", "nothing"]))
            if rng.chance(0.3):
                parts.append("pingto=" + str(rng.choice([1, 5000, 60000])))
            if rng.chance(0.3):
                parts.append("ctimeout=" + str(rng.choice([1, 5000, 60000])))
            reqs.append("aws.defaults | " + " ".join(parts))
            metas.append(("defaults", parts, None))
    impl = harness_batch(reqs)
    # the model takes the generated id as an input: hand it the one the implementation drew
    mreqs = []
    for r, a in zip(reqs, impl):
        if r.startswith("aws.connect"):
            m = re.search(r" cid=(x[0-9a-f]*)", a)
            head, payload = r.split(" | ", 1)
            got = unhex(m.group(1)).decode("utf-8", "replace") if m else ""
            uuid = m.group(1) if UUID_RE.match(got) else hexs(b"00000000-0000-4000-8000-000000000000")
            mreqs.append(f"{head} uuid={uuid} | {payload}")
        else:
            mreqs.append(r)
    model = driver_batch(mreqs)
    corr_ok, mon_ok = True, True
    seen_ids = set()
    for r, (kind, meta, extra), a, b in zip(reqs, metas, impl, model):
        report.case(r)
        report.traces_validated += 1
        report.count("aws." + kind)
        if a != b:
            corr_ok = False
            report.add_finding(Finding(prop, "corr:aws", {"clause": "model-vs-impl", "verb": r.split(" ")[0]},
                                       "AWS builder: implementation and model disagree", [r, "# impl: " + a, "# model: " + b], has_input=False))
        fa, _ = resp_fields(a)
        if fa.get("res") != "ok":
            mon_ok = False
            report.add_finding(Finding(prop, "mon:aws", {"clause": "not-ok", "verb": r.split(" ")[0]}, "builder failed: " + a[:100], [r]))
            continue
        if kind == "auth":
            report.count("aws.sig." + meta.get("form", "absent"))
            pw = unhex(fa["password"]) if "password" in fa else None
            for clause, msg in judge_custom(meta, unhex(fa["username"]), pw):
                mon_ok = False
                report.add_finding(Finding(prop, "mon:aws", {"clause": clause}, msg, [r]))
        elif kind == "connect":
            ctext, cmeta = extra
            got = kv_multiset(a.split(" connect ", 1)[1]) if " connect " in a else []
            head = a.split(" connect ", 1)[0]
            cid = next((x for x in got if x.startswith("cid=")), None)
            cidv = unhex(cid[4:]).decode("utf-8", "replace") if cid else None
            report.count("aws.cid." + ("none" if cmeta["cid"] is None else "empty" if cmeta["cid"] == "" else "set"))
            if not cidv:
                mon_ok = False
                report.add_finding(Finding(prop, "mon:aws", {"clause": "client-id-empty"}, f"final connect options carry client id {cidv!r}", [r]))
            elif cmeta["cid"]:
                if cidv != cmeta["cid"]:
                    mon_ok = False
                    report.add_finding(Finding(prop, "mon:aws", {"clause": "client-id-replaced"}, f"user client id {cmeta['cid']!r} became {cidv!r}", [r]))
            else:
                if not UUID_RE.match(cidv) or cidv in seen_ids:
                    mon_ok = False
                    report.add_finding(Finding(prop, "mon:aws", {"clause": "client-id-not-fresh"}, f"generated client id {cidv!r} is not a fresh version-4 UUID", [r]))
                seen_ids.add(cidv)
            # every other option preserved
            want = [x for x in kv_multiset(ctext) if not x.startswith("rejoin=")]
            rejoin = next((x[7:] for x in ctext.split(" ") if x.startswith("rejoin=")), "post")
            kaopt = next((x[3:] for x in ctext.split(" ") if x.startswith("ka=")), "none")
            want = [x for x in want if not x.startswith("cid=")]
            gotc = [x for x in got if not x.startswith("cid=") and not x.startswith("clean=") and x not in ("w.dup=0", "w.pid=0")]
            if "ka=" not in ctext:
                gotc = [x for x in gotc if x != "ka=0"]
            if meta is not None:
                user = next((x for x in gotc if x.startswith("user=")), None)
                pw = next((x for x in gotc if x.startswith("pass=")), None)
                for clause, msg in judge_custom({k: v for k, v in meta.items() if k != "password"} | ({"password": meta["password"]} if "password" in meta else {}),
                                                unhex(user[5:]) if user else b"", unhex(pw[5:]) if (pw and "password" in meta) else None):
                    mon_ok = False
                    report.add_finding(Finding(prop, "mon:aws", {"clause": clause, "via": "connect"}, msg, [r]))
                want = [x for x in want if not x.startswith("user=") and not (x.startswith("pass=") and "password" in meta)]
                gotc = [x for x in gotc if not x.startswith("user=") and not (x.startswith("pass=") and "password" in meta)]
            if sorted(want) != sorted(gotc) or f"rejoin={rejoin} kaopt={kaopt}" not in head:
                mon_ok = False
                report.add_finding(Finding(prop, "mon:aws", {"clause": "connect-option-changed"},
                                           f"user connect options not preserved: wanted {sorted(want)} rejoin={rejoin} kaopt={kaopt}, got {sorted(gotc)} ({head})", [r]))
        else:
            parts = meta
            given = dict(p.split("=", 1) for p in parts)
            exp = {"v": given["v"], "policy": given.get("policy", "acked"), "drain": given.get("drain", "unset"), "retries": given.get("retries", "unset"),
                   "pingto": given.get("pingto", "10000"), "ctimeout": given.get("ctimeout", "30000")}
            applies = given["v"] == "311" and "drain" not in given and "retries" not in given
            report.count("aws.defaults." + ("applied" if applies else "left"))
            if applies:
                exp["drain"], exp["retries"] = "one", "2"
            gotd = {k: fa.get(k) for k in exp}
            if gotd != exp:
                mon_ok = False
                clause = "defaults-missing" if applies else ("defaults-overrode-user" if given["v"] == "311" else "defaults-on-mqtt5")
                report.add_finding(Finding(prop, "mon:aws", {"clause": clause}, f"client options after the AWS defaults: {gotd}, expected {exp}", [r]))
    report.sample({"request": reqs[0], "impl": impl[0]})
    report.obligation("corr:aws", "correspondence", corr_ok, f"{len(reqs)} builder calls, model given the implementation's generated id")
    report.obligation("mon:aws", "monitor", mon_ok, "independent query-string parser: username prefix, well-formedness, parameters decode back, signature encoded once, "
                      "client id non-empty/kept/fresh UUID, other options preserved, 3.1.1 defaults only when neither is set")
