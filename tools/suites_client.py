"""C12 / C19: the client state machine (`MqttClientImpl`) driven by a Python replica of the drivers'
`client_event_loop` with scripted transport outcomes; implementation (ClientSim facade) vs model, plus
event-grammar, stop-stops, loop-survival and back-off monitors."""
import re
from gv import Rng, Finding, Proc, HARNESS_BIN, driver_batch, parse_kv, kv_get, resp_fields, unhex, hexs
from walk import Broker, frame

NS = 1000000000
DUR_MAX = 18446744073709551615 * NS + 999999999
PERIODS = [0, 1, 999, 10 ** 6, NS // 2, NS, 2 * NS, 5 * NS, 10 * NS, 120 * NS, 2 ** 63, (2 ** 64 - 1) * NS, DUR_MAX // 2, DUR_MAX // 2 + 1, DUR_MAX]


def canon_cli(line):
    f, segs = resp_fields(line)
    if f.get("res", "").startswith("panic"):
        return "res=panic"
    f.pop("wait", None) if False else None
    return line


def canon_comps(line):
    """completions inside one step are a multiset (HashMap iteration order in reset())"""
    m = re.search(r" comps=(\S*)", line)
    if not m:
        return line
    return line.replace(" comps=" + m.group(1), " comps=" + ",".join(sorted(x for x in m.group(1).split(",") if x)))


def suite_backoff(report, tier, seed, prop="C19"):
    rng = Rng(seed, "backoff")
    n = 150 if tier == "quick" else 3000
    reqs, metas = [], []
    for i in range(n):
        base, mx, stable = rng.choice(PERIODS), rng.choice(PERIODS), rng.choice([0, NS, 30 * NS, DUR_MAX])
        if rng.chance(0.5):
            base, mx = rng.choice([NS // 10, NS, 3 * NS]), rng.choice([NS, 8 * NS, 60 * NS])
        jitter = rng.choice(["none", "uniform"])
        k = rng.choice([1, 5, 12, 70])
        session = [f"cli.new v=5 jitter={jitter} base={base} max={mx} stable={stable} | ka=60"]
        for j in range(k):
            session.append(f"cli.advance rand={rng.randint(0, 2 ** 70)}")
        # a connection that succeeds, then ends: short-lived unless the stability period is zero
        if rng.chance(0.6):
            session += ["cli.op op=start", "cli.transition to=Connecting", "cli.transition to=Connected", "cli.svc cap=4096", "cli.wc",
                        "cli.data b=x2003000000", "cli.error kind=closed", "cli.transition to=PendingReconnect lasted=5", "cli.backoff",
                        f"cli.advance rand={rng.randint(0, 2 ** 70)}"]
        metas.append((len(reqs) + 1, base, mx, stable, jitter, k, session))
        reqs.append("session.reset")
        reqs += session
    from gv import harness_batch
    impl = harness_batch(reqs)
    model = driver_batch(reqs)
    corr_ok, mon_ok = True, True
    for (pos, base, mx, stable, jitter, k, session) in metas:
        outs = impl[pos:pos + len(session)]
        mouts = model[pos:pos + len(session)]
        report.case("|".join(session))
        report.traces_validated += 1
        report.count("backoff.jitter." + jitter)
        report.count("backoff.base>max" if base > mx else "backoff.base<=max")
        eff_base, eff_max = (mx, base) if base > mx else (base, mx)
        eff_max = max(eff_max, NS)
        kk = 0
        for l, a, b in zip(session, outs, mouts):
            fa, _ = resp_fields(a)
            fb, _ = resp_fields(b)
            if fa.get("res", "").startswith("panic") or a == "res=died":
                mon_ok = False
                report.add_finding(Finding(prop, "mon:backoff", {"clause": "panic", "verb": l.split(" ")[0]},
                                           "computing the reconnect wait panicked: " + a[:120], session[:session.index(l) + 1]))
                break
            if l.startswith("cli.advance"):
                want = min(eff_base * (2 ** kk), eff_max)
                if l is session[-1] and "cli.backoff" in session:
                    # after the connection ended: reset to base iff it outlived the stability period (lasted > stable)
                    pass
                else:
                    w = int(fa["wait"])
                    if jitter == "none" and w != want:
                        mon_ok = False
                        report.add_finding(Finding(prop, "mon:backoff", {"clause": "closed-form", "jitter": jitter},
                                                   f"wait {kk} is {w} ns, expected min(base*2^{kk}, max) = {want} ns (base {eff_base}, max {eff_max})",
                                                   session[:session.index(l) + 1]))
                        break
                    if jitter == "uniform" and not (0 <= w <= want):
                        mon_ok = False
                        report.add_finding(Finding(prop, "mon:backoff", {"clause": "jitter-range", "jitter": jitter},
                                                   f"jittered wait {kk} is {w} ns, outside [0, {want}]", session[:session.index(l) + 1]))
                        break
                    if w > eff_max:
                        mon_ok = False
                        report.add_finding(Finding(prop, "mon:backoff", {"clause": "above-max"}, f"wait {w} above the maximum {eff_max}", session[:session.index(l) + 1]))
                        break
                kk += 1
                # compare everything but the jittered wait
                ca = {x: fa.get(x) for x in ("res", "next", "base", "max", "stable")}
                cb = {x: fb.get(x) for x in ("res", "next", "base", "max", "stable")}
                if jitter == "none":
                    ca["wait"], cb["wait"] = fa.get("wait"), fb.get("wait")
                if ca != cb:
                    corr_ok = False
                    report.add_finding(Finding(prop, "corr:backoff", {"clause": "model-vs-impl", "verb": "cli.advance"},
                                               "back-off: implementation and model disagree", session[:session.index(l) + 1] + ["# impl: " + a, "# model: " + b], has_input=False))
                    break
            elif l.startswith("cli.backoff"):
                nxt = int(fa["next"])
                lasted_long = stable < 5      # the real elapsed time is a few microseconds: longer than 0..4 ns, shorter than 1 s
                prev = min(eff_base * (2 ** kk), eff_max)
                want = eff_base if (stable == 0) else prev
                if stable in (0, NS, 30 * NS, DUR_MAX) and nxt != want:
                    mon_ok = False
                    report.add_finding(Finding(prop, "mon:backoff", {"clause": "reset-rule", "stable": "zero" if stable == 0 else "long"},
                                               f"after a connection that lasted microseconds with stability period {stable} ns the next wait is {nxt}, expected {want}",
                                               session[:session.index(l) + 1]))
                    break
                if stable == 0:
                    kk = 0
                if a != b:
                    corr_ok = False
                    report.add_finding(Finding(prop, "corr:backoff", {"clause": "model-vs-impl", "verb": "cli.backoff"},
                                               "back-off reset: implementation and model disagree", session[:session.index(l) + 1] + ["# impl: " + a, "# model: " + b], has_input=False))
                    break
            elif a != b:
                corr_ok = False
                report.add_finding(Finding(prop, "corr:backoff", {"clause": "model-vs-impl", "verb": l.split(" ")[0]},
                                           "client sim: implementation and model disagree", session[:session.index(l) + 1] + ["# impl: " + a, "# model: " + b], has_input=False))
                break
    report.sample({"session": metas[0][6][:6], "impl": impl[metas[0][0]:metas[0][0] + 6]})
    report.obligation("corr:backoff", "correspondence", corr_ok, f"{len(reqs)} client-sim calls")
    report.obligation("mon:backoff", "monitor", mon_ok, "closed form min(base*2^k, max), jitter range, maximum, reset rule, no panic (independent arithmetic)")


def suite_stability(report, tier, seed, prop="C19"):
    """Reconnect histories over real time: failed transports, connections that get a successful / failing / no CONNACK,
    ended quickly or after outliving the stability period.  The wait before attempt k+1 must be min(base*2^k, max)
    with k counted from the last connection that stayed established longer than the stability period."""
    rng = Rng(seed, "stability")
    n = 6 if tier == "quick" else 60
    MS = 1000000
    reqs, metas = [], []
    for i in range(n):
        base, mx, stable = rng.choice([50 * MS, 100 * MS, NS]), rng.choice([NS, 3 * NS, 60 * NS]), 250 * MS
        session = [f"cli.new v=5 jitter=none base={base} max={mx} stable={stable} | ka=60", "cli.op op=start", "cli.transition to=Connecting"]
        plan = []
        slept = 0
        kinds = [rng.choice(["refused", "success", "success", "noconnack", "noconnack", "rejected"]) for _ in range(rng.choice([4, 6, 9]))]
        longs = [False] * len(kinds)
        if i % 2 == 0:
            # a short-lived success, later an attempt that is established for long but never gets (or is refused by) a CONNACK
            at = rng.randint(0, len(kinds) - 2)
            kinds[at] = "success"
            later = rng.randint(at + 1, len(kinds) - 1)
            kinds[later] = rng.choice(["noconnack", "noconnack", "rejected"])
            longs[later] = True
            slept = 1
        for kind, forced in zip(kinds, longs):
            long = forced or (kind != "refused" and slept < 2 and rng.chance(0.35))
            slept += 1 if (long and not forced) else 0
            plan.append((kind, long))
            if kind == "refused":
                session += ["cli.error kind=establish", "cli.transition to=PendingReconnect measure=1"]
            else:
                session += ["cli.transition to=Connected", "cli.svc cap=4096", "cli.wc"]
                if kind == "success":
                    session.append("cli.data b=x2003000000")
                elif kind == "rejected":
                    session.append("cli.data b=x2003008700")
                if long:
                    session.append("cli.sleep ms=400")
                if kind != "rejected":
                    session.append("cli.error kind=closed")
                session.append("cli.transition to=PendingReconnect measure=1")
            session += ["cli.backoff", "cli.advance rand=0", "cli.transition to=Connecting"]
        metas.append((len(reqs) + 1, base, mx, stable, plan, session))
        reqs.append("session.reset")
        reqs += session
    from gv import harness_batch
    impl = harness_batch(reqs)
    # the model takes the connection's age as an input: hand it the one the implementation measured
    mreqs = []
    for r, a in zip(reqs, impl):
        if "measure=1" in r:
            since = resp_fields(a)[0].get("since", "none")
            mreqs.append(r + f" lasted={since if since != 'none' else 0}")
        else:
            mreqs.append(r)
    model = driver_batch(mreqs)
    corr_ok, mon_ok = True, True
    for (pos, base, mx, stable, plan, session) in metas:
        outs = impl[pos:pos + len(session)]
        mouts = model[pos:pos + len(session)]
        report.case("|".join(session))
        report.traces_validated += 1
        k, att = 0, 0
        measured = None
        diverged = False
        for j, (l, a, b) in enumerate(zip(session, outs, mouts)):
            fa, _ = resp_fields(a)
            if canon_comps(a) != canon_comps(b) and not diverged:
                corr_ok = False
                diverged = True       # the implementation's own trace is still judged below
                report.add_finding(Finding(prop, "corr:stability", {"clause": "model-vs-impl", "verb": l.split(" ")[0]},
                                           "reconnect history: implementation and model disagree", session[:j + 1] + ["# impl: " + a, "# model: " + b], has_input=False))
            if not fa.get("res", "").startswith(("ok", "err")):
                break
            if "measure=1" in l:
                measured = fa.get("since", "none")
            elif l == "cli.backoff":
                kind, long = plan[att]
                report.count(f"stability.{kind}.{'long' if long else 'short'}")
                stable_conn = kind == "success" and measured not in (None, "none") and int(measured) > stable
                if stable_conn:
                    k = 0
                want = min(base * 2 ** k, mx)
                if int(fa["next"]) != want:
                    mon_ok = False
                    clause = "reset-without-stable-connection" if int(fa["next"]) < want else "no-reset-after-stable-connection"
                    report.add_finding(Finding(prop, "mon:stability", {"clause": clause, "attempt": kind},
                                               f"after attempt {att + 1} ({kind}, established for {measured} ns, stability period {stable} ns) the next wait is "
                                               f"{fa['next']} ns, expected min(base*2^{k}, max) = {want} ns", session[:j + 1] + ["# impl: " + a]))
                    break
                att += 1
            elif l.startswith("cli.advance"):
                if int(fa["wait"]) != min(base * 2 ** k, mx):
                    mon_ok = False
                    report.add_finding(Finding(prop, "mon:stability", {"clause": "closed-form"}, f"wait {fa['wait']} differs from min(base*2^{k}, max)", session[:j + 1]))
                    break
                k += 1
    report.obligation("corr:stability", "correspondence", corr_ok, f"{len(reqs)} client-sim calls over real time (measured connection ages fed to the model)")
    report.obligation("mon:stability", "monitor", mon_ok, "waits follow min(base*2^k, max) with k restarting only after a connection that outlived the stability period")


def suite_client_inbound(report, tier, seed, prop="C05"):
    """Inbound publishes at the client level (MqttClientImpl on top of the engine): a read may carry valid
    publishes followed by something the engine rejects; the messages of that read are still surfaced, and a QoS 2
    message is surfaced exactly once across a session-resuming reconnect."""
    rng = Rng(seed, "client-inbound")
    n = 40 if tier == "quick" else 1500
    from gv import harness_batch
    reqs, metas = [], []
    for i in range(n):
        v5 = True
        qos = rng.choice([0, 1, 2, 2, 2])
        pid = rng.choice([1, 7, 300])
        payload = bytes([0x6d, i & 0xFF])
        topic = b"in/1"
        body = bytes([0, len(topic)]) + topic + (bytes([pid >> 8, pid & 0xFF]) if qos else b"") + b"\x00" + payload
        publish = frame(0x30 | (qos << 1), body)
        dup_publish = frame(0x38 | (qos << 1), body)
        bad = rng.choice([("unknown-puback", frame(0x40, bytes([0, 99]))), ("unknown-suback", frame(0x90, bytes([0, 98, 0, 0]))),
                          ("second-connack", bytes([0x20, 3, 0, 0, 0])), ("none", b""), ("unknown-pubcomp", frame(0x70, bytes([0, 97])))])
        same_read = rng.chance(0.7)
        session = ["cli.new v=5 policy=all jitter=none base=1000 max=2000000000 stable=0 | ka=60 cid=x63",
                   "cli.op op=start", "cli.transition to=Connecting", "cli.transition to=Connected", "cli.svc cap=4096", "cli.wc",
                   "cli.data b=x2003000000"]
        if same_read:
            session.append(f"cli.data b={hexs(publish + bad[1])}")
        else:
            session.append(f"cli.data b={hexs(publish)}")
            if bad[1]:
                session.append(f"cli.data b={hexs(bad[1])}")
        first_reads = len(session)
        if bad[0] != "none":
            # the drivers tear the connection down after the error and reconnect; the server still has the session
            session += ["cli.transition to=PendingReconnect lasted=5", "cli.advance rand=0", "cli.transition to=Connecting",
                        "cli.transition to=Connected", "cli.svc cap=4096", "cli.wc", "cli.data b=x2003010000"]
            if qos == 2:
                session += [f"cli.data b={hexs(dup_publish)}", "cli.svc cap=4096", "cli.wc"]
        metas.append((len(reqs) + 1, qos, pid, bad[0], same_read, first_reads, session))
        reqs.append("session.reset")
        reqs += session
    impl = harness_batch(reqs)
    model = driver_batch(reqs)
    corr_ok, mon_ok = True, True
    for (pos, qos, pid, bad, same_read, first_reads, session) in metas:
        outs = impl[pos:pos + len(session)]
        mouts = model[pos:pos + len(session)]
        report.case("|".join(session))
        report.traces_validated += 1
        report.count(f"client-inbound.qos{qos}.{bad}.{'same-read' if same_read else 'separate'}")
        for j, (l, a, b) in enumerate(zip(session, outs, mouts)):
            if l.startswith("cli.advance"):
                continue
            if canon_comps(a) != canon_comps(b):
                corr_ok = False
                report.add_finding(Finding(prop, "corr:client-inbound", {"clause": "model-vs-impl", "verb": l.split(" ")[0]},
                                           "client inbound: implementation and model disagree", session[:j + 1] + ["# impl: " + a[:300], "# model: " + b[:300]], has_input=False))
                break
        surfaced_first = sum(resp_fields(o)[0].get("events", "").split(",").count(f"Publish.{qos}") for o in outs[:first_reads])
        surfaced_all = sum(resp_fields(o)[0].get("events", "").split(",").count(f"Publish.{qos}") for o in outs)
        if any(o.startswith("res=panic") for o in outs):
            mon_ok = False
            report.add_finding(Finding(prop, "mon:client-inbound", {"clause": "panic"}, "client panicked on inbound data", session))
        elif surfaced_first != 1:
            mon_ok = False
            report.add_finding(Finding(prop, "mon:client-inbound", {"clause": "message-not-surfaced", "qos": qos},
                                       f"an inbound QoS {qos} publish delivered {'in the same read as' if same_read else 'before'} a rejected packet ({bad}) was surfaced {surfaced_first} times",
                                       session[:first_reads] + ["# impl: " + outs[first_reads - 1][:300]]))
        elif qos == 2 and surfaced_all != 1:
            mon_ok = False
            report.add_finding(Finding(prop, "mon:client-inbound", {"clause": "qos2-exactly-once"},
                                       f"a QoS 2 message was surfaced {surfaced_all} times across a session-resuming reconnect", session))
    report.obligation("corr:client-inbound", "correspondence", corr_ok, f"{len(reqs)} client-sim calls")
    report.obligation("mon:client-inbound", "monitor", mon_ok, "messages of a read are surfaced even when a later packet of that read is rejected; QoS 2 exactly once across resumed reconnect")


# ------------------------------------------------------------------------------------------------
# lifecycle (C12)
# ------------------------------------------------------------------------------------------------

class LoopSim:
    """a replica of client_event_loop / process_* with the transport scripted by the PRNG"""

    def __init__(self, rng, h, length=60):
        self.r = rng
        self.h = h
        self.length = length
        self.script, self.out = [], []
        self.dead = None           # why the loop ended
        self.events = []           # (step, event)
        self.ops = []              # (step, op)
        self.cur = "Stopped"
        self.broker = None
        self.buf = b""
        self.cooperative = False

    def ask(self, line, **note):
        resp = self.h.ask(line)
        self.script.append(line)
        self.out.append(resp)
        f, _ = resp_fields(resp)
        for ev in (f.get("events") or "").split(","):
            if ev:
                self.events.append((len(self.script) - 1, ev))
        if "cur" in f:
            self.cur = f["cur"]
        return f

    def user_op(self, allow_close=True):
        r = self.r
        c = r.random()
        if self.cooperative:
            return
        if c < 0.35:
            op = "start"
        elif c < 0.55:
            op = "stop"
        elif c < 0.75:
            op = "stopdisc"
        elif c < 0.80 and allow_close:
            op = "close"
        else:
            op = "pub"
        if op == "pub":
            self.ask("cli.op op=pub | publish pid=0 topic=x742f31 qos=1 payload=x0001", kind="op")
        else:
            self.ask(f"cli.op op={op}", kind="op")
            self.ops.append((len(self.script) - 1, op))

    def compute(self):
        f = self.ask("cli.compute")
        t = f.get("transition")
        return None if t in (None, "none") else t

    def transition(self, target):
        f = self.ask(f"cli.transition to={target} lasted=5")
        if f.get("res", "").startswith("err") or f.get("res", "").startswith("panic"):
            self.dead = "transition_to_state failed: " + f.get("res", "")
            return False
        if self.cur == "Shutdown":
            self.dead = "shutdown"
            return False
        return True

    def process_stopped(self):
        while True:
            if len(self.script) > self.length * 6 or self.cooperative:
                return None
            self.user_op()
            t = self.compute()
            if t:
                return t

    def process_connecting(self):
        r = self.r
        while True:
            c = r.random()
            if c < 0.08 and not self.cooperative:
                # the threaded driver's order: queued operations (possibly stop / close) are applied first, and the transport
                # failure observed in the same iteration asks for a reconnect without recomputing the transition
                self.user_op()
                self.ask("cli.error kind=establish")
                return "PendingReconnect"
            if c < 0.3 and not self.cooperative:
                self.user_op()
            elif c < 0.4 and not self.cooperative:
                self.ask("cli.error kind=establish")
                return "PendingReconnect"
            elif c < 0.5 and not self.cooperative:
                self.ask("cli.error kind=establish")
                return "PendingReconnect"
            else:
                return "Connected"
            t = self.compute()
            if t:
                return t

    def process_connected(self):
        r = self.r
        self.broker = Broker(r, True)
        self.broker.new_connection()
        unflushed = 0
        steps = 0
        while True:
            steps += 1
            nxt = None
            c = r.random()
            if steps > 60 and not self.cooperative:
                c = 0.93      # eventually the transport drops
            if self.cooperative:
                # writes complete, the server answers, nothing fails
                if unflushed:
                    c = 0.5
                elif self.broker.connect_seen and not self.broker.connack_sent:
                    c = 0.65
                else:
                    c = 0.35 if steps % 2 else 0.65
            if c < 0.04 and not self.cooperative:
                # threaded order again: an operation and a transport failure in one iteration
                self.user_op()
                self.ask("cli.error kind=closed" if self.broker.connack_sent else "cli.error kind=establish")
                return "PendingReconnect"
            if c < 0.2:
                self.user_op()
            elif c < 0.45:
                f = self.ask("cli.nst")
                if f.get("next") == "now" or (f.get("next") == "later" and r.chance(0.1) and not self.cooperative):
                    f = self.ask("cli.svc cap=4096")
                    b = unhex(f.get("bytes", "x"))
                    unflushed += len(b)
                    self.broker.feed(b)
                    if f.get("res", "").startswith("err"):
                        nxt = "PendingReconnect"
            elif c < 0.6:
                if unflushed:
                    f = self.ask("cli.wc")
                    unflushed = 0
                    if f.get("res", "").startswith("err"):
                        nxt = "PendingReconnect"
            elif c < 0.9:
                b = self.broker
                data = None
                if b.connect_seen and not b.connack_sent:
                    rc = 0 if (r.chance(0.85) or self.cooperative) else 135
                    data = b.connack(1 if (b.session and rc == 0 and r.chance(0.5)) else 0, rc, {})
                    b.connack_sent = True
                    if rc == 0:
                        b.session = True
                elif b.connack_sent and b.pending:
                    p = b.pending.pop(0)
                    k = p["kind"]
                    if k in ("puback", "pubrec", "pubrel", "pubcomp"):
                        data = b.ack(k, p["pid"])
                    elif k == "pingresp":
                        data = frame(0xD0, b"")
                elif b.connack_sent and r.chance(0.3) and not self.cooperative:
                    data = b.publish(0, 0, 0, b"in/1", b"x")
                if data is not None:
                    f = self.ask(f"cli.data b={hexs(data)}")
                    if f.get("res", "").startswith("err"):
                        nxt = "PendingReconnect"
            elif c < 0.96 and not self.cooperative:
                # EOF / read or write error
                self.ask("cli.error kind=closed" if self.broker.connack_sent else "cli.error kind=establish")
                nxt = "PendingReconnect"
            if nxt is None:
                nxt = self.compute()
            if nxt:
                return nxt
            if len(self.script) > self.length * 12:
                return "PendingReconnect"

    def process_pending_reconnect(self):
        self.ask(f"cli.advance rand={self.r.randint(0, 2 ** 40)}")
        while True:
            c = self.r.random()
            if c < 0.4 and not self.cooperative:
                self.user_op()
            else:
                return "Connecting"
            t = self.compute()
            if t:
                return t

    def run(self):
        cfg = f"cli.new v=5 policy={self.r.choice(['all', 'acked', 'qos1plus', 'nothing'])} jitter=none base=1000 max=2000000000 stable={self.r.choice([0, 30 * NS])} | ka=60 cid=x63"
        self.ask(cfg)
        return self.loop()

    def loop(self, limit=None):
        iterations = 0
        while self.dead is None:
            iterations += 1
            if len(self.script) > (limit or self.length * 10):
                break
            st = self.cur
            if st == "Stopped":
                nxt = self.process_stopped()
                if nxt is None:
                    break
            elif st == "Connecting":
                nxt = self.process_connecting()
            elif st == "Connected":
                nxt = self.process_connected()
            elif st == "PendingReconnect":
                nxt = self.process_pending_reconnect()
            else:
                self.dead = "shutdown"
                break
            if not self.transition(nxt):
                break
        return self


class PlanLoop(LoopSim):
    """the same replica of the client loop, driven by a plan instead of the PRNG: user requests (start, stop, stop with a
    DISCONNECT, close, a publish) are submitted at named points of a connection's life - stopped, connecting, connected
    before the CONNECT is written / flushed / answered, established, later, waiting to reconnect - one or two of them per plan,
    the transport otherwise cooperative (optionally dropping the established connection once)."""

    SITS = ["stopped", "connecting", "connected-start", "connect-unflushed", "before-connack", "established", "later", "reconnect"]

    def __init__(self, rng, h, plan, drop=False):
        super().__init__(rng, h, length=60)
        self.plan = {k: list(v) for k, v in plan.items()}
        self.drop = drop
        self.started = False

    def inject(self, sit):
        # (both drivers take one request from the channel and recompute the transition before the next)
        todo = self.plan.get(sit, [])
        while todo:
            op = todo.pop(0)
            if op == "pub":
                self.ask("cli.op op=pub | publish pid=0 topic=x742f31 qos=1 payload=x0001", kind="op")
            else:
                self.ask(f"cli.op op={op}", kind="op")
                self.ops.append((len(self.script) - 1, op))
            t = self.compute()
            if t:
                return t
        return self.compute()

    def process_stopped(self):
        if not self.started:
            self.started = True
            self.ask("cli.op op=start", kind="op")
            self.ops.append((len(self.script) - 1, "start"))
            t = self.compute()
            if t:
                return t
        return self.inject("stopped")

    def process_connecting(self):
        return self.inject("connecting") or "Connected"

    def process_pending_reconnect(self):
        self.ask(f"cli.advance rand={self.r.randint(0, 2 ** 40)}")
        return self.inject("reconnect") or "Connecting"

    def process_connected(self):
        self.broker = Broker(self.r, True)
        self.broker.new_connection()
        b = self.broker
        unflushed = 0

        def svc():
            nonlocal unflushed
            f = self.ask("cli.svc cap=4096")
            x = unhex(f.get("bytes", "x"))
            unflushed += len(x)
            b.feed(x)
            return "PendingReconnect" if f.get("res", "").startswith("err") else None

        def wc():
            nonlocal unflushed
            if unflushed:
                f = self.ask("cli.wc")
                unflushed = 0
                if f.get("res", "").startswith("err"):
                    return "PendingReconnect"
            return None

        t = self.inject("connected-start") or svc() or self.inject("connect-unflushed") or wc() or self.inject("before-connack")
        if t:
            return t
        if b.connect_seen:
            sp, rc = self.connacks.pop(0) if getattr(self, "connacks", None) else (0, 0)
            f = self.ask(f"cli.data b={hexs(b.connack(sp, rc, {}))}")
            b.connack_sent = True
            b.session = True
            if f.get("res", "").startswith("err"):
                return "PendingReconnect"
        t = self.compute() or self.inject("established")
        if t:
            return t
        if self.drop:
            self.drop = False
            self.ask("cli.error kind=closed")
            return "PendingReconnect"
        for step in range(40):
            f = self.ask("cli.nst")
            t = None
            if f.get("next") == "now":
                t = svc()
            t = t or wc()
            if t:
                return t
            if step == 0:
                t = self.inject("later")
                if t:
                    return t
            if b.connack_sent and b.pending:
                pnd = b.pending.pop(0)
                k = pnd["kind"]
                data = b.ack(k, pnd["pid"]) if k in ("puback", "pubrec", "pubrel", "pubcomp") else (frame(0xD0, b"") if k == "pingresp" else None)
                if data is not None:
                    f = self.ask(f"cli.data b={hexs(data)}")
                    if f.get("res", "").startswith("err"):
                        return "PendingReconnect"
            t = self.compute()
            if t:
                return t
        # the transport keeps reacting and never fails: a client that has nothing more to do stays connected - and one
        # that was asked to stop or close and is still here is stuck
        return self.compute()

    def transition(self, target):
        if target is None:
            return False
        return super().transition(target)

    def run(self):
        self.ask("cli.new v=5 policy=all jitter=none base=1000 max=2000000000 stable=0 | ka=60 cid=x63")
        return self.loop(limit=400)


def lifecycle_plans(tier):
    S = PlanLoop.SITS
    ops = ["start", "stop", "stopdisc", "close", "pub"]
    plans = []
    for i, s1 in enumerate(S):
        for o1 in ops:
            plans.append(({s1: [o1]}, False))
            for j in range(i, len(S)):
                if tier == "quick" and j > i + 3:
                    continue
                for o2 in ops:
                    if o1 == "pub" and o2 == "pub":
                        continue
                    pl = {s1: [o1]}
                    pl.setdefault(S[j], [])
                    pl[S[j]] = pl[S[j]] + [o2]
                    plans.append((pl, False))
                    if tier != "quick" or (o1 in ("stopdisc", "close") or o2 in ("stopdisc", "close")) and j >= 5:
                        plans.append((pl, True))
    return plans


def suite_hostile_connack(report, tier, seed, prop="C11"):
    """the client (engine + event dispatch, driven like the drivers drive it) against a server whose CONNACK breaks the protocol
    or refuses the connection: Session Present = 1 answering a clean-start CONNECT, failing reason codes, a second CONNACK -
    on the first connection and on later ones.  No panic, the attempt is reported as a failure (never as a success), the loop
    goes on and a stop still stops."""
    h = Proc([HARNESS_BIN], "harness")
    sims = []
    try:
        scripts = [[(1, 0)], [(1, 0), (0, 0)], [(0, 0x87)], [(1, 0x87)], [(0, 0), (1, 0)], [(1, 0), (1, 0), (0, 0)]]
        for j, cs in enumerate(scripts):
            for stop_at in (None, "established", "later"):
                h.ask("session.reset")
                sim = PlanLoop(Rng(seed, f"hostile-connack:{j}"), h, ({stop_at: ["stop"]} if stop_at else {}), drop=True)
                sim.connacks = list(cs)
                sim.hostile = list(cs)
                sim.run()
                sims.append(sim)
    finally:
        h.close()
    reqs = []
    for s in sims:
        reqs.append("session.reset")
        reqs += s.script
    model = driver_batch(reqs)
    corr_ok, mon_ok = True, True
    pos = 0
    for s in sims:
        pos += 1
        mo = model[pos:pos + len(s.script)]
        pos += len(s.script)
        report.case("|".join(s.script))
        report.traces_validated += 1
        for l, a, b in zip(s.script, s.out, mo):
            if l.startswith("cli.advance") or (a.startswith("res=panic") and b.startswith("res=panic")):
                continue
            if canon_comps(a) != canon_comps(b):
                corr_ok = False
                i = s.script.index(l)
                report.add_finding(Finding(prop, "corr:hostile-connack", {"clause": "model-vs-impl", "verb": l.split(" ")[0]},
                                           "client against a hostile CONNACK: implementation and model disagree", s.script[:i + 1] + ["# impl: " + a[:300], "# model: " + b[:300]], has_input=False))
                break
        bad = None
        for i, o in enumerate(s.out):
            if o.startswith("res=panic") or o == "res=died":
                bad = ("panic", "the client panicked: " + o[:120], s.script[:i + 1])
                break
        if not bad:
            g = check_grammar(s.events)
            if g:
                bad = ("event-grammar", "client event stream is not well-formed: " + g, s.script)
        if not bad and s.hostile and (s.hostile[0][0] == 1 or s.hostile[0][1] != 0):
            # the first answer was a violation / a refusal: the first outcome reported must be a failure
            first = [ev for _, ev in s.events if ev.startswith(("Failure", "Success"))][:1]
            if first and first[0].startswith("Success"):
                bad = ("refused-handshake-reported-as-success", f"the first CONNACK was {'Session Present = 1 after a clean start' if s.hostile[0][0] else 'a refusal'}, yet the client reported {first[0]}", s.script)
        if bad:
            mon_ok = False
            report.add_finding(Finding(prop, "mon:hostile-connack", {"clause": bad[0]}, bad[1], bad[2]))
    report.obligation("corr:hostile-connack", "correspondence", corr_ok, f"{len(sims)} planned client loops, every call compared")
    report.obligation("mon:hostile-connack", "monitor", mon_ok, "no panic, a refused or protocol-breaking handshake is reported as a failure, the event stream stays well-formed")


GRAMMAR = re.compile(r"^(S*A(F|U(D|$)|$)S*)*$")


def check_grammar(events):
    """Attempt (Failure | Success Disconnection), Stopped only between attempts; publishes only while connected"""
    s = ""
    for _, ev in events:
        if ev == "Attempt":
            s += "A"
        elif ev.startswith("Failure"):
            s += "F"
        elif ev.startswith("Success"):
            s += "U"
        elif ev.startswith("Disconnection"):
            s += "D"
        elif ev == "Stopped":
            s += "S"
    state = "idle"
    for i, ch in enumerate(s):
        if state == "idle":
            if ch == "A":
                state = "attempt"
            elif ch == "S":
                pass
            else:
                return f"event {ch} at position {i} without a preceding attempt ({s})"
        elif state == "attempt":
            if ch == "F":
                state = "idle"
            elif ch == "U":
                state = "up"
            else:
                return f"attempt followed by {ch} at position {i} ({s})"
        elif state == "up":
            if ch == "D":
                state = "idle"
            else:
                return f"connection success followed by {ch} at position {i} before its disconnection ({s})"
    return None


def suite_lifecycle(report, tier, seed, prop="C12"):
    rng = Rng(seed, "lifecycle")
    n = 120 if tier == "quick" else 4000
    h = Proc([HARNESS_BIN], "harness")
    sims = []
    try:
        for i in range(n):
            h.ask("session.reset")
            sim = LoopSim(Rng(seed, f"loop:{i}"), h, length=rng.choice([30, 60, 120]))
            sim.run()
            # fairness phase: let the transport react, submit nothing new; a pending stop must complete
            sim.stop_pending = None
            if sim.dead is None:
                last_stop = max([st for st, op in sim.ops if op in ("stop", "stopdisc")], default=None)
                last_start = max([st for st, op in sim.ops if op == "start"], default=-1)
                if last_stop is not None and last_stop > last_start:
                    sim.stop_pending = last_stop
                sim.cooperative = True
                mark = len(sim.script)
                sim.loop(limit=mark + 400)
                sim.fair_from = mark
            sims.append(sim)
        # the planned requests: every pair of user requests at every pair of points in a connection's life
        for j, (pl, drop) in enumerate(lifecycle_plans(tier)):
            h.ask("session.reset")
            sim = PlanLoop(Rng(seed, f"planloop:{j}"), h, pl, drop=drop)
            sim.run()
            sim.stop_pending = None
            if sim.dead is None:
                last_stop = max([st for st, op in sim.ops if op in ("stop", "stopdisc")], default=None)
                last_start = max([st for st, op in sim.ops if op == "start"], default=-1)
                if last_stop is not None and last_stop > last_start:
                    sim.stop_pending = last_stop
                # (no fairness phase: the planned loop is cooperative to its end, and stays on the connection it is on)
                sim.fair_from = len(sim.script)
            sims.append(sim)
    finally:
        h.close()
    reqs = []
    for s in sims:
        reqs.append("session.reset")
        reqs += s.script
    model = driver_batch(reqs)
    corr_ok, mon_ok = True, True
    pos = 0
    for s in sims:
        pos += 1
        mo = model[pos:pos + len(s.script)]
        pos += len(s.script)
        report.case("|".join(s.script))
        report.traces_validated += 1
        for l, a, b in zip(s.script, s.out, mo):
            report.count("loop." + l.split(" ")[0] + (("." + kv_get(parse_kv(l)[1], "op", "")) if l.startswith("cli.op") else ""))
            ca, cb = canon_comps(a), canon_comps(b)
            if l.startswith("cli.advance"):
                continue
            if a.startswith("res=panic") and b.startswith("res=panic"):
                continue
            if ca != cb:
                corr_ok = False
                i = s.script.index(l)
                report.add_finding(Finding(prop, "corr:lifecycle", {"clause": "model-vs-impl", "verb": l.split(" ")[0]},
                                           "client lifecycle: implementation and model disagree", s.script[:i + 1] + ["# impl: " + a[:300], "# model: " + b[:300]], has_input=False))
                break
        for i, o in enumerate(s.out):
            if o.startswith("res=panic") or o == "res=died":
                mon_ok = False
                report.add_finding(Finding(prop, "mon:lifecycle", {"clause": "panic"}, "client state machine panicked: " + o[:100], s.script[:i + 1]))
        g = check_grammar(s.events)
        if g:
            mon_ok = False
            report.add_finding(Finding(prop, "mon:lifecycle", {"clause": "event-grammar"}, "client event stream is not well-formed: " + g, s.script))
        if s.dead and s.dead != "shutdown":
            mon_ok = False
            report.add_finding(Finding(prop, "mon:lifecycle", {"clause": "loop-died"}, "the client loop exits: " + s.dead, s.script))
        closes = [st for st, op in s.ops if op == "close"]
        if closes:
            after = [st for st, ev in s.events if ev == "Attempt" and st > closes[0]]
            if after:
                mon_ok = False
                report.add_finding(Finding(prop, "mon:lifecycle", {"clause": "attempt-after-close"}, "a connection attempt was made after close()", s.script[:after[0] + 1]))
            elif s.dead is None:
                mon_ok = False
                report.add_finding(Finding(prop, "mon:lifecycle", {"clause": "close-never-closes"},
                                           "close() was requested but the client never reached Shutdown although the transport kept reacting", s.script))
        if s.dead is None and getattr(s, "stop_pending", None) is not None:
            stopped_after = [st for st, ev in s.events if ev == "Stopped" and st > s.stop_pending]
            attempts_after_stop = [st for st, ev in s.events if ev == "Attempt" and stopped_after and st > stopped_after[0]]
            already = "cur=Stopped" in s.out[s.stop_pending]
            if already and not stopped_after:
                # the client was already stopped when the request arrived: it must simply stay stopped
                if s.cur != "Stopped" or any(st > s.stop_pending and ev == "Attempt" for st, ev in s.events):
                    mon_ok = False
                    report.add_finding(Finding(prop, "mon:lifecycle", {"clause": "attempt-after-stop"}, "a stopped client left the Stopped state without a start", s.script))
            elif not stopped_after:
                mon_ok = False
                where = "handshake" if any("proto=PendingConnack" in s.out[s.stop_pending] for _ in [0]) else "other"
                report.add_finding(Finding(prop, "mon:lifecycle", {"clause": "stop-never-stops", "where": where},
                                           "a stop request that no start supersedes never produced a Stopped event although the transport kept reacting", s.script))
            elif len(stopped_after) > 1:
                mon_ok = False
                report.add_finding(Finding(prop, "mon:lifecycle", {"clause": "stopped-twice"}, "more than one Stopped event for one stop request", s.script))
            elif attempts_after_stop:
                mon_ok = False
                report.add_finding(Finding(prop, "mon:lifecycle", {"clause": "attempt-after-stop"}, "a connection attempt after Stopped without a start", s.script))
    if sims:
        report.sample({"script": sims[0].script[:14], "impl": sims[0].out[:14]})
    report.obligation("corr:lifecycle", "correspondence", corr_ok, f"{len(sims)} simulated client loops, {len(reqs)} calls")
    report.obligation("mon:lifecycle", "monitor", mon_ok, "event grammar, stop-stops under a reacting transport, loop never dies, no panic")
