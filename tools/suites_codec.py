"""Correspondence suites and implementation-level monitors for the codec properties (C02, C03)."""
import gen_codec as G
from gv import (Rng, Finding, harness_batch, driver_batch, parse_kv, kv_get, resp_fields, unhex, hexs)


def spec_view(text):
    """standard-level packet text -> (kind, fixed fields dict, ordered user props, other props dict-of-lists)"""
    kind, kv = parse_kv(text)
    fixed, ups, props = {}, [], {}
    subs = []
    for k, v in kv:
        if k in ("P38", "W38"):
            ups.append((k, v))
        elif k[0] in "PW" and k[1:].isdigit():
            props.setdefault(k, []).append(v)
        elif k in ("sub", "tf"):
            subs.append((k, v))
        else:
            fixed[k] = v
    return kind, fixed, ups, {k: sorted(v) for k, v in props.items()}, subs


def in_domain(text):
    """required fields of a user-constructible packet (shrinking must stay inside the property's domain)"""
    kind, kv = parse_kv(text)
    keys = [k for k, _ in kv]
    if kind == "subscribe":
        return "sub" in keys and "pid" in keys
    if kind == "unsubscribe":
        return "tf" in keys and "pid" in keys
    if kind == "publish":
        return kv_get(kv, "topic", "x") != "x" and "qos" in keys and "pid" in keys
    if kind in ("puback", "pubrec", "pubrel", "pubcomp"):
        return "pid" in keys
    if kind == "connect":
        return ("w.topic" in keys) == any(k.startswith("w.") for k in keys) and \
            (("w.topic" not in keys) or (kv_get(kv, "w.topic") != "x" and "w.qos" in keys))
    return True


def shrink_packet(text, still_fails0):
    """greedy delta debugging on the key=value fields of one packet line"""
    def still_fails(t):
        return in_domain(t) and still_fails0(t)
    kind, kv = parse_kv(text)
    # whole groups first (the will of a CONNECT)
    for prefix in ("w.",):
        cand = [(k, v) for k, v in kv if not k.startswith(prefix)]
        if len(cand) < len(kv) and still_fails(" ".join([kind] + [f"{k}={v}" for k, v in cand])):
            kv = cand
    changed = True
    while changed:
        changed = False
        for i in range(len(kv)):
            cand = kv[:i] + kv[i + 1:]
            t = " ".join([kind] + [f"{k}={v}" for k, v in cand])
            if still_fails(t):
                kv = cand
                changed = True
                break
    # shorten hex values
    for i, (k, v) in enumerate(kv):
        if v.startswith("x") and len(v) > 3 and ":" not in v:
            for n in (0, 1):
                t = " ".join([kind] + [f"{kk}={(('x' + vv[1:1 + 2 * n]) if j == i else vv)}" for j, (kk, vv) in enumerate(kv)])
                if still_fails(t):
                    kv[i] = (k, "x" + v[1:1 + 2 * n])
                    break
    return " ".join([kind] + [f"{k}={v}" for k, v in kv])


def packet_signature(text, version, extra=""):
    kind, kv = parse_kv(text)
    keys = sorted({k for k, _ in kv})
    return {"kind": kind, "version": version, "fields": ",".join(keys), "clause": extra}


def in_encode_domain(pkt, v):
    """packets the client can be made to emit: a CONNECT is built by the engine from the connect options, which never pairs a
    zero-byte 3.1.1 client identifier with CleanSession = 0 (checked on the engine's own CONNECTs by the C02 engine walks)"""
    kind, kv = parse_kv(pkt)
    if kind == "connect" and v == 311 and kv_get(kv, "cid", "x") == "x" and kv_get(kv, "clean", "0") != "1":
        return False
    # ... nor, in 3.1.1, a password with no user name: such a CONNECT fails last-chance validation [MQTT-3.1.2-22]
    if kind == "connect" and v == 311 and kv_get(kv, "pass") is not None and kv_get(kv, "user") is None:
        return False
    return True


def repair_to_domain(pkt, v):
    kind, kv = parse_kv(pkt)
    if kind == "connect" and v == 311:
        if kv_get(kv, "cid", "x") == "x" and kv_get(kv, "clean", "0") != "1":
            pkt = pkt.replace(" clean=0", "") + " clean=1"
        if kv_get(kv, "pass") is not None and kv_get(kv, "user") is None:
            pkt = pkt + " user=x75"
    return pkt


def encode_requests(rng, n_packets, allow_over):
    cases = []
    for i in range(n_packets):
        pkt = G.gen_outbound(rng, allow_over=allow_over)
        v = rng.choice([5, 311])
        if not in_encode_domain(pkt, v):
            pkt = repair_to_domain(pkt, v)
        kind = pkt.split(" ")[0]
        res = ""
        if kind == "publish" and v == 5 and rng.chance(0.5):
            skip = 1 if rng.chance(0.4) else 0
            alias = rng.choice([1, 2, 255, 65535])
            res = f" skip={skip} alias={alias}"
        caps = [G.gen_caps(rng) for _ in range(3)]
        cases.append({"pkt": pkt, "v": v, "res": res, "caps": caps})
    return cases


def boundary_cases(rng, thorough):
    """sweep a filler field so that the property-section length and the remaining length of every packet kind cross the
    1/2-byte (and, sampled, the 2/3-byte) variable-length-integer boundaries, under every alias resolution"""
    def filler(n):
        return "x" + "61" * n
    small = list(range(108, 132))
    big = list(range(16366, 16388)) if thorough else sorted(rng.sample(range(16366, 16388), 4))
    cases = []

    def add(pkt, v, res=""):
        cases.append({"pkt": pkt, "v": v, "res": res, "caps": [G.gen_caps(rng), "4096", "7"]})

    for n in small + big:
        for res in ("", " skip=0 alias=7", " skip=1 alias=65535"):
            add(f"publish pid=0 topic=x612f62 qos=0 dup=0 retain=0 payload=x7061 ct={filler(n)}", 5, res)
        q = rng.choice([1, 2])
        add(f"publish pid=9 topic=x612f62 qos={q} dup=0 retain=0 mei=5 up={filler(n)}:x62", 5, rng.choice(["", " skip=0 alias=1", " skip=1 alias=1"]))
        # remaining-length boundaries, both versions
        add(f"publish pid=0 topic=x612f62 qos=0 dup=0 retain=0 payload={filler(n)}", 311)
        add(f"publish pid=0 topic=x612f62 qos=0 dup=0 retain=0 payload={filler(n)}", 5, rng.choice(["", " skip=1 alias=2"]))
        add(f"connect ka=60 clean=1 cid=x63 up={filler(n)}:x", 5)
        add(f"connect ka=60 clean=1 cid=x63 w.pid=0 w.topic=x77 w.qos=0 w.dup=0 w.retain=0 w.ct={filler(n)}", 5)
        add(f"connect ka=60 clean=1 cid={filler(n)}", 311)
        add(f"subscribe pid=1 sub=x612f62:1:0:0:0 up={filler(n)}:x", 5)
        add(f"subscribe pid=1 sub={filler(n)}:1:0:0:0", rng.choice([5, 311]))
        add(f"unsubscribe pid=1 tf=x612f62 up={filler(n)}:x", 5)
        add(f"disconnect rc=0 rs={filler(n)}", 5)
        add(f"{rng.choice(['puback', 'pubrec', 'pubrel', 'pubcomp'])} pid=3 rc=0 rs={filler(n)}", 5)
    return cases


def over_limit(pkt):
    """does any string/binary field exceed 65535 bytes (outside the static validity domain)?"""
    _, kv = parse_kv(pkt)
    for k, v in kv:
        for part in v.split(":"):
            # only the application payload of a PUBLISH is unbounded; a will's payload is length-prefixed binary data
            if part.startswith("x") and (len(part) - 1) // 2 > 65535 and k != "payload":
                return True
    return False


def suite_encode(report, tier, seed, prop="C02"):
    """harness `encode` vs model `encode` (byte equality, every capacity sequence); monitors on the
    implementation's bytes: chunk bounds, chunking invariance, reference decoding = supplied content."""
    rng = Rng(seed, "encode")
    n = 700 if tier == "quick" else 20000
    cases = boundary_cases(rng, tier != "quick") + encode_requests(rng, n, allow_over=True)
    report.count("encode.boundary-sweep", len(cases) - n)
    reqs = []
    for c in cases:
        for caps in c["caps"]:
            reqs.append(f"encode v={c['v']}{c['res']} caps={caps} | {c['pkt']}")
    impl = harness_batch(reqs)
    model = driver_batch(reqs)
    corr_ok = True
    mon_chunk_ok = True
    mon_spec_ok = True
    spec_reqs, spec_idx = [], []
    for ci, c in enumerate(cases):
        outs = impl[ci * 3: ci * 3 + 3]
        mouts = model[ci * 3: ci * 3 + 3]
        report.case(f"{c['v']}{c['res']}|{c['pkt']}")
        report.count("encode.kind." + c["pkt"].split(" ")[0])
        report.count(f"encode.version.{c['v']}")
        streams = []
        for k in range(3):
            if outs[k] != mouts[k]:
                corr_ok = False
                report.add_finding(Finding(prop, "corr:encode", packet_signature(c["pkt"], c["v"], "model-vs-impl-bytes"),
                                           "encode: implementation and model disagree",
                                           [reqs[ci * 3 + k], "# impl:  " + outs[k][:300], "# model: " + mouts[k][:300]], has_input=False))
            f, _ = resp_fields(outs[k])
            res = f.get("res", "")
            report.count("encode.result." + res.split(":")[0])
            if res.startswith("panic") or res == "died" or res == "stuck":
                mon_chunk_ok = False
                report.add_finding(Finding(prop, "mon:encode-no-panic", packet_signature(c["pkt"], c["v"], res.split(":")[0]),
                                           f"encode {res}", [reqs[ci * 3 + k], "# impl: " + outs[k][:300]]))
                continue
            chunks = [unhex(x) for x in f.get("chunks", "").split(",") if x]
            if res == "ok":
                streams.append(b"".join(chunks))
                # each chunk within the space offered
                caps = c["caps"][k].split(",")
                for j, ch in enumerate(chunks):
                    cp = caps[min(j, len(caps) - 1)].split(":")
                    free = int(cp[0]) - (min(int(cp[1]), int(cp[0])) if len(cp) > 1 else 0)
                    if len(ch) > free:
                        mon_chunk_ok = False
                        report.add_finding(Finding(prop, "mon:chunk-bound", packet_signature(c["pkt"], c["v"], "chunk-exceeds-free"),
                                                   "a service chunk exceeds the buffer space offered", [reqs[ci * 3 + k]]))
                report.count("encode.partial" if len(chunks) > 1 else "encode.single")
        if len(streams) >= 2 and any(s != streams[0] for s in streams):
            mon_chunk_ok = False
            report.add_finding(Finding(prop, "mon:chunk-invariance", packet_signature(c["pkt"], c["v"], "stream-depends-on-capacities"),
                                       "emitted bytes depend on the capacity sequence", reqs[ci * 3: ci * 3 + 3]))
        if streams and not over_limit(c["pkt"]):
            spec_reqs.append(f"spec.decode v={c['v']} b={hexs(streams[0])}")
            spec_reqs.append(f"spec.canon v={c['v']}{c['res']} | {c['pkt']}")
            spec_idx.append(ci)
    spec_out = driver_batch(spec_reqs) if spec_reqs else []
    for j, ci in enumerate(spec_idx):
        c = cases[ci]
        dec, canon = spec_out[2 * j], spec_out[2 * j + 1]
        fd, segs_d = resp_fields(dec)
        fc, segs_c = resp_fields(canon)
        report.traces_validated += 1
        ok = fd.get("n") == "1" and fd.get("left") == "0" and len(segs_d) == 1 and len(segs_c) == 1 \
            and spec_view(segs_d[0]) == spec_view(segs_c[0])
        if not ok:
            mon_spec_ok = False

            def repair(t, c=c):
                return t if in_encode_domain(t, c["v"]) else repair_to_domain(t, c["v"])

            def still_fails(t, c=c):
                t = repair(t)
                r = harness_batch([f"encode v={c['v']}{c['res']} caps=4096 | {t}"])[0]
                f2, _ = resp_fields(r)
                if f2.get("res") != "ok":
                    return False
                by = hexs(b"".join(unhex(x) for x in f2.get("chunks", "x").split(",") if x))
                o = driver_batch([f"spec.decode v={c['v']} b={by}", f"spec.canon v={c['v']}{c['res']} | {t}"])
                a, sa = resp_fields(o[0])
                b, sb = resp_fields(o[1])
                if len(sb) != 1:
                    return False
                return not (a.get("n") == "1" and a.get("left") == "0" and len(sa) == 1 and spec_view(sa[0]) == spec_view(sb[0]))

            small = repair(shrink_packet(c["pkt"], still_fails))
            report.add_finding(Finding(prop, "mon:spec-decode", packet_signature(small, c["v"], "reference-decoder-disagrees"),
                                       "an independent spec decoder does not recover the supplied content from the emitted bytes",
                                       [f"encode v={c['v']}{c['res']} caps=4096 | {small}", "# spec.decode: " + dec[:400], "# expected:    " + canon[:400]]))
    report.sample({"request": reqs[0][:300], "impl": impl[0][:200]})
    report.sample({"request": reqs[len(reqs) // 2][:300], "impl": impl[len(reqs) // 2][:200]})
    report.obligation("corr:encode", "correspondence", corr_ok, f"{len(reqs)} encode requests, byte-exact")
    report.obligation("mon:encode-chunks", "monitor", mon_chunk_ok, "chunk bounds and chunking invariance on implementation output")
    report.obligation("mon:spec-decode", "monitor", mon_spec_ok, f"{len(spec_idx)} packets re-decoded by the reference decoder")


def suite_tables(report, names, prop):
    """complete-domain observation of `TryFrom<u8>` tables vs the model's tables"""
    reqs = [f"table name={n}" for n in names]
    impl = harness_batch(reqs)
    model = driver_batch(reqs)
    for n, a, b in zip(names, impl, model):
        ok = a == b and a.startswith("res=ok")
        report.obligation(f"table:{n}", "table", ok, "256-value domain enumerated" if ok else f"impl {a[:120]} / model {b[:120]}")
        report.exhaustive_tables += 1
        if not ok:
            ea = set(resp_fields(a)[0].get("entries", "").split(","))
            eb = set(resp_fields(b)[0].get("entries", "").split(","))
            diff = sorted(ea ^ eb)
            report.add_finding(Finding(prop, f"table:{n}", {"table": n, "entries": ",".join(diff)},
                                       f"reason-code table {n}: implementation and model differ on {diff}",
                                       [f"table name={n}", "# impl:  " + a, "# model: " + b], has_input=False))



PROP_KIND = {1: "b", 36: "b", 37: "b", 23: "b", 25: "b", 40: "b", 41: "b", 42: "b", 19: "h", 33: "h", 34: "h", 35: "h",
             2: "w", 17: "w", 24: "w", 39: "w", 11: "v", 3: "s", 8: "s", 9: "s", 18: "s", 21: "s", 22: "s", 26: "s", 28: "s", 31: "s", 38: "p"}


def _vli_read(b, i):
    val, mult = 0, 1
    for k in range(4):
        if i + k >= len(b):
            return None, i
        d = b[i + k]
        val += (d & 0x7F) * mult
        mult *= 128
        if d < 0x80:
            return val, i + k + 1
    return None, i


def _vli(n):
    out = bytearray()
    while True:
        d, n = n % 128, n // 128
        out.append(d | (0x80 if n else 0))
        if not n:
            return bytes(out)


def property_mutants(pkt):
    """well-formed MQTT 5 packet -> packets with a doctored property section (fixed header and property length consistent)"""
    first = pkt[0]
    rl, i = _vli_read(pkt, 1)
    if rl is None or i + rl != len(pkt):
        return []
    body = pkt[i:]
    t = first >> 4
    # offset of the property length inside the body
    if t == 2:
        off = 2
    elif t == 3:
        if len(body) < 2:
            return []
        off = 2 + ((body[0] << 8) | body[1]) + (2 if (first >> 1) & 3 else 0)
    elif t in (4, 5, 6, 7):
        off = 3
    elif t in (9, 11):
        off = 2
    elif t in (14, 15):
        off = 1
    else:
        return []
    if off >= len(body):
        return []
    pl, j = _vli_read(body, off)
    if pl is None or j + pl > len(body):
        return []
    props, k, raw = [], j, body[j:j + pl]
    while k < j + pl:
        pid = body[k]
        kind = PROP_KIND.get(pid)
        st = k
        k += 1
        if kind == "b":
            k += 1
        elif kind == "h":
            k += 2
        elif kind == "w":
            k += 4
        elif kind == "v":
            v, k2 = _vli_read(body, k)
            if v is None:
                return []
            k = k2
        elif kind == "s":
            k += 2 + ((body[k] << 8) | body[k + 1]) if k + 1 < len(body) else 99999
        elif kind == "p":
            for _ in range(2):
                k += 2 + ((body[k] << 8) | body[k + 1]) if k + 1 < len(body) else 99999
        else:
            return []
        if k > j + pl:
            return []
        props.append(body[st:k])
    head, tail = body[:off], body[j + pl:]

    def build(plist, pl_delta=0):
        sect = b"".join(plist)
        nb = head + _vli(max(len(sect) + pl_delta, 0)) + sect + tail
        return bytes([first]) + _vli(len(nb)) + nb
    out = []
    for n, p in enumerate(props):
        rest = props[:n] + props[n + 1:]
        out.append(build(props + [p]))                                   # duplicated
        out.append(build(rest + [p[:-1]]))                               # value one byte short (the section ends inside it)
        out.append(build(rest + [p[:1]]))                                # identifier only
        if PROP_KIND[p[0]] in "sp":
            out.append(build(rest + [p[:1] + b"\xff\xff" + p[3:]]))     # length prefix beyond the section
            out.append(build(rest + [p[:1] + b"\x00\x00"] + ([b""] if PROP_KIND[p[0]] == "s" else [])))
        if PROP_KIND[p[0]] == "b":
            out.append(build(rest + [p[:1] + b"\x02"]))                  # a flag that is neither 0 nor 1
    for alien in (1, 2, 3, 8, 9, 11, 17, 18, 19, 21, 22, 23, 24, 25, 26, 28, 31, 33, 34, 35, 36, 37, 38, 39, 40, 41, 42, 0, 4, 127, 128):
        kind = PROP_KIND.get(alien, "b")
        val = {"b": b"\x01", "h": b"\x00\x01", "w": b"\x00\x00\x00\x01", "v": b"\x01", "s": b"\x00\x01a", "p": b"\x00\x01k\x00\x01v"}[kind]
        out.append(build(props + [bytes([alien]) + val]))                 # a property of another packet type (or of none)
    out.append(build(props, 1))
    out.append(build(props, -1))
    return out


def suite_decode(report, tier, seed, prop="C03"):
    """(1) faithfulness: reference-encoded server packets are decoded to exactly their content, for
    every chunking; (2) hostile streams: no panic, same packets and verdict for every chunking;
    (3) harness decode == model decode on all of them."""
    rng = Rng(seed, "decode")
    n_valid = 500 if tier == "quick" else 20000
    n_bad = 500 if tier == "quick" else 20000
    nchunk = 4
    # --- valid packets through the reference encoder
    enc_reqs, metas = [], []
    for i in range(n_valid):
        v = rng.choice([5, 311])
        sp = G.gen_server(rng, v)
        short = 1 if rng.chance(0.5) else 0
        enc_reqs.append(f"spec.encode v={v} short={short} | {sp}")
        metas.append((v, sp))
    enc = driver_batch(enc_reqs)
    streams = []   # (version, max, bytes, expected packets or None, label)
    for (v, sp), e in zip(metas, enc):
        f, segs = resp_fields(e)
        if f.get("res") != "ok" or f.get("valid") != "1":
            report.count("decode.generator-invalid")
            continue
        b = unhex(f["bytes"])
        if len(b) > 268435455:
            continue
        # sometimes several packets back to back
        streams.append((v, 0, b, [segs[0]], sp))
        report.count("decode.valid." + sp.split(" ")[0])
    # concatenations of valid packets
    for i in range(len(streams) // 10):
        a, b2 = rng.choice(streams), rng.choice(streams)
        if a[0] == b2[0] and a[3] and b2[3]:
            streams.append((a[0], 0, a[2] + b2[2], a[3] + b2[3], a[4] + " ++ " + b2[4]))
    # --- hostile streams
    valid_pool = [s for s in streams]
    for i in range(n_bad):
        base = rng.choice(valid_pool) if valid_pool and rng.chance(0.8) else (rng.choice([5, 311]), 0, b"", None, "random")
        data = G.mutate(rng, base[2])
        if rng.chance(0.3):
            data = G.mutate(rng, data)
        mx = rng.choice([0, 0, 0, 2, 5, 16, 128, len(data), max(len(data) - 1, 1), 268435455])
        streams.append((base[0], mx, data, None, "mutated"))
        report.count("decode.hostile")
    # property-section surgery on well-formed MQTT 5 packets: every property duplicated, truncated, given a zero-length or
    # over-long value, replaced by an identifier the packet type does not allow, the property length one off - the error
    # branches of the property decoders, one by one (a source-coverage measurement showed the random mutations rarely get there)
    nprop = 0
    for s in valid_pool:
        if s[0] != 5 or not s[3] or len(s[3]) != 1 or len(s[2]) > 300:
            continue
        for mutant in property_mutants(s[2]):
            if nprop >= (400 if tier == "quick" else 20000):
                break
            streams.append((5, 0, mutant, None, "props"))
            report.count("decode.property-surgery")
            nprop += 1
    # length-field nudges: in a well-formed packet, every two bytes that could be a length prefix (their value fits in what
    # follows) are moved to 1..3 more than their value, and to 1..2 more than what is left of the packet, with the fixed
    # header untouched - the frame stays self-consistent, so the packet decoder itself has to notice
    seen_kinds = {}
    for s in valid_pool:
        k = (s[0], s[4].split(" ")[0])
        if s[3] and len(s[3]) == 1 and 4 <= len(s[2]) <= (120 if tier == "quick" else 400) and seen_kinds.get(k, 0) < (6 if tier == "quick" else 40):
            seen_kinds[k] = seen_kinds.get(k, 0) + 1
            data = s[2]
            hdr = 2
            for i in range(hdr, len(data) - 1):
                val = (data[i] << 8) | data[i + 1]
                rem = len(data) - i - 2
                if val > rem:
                    continue
                for nv in {val + 1, val + 2, val + 3, rem + 1, rem + 2, max(val - 1, 0)} - {val}:
                    if nv <= 0xFFFF:
                        streams.append((s[0], 0, data[:i] + bytes([nv >> 8, nv & 0xFF]) + data[i + 2:], None, "nudged"))
                        report.count("decode.length-nudge")
    # size-limit probes: valid packets under a maximum around their size
    for s in valid_pool[:: max(1, len(valid_pool) // 60)]:
        for mx in (len(s[2]) - 1, len(s[2]), len(s[2]) + 1):
            if mx > 0 and s[3] and len(s[3]) == 1:
                streams.append((s[0], mx, s[2], s[3] if mx >= len(s[2]) else None, "limit"))
                report.count("decode.limit-probe")
    # the same around packets whose length prefix takes 2, 3 and 4 bytes, the limit 0..4 bytes short: every way of
    # splitting the fixed header across reads must give the same rejection
    big = [s for s in valid_pool if len(s[2]) >= 130 and s[3] and len(s[3]) == 1][:12]
    for plen in ([150, 20000] if tier == "quick" else [150, 20000, 2100000]):
        for v in (5, 311):
            body = bytes([0, 1, 0x74]) + (b"\x00" if v == 5 else b"") + b"p" * plen
            rl, n = bytearray(), len(body)
            while True:
                d, n = n % 128, n // 128
                rl.append(d | (0x80 if n else 0))
                if not n:
                    break
            big.append((v, 0, bytes([0x30]) + bytes(rl) + body, None, "publish"))
    limit_chunkings = {}
    for s in big:
        for short in (0, 1, 2, 3, 4):
            mx = len(s[2]) - short
            streams.append((s[0], mx, s[2], None, "limit" if short else "limit-fits"))
            hdr = 1 + (1 if len(s[2]) < 130 else 2 if len(s[2]) < 16386 else 3 if len(s[2]) < 2097156 else 4)
            limit_chunkings[len(streams) - 1] = [[s[2]]] + [[s[2][:c], s[2][c:]] for c in range(1, hdr + 1)] + \
                [[s[2][i:i + 1] for i in range(hdr)] + [s[2][hdr:]]]
            report.count("decode.limit-header-split")
    reqs, owner = [], []
    for si, (v, mx, data, exp, label) in enumerate(streams):
        for parts in limit_chunkings.get(si) or G.chunkings(rng, data, nchunk):
            reqs.append(f"decode v={v} max={mx} chunks={','.join(hexs(p) for p in parts)}")
            owner.append(si)
    impl = harness_batch(reqs)
    model = driver_batch(reqs)
    corr_ok = True
    faithful_ok = True
    robust_ok = True
    by_stream = {}
    for r, a, b, si in zip(reqs, impl, model, owner):
        by_stream.setdefault(si, []).append((r, a))
        if a != b:
            corr_ok = False
            report.add_finding(Finding(prop, "corr:decode", {"clause": "model-vs-impl", "impl": a.split(" ")[0], "model": b.split(" ")[0],
                                                             "first": r.split("chunks=")[1][:3]},
                                       "decode: implementation and model disagree", [r, "# impl:  " + a[:300], "# model: " + b[:300]], has_input=False))
    for si, lst in by_stream.items():
        v, mx, data, exp, label = streams[si]
        report.case(f"{v}|{mx}|{data.hex()}")
        report.traces_validated += 1
        outs = [a for _, a in lst]
        for r, a in lst:
            if a.startswith("res=panic") or a.startswith("res=died") or "recovered-after-error" in a:
                robust_ok = False
                report.add_finding(Finding(prop, "mon:decode-no-panic", {"clause": "panic", "first": hexs(data[:1])},
                                           "decoder panicked or recovered after a terminal error", [r, "# impl: " + a[:300]]))
        if any(o != outs[0] for o in outs):
            robust_ok = False
            report.add_finding(Finding(prop, "mon:decode-chunk-invariance", {"clause": "chunking-dependent", "first": hexs(data[:1])},
                                       "decoded packets or verdict depend on how the stream is split into reads",
                                       [r for r, _ in lst] + ["# impl: " + o[:200] for o in outs]))
        if exp is not None:
            f, segs = resp_fields(outs[0])
            if f.get("res") != "ok" or segs != exp:
                faithful_ok = False
                report.add_finding(Finding(prop, "mon:decode-faithful", {"clause": "content", "packet": label.split(" ")[0], "version": v,
                                                                         "detail": faithful_detail(label, segs, exp)},
                                           "a well-formed server packet is not decoded to its content",
                                           [lst[0][0], "# spec packet: " + label[:300], "# impl:     " + outs[0][:300], "# expected: " + " | ".join(exp)[:300]]))
        elif label == "limit-fits":
            f, segs = resp_fields(outs[0])
            if f.get("res") != "ok" or len(segs) != 1:
                robust_ok = False
                report.add_finding(Finding(prop, "mon:decode-size-limit", {"clause": "fitting-rejected"},
                                           "a packet exactly as large as the maximum packet size was not delivered", [lst[0][0], "# impl: " + outs[0][:200]]))
        elif label == "limit":
            f, _ = resp_fields(outs[0])
            bad = [(r, o) for r, o in lst if not resp_fields(o)[0].get("res", "").startswith("err")]
            if bad:
                robust_ok = False
                report.add_finding(Finding(prop, "mon:decode-size-limit", {"clause": "oversize-accepted"},
                                           "a packet larger than the maximum packet size was accepted", [bad[0][0], "# impl: " + bad[0][1][:200]]))
            elif not f.get("res", "").startswith("err"):
                robust_ok = False
                report.add_finding(Finding(prop, "mon:decode-size-limit", {"clause": "oversize-accepted"},
                                           "a packet larger than the maximum packet size was accepted", [lst[0][0], "# impl: " + outs[0][:200]]))
        report.count("decode.verdict." + resp_fields(outs[0])[0].get("res", "?").split(":")[0])
    report.sample({"request": reqs[0][:300], "impl": impl[0][:300]})
    report.sample({"request": reqs[-1][:300], "impl": impl[-1][:300]})
    report.obligation("corr:decode", "correspondence", corr_ok, f"{len(reqs)} decode requests ({nchunk} chunkings per stream)")
    report.obligation("mon:decode-faithful", "monitor", faithful_ok, "reference-encoded server packets decoded to their content")
    report.obligation("mon:decode-robust", "monitor", robust_ok, "no panic, chunking-invariant verdict, size limit enforced")


def faithful_detail(label, got, exp):
    """which reason code / field differs (stable part of a known-finding signature)"""
    kind, kv = parse_kv(label.split(" ++ ")[0])
    rcs = sorted({v for k, v in kv if k == "rc"})
    return f"{kind} rc={','.join(rcs)}" if rcs else kind


def suite_size_limit_headers(report, prop="C03"):
    """the size check at header time, at the top of the range: a fixed header announcing a packet of up to the protocol's
    maximum (remaining length 268,435,455, i.e. 268,435,460 bytes in all) is legal when no smaller maximum is in force, and
    is refused exactly when the announced total exceeds the maximum in force.  Only the five header bytes are fed."""
    def vli(n):
        out = []
        while True:
            b = n % 128
            n //= 128
            out.append(b | (0x80 if n else 0))
            if not n:
                return bytes(out)
    reqs, metas = [], []
    for v in (5, 311):
        for rl in (127, 128, 16383, 16384, 2097151, 2097152, 268435449, 268435450, 268435451, 268435455):
            for mx in (0, 200, 16389, 2097157, 268435455, 268435456, 268435459, 268435460):
                hdr = bytes([0x30]) + vli(rl)
                reqs.append(f"decode v={v} max={mx} chunks={hexs(hdr)}")
                metas.append((rl, mx, len(hdr)))
    # the same inside the engine, where the maximum in force comes from the connect options (none given: no limit)
    eng = ["session.reset", "eng.new v=5 policy=all | ka=0 cid=x63", "eng.open t=0 deadline=30000", "eng.svc t=0 cap=4096 prefill=0", "eng.wc t=0",
           "eng.data t=0 b=x2003000000", "eng.data t=1 b=x30ffffff7f"]
    impl = harness_batch(reqs + eng)
    model = driver_batch(reqs + eng)
    corr_ok, mon_ok = True, True
    for r, (rl, mx, hl), a, b in zip(reqs, metas, impl, model):
        report.case(r)
        report.traces_validated += 1
        if a != b:
            corr_ok = False
            report.add_finding(Finding(prop, "corr:size-limit", {"clause": "model-vs-impl", "verb": "decode"}, "size check at header time: implementation and model disagree",
                                       [r, "# impl:  " + a, "# model: " + b], has_input=False))
        total = hl + rl
        want_err = mx != 0 and total > mx
        got_err = a.startswith("res=err")
        if want_err != got_err:
            mon_ok = False
            report.add_finding(Finding(prop, "mon:size-limit", {"clause": "legal-size-refused" if got_err else "oversize-accepted"},
                                       f"a fixed header announcing a {total}-byte packet with " + ("no maximum" if mx == 0 else f"maximum packet size {mx}") +
                                       f" in force is {'refused' if got_err else 'accepted'}", [r, "# impl: " + a]))
    a, b = impl[-1], model[-1]
    report.case("|".join(eng))
    from suites_engine import canon
    if canon(a) != canon(b):
        corr_ok = False
        report.add_finding(Finding(prop, "corr:size-limit", {"clause": "model-vs-impl", "verb": "eng.data"}, "size check inside the engine: implementation and model disagree",
                                   eng + ["# impl:  " + a[:200], "# model: " + b[:200]], has_input=False))
    if a.startswith("res=err"):
        mon_ok = False
        report.add_finding(Finding(prop, "mon:size-limit", {"clause": "legal-size-refused", "verb": "eng.data"},
                                   "the client set no maximum packet size, the server starts a PUBLISH of the protocol's maximum size (remaining length 268435455): refused with " + a.split(" ")[0], eng + ["# impl: " + a[:200]]))
    report.obligation("corr:size-limit", "correspondence", corr_ok, f"{len(reqs) + 1} headers at the boundaries of the length encoding and of the maximum in force")
    report.obligation("mon:size-limit", "monitor", mon_ok, "refused exactly when the announced total exceeds the maximum in force (none = the protocol's 268,435,460)")


def suite_engine_inbound_size(report, prop="C03"):
    """which maximum packet size is in force for inbound packets inside the engine: the configured one under MQTT 5 (the
    CONNECT announces it), none under MQTT 3.1.1 (its CONNECT cannot announce one, so a server that sends a larger packet
    follows the protocol and must not be reported as violating it).  A complete QoS 0 PUBLISH of 100 bytes, limit 64."""
    from suites_engine import canon
    body = bytes([0x00, 0x03]) + b"t/1"
    scripts = []
    for v in ("5", "311"):
        connack = "x20020000" if v == "311" else "x2003000000"
        for mps in (None, 64, 100, 99):
            payload = bytes(100 - 2 - len(body) - (1 if v == "5" else 0))
            pkt = bytes([0x30, 100 - 2]) + body + (b"\x00" if v == "5" else b"") + payload
            assert len(pkt) == 100
            opts = "ka=0 cid=x63" + (f" mps={mps}" if mps is not None else "")
            sc = ["session.reset", f"eng.new v={v} policy=all | {opts}", "eng.open t=0 deadline=30000", "eng.svc t=0 cap=4096 prefill=0", "eng.wc t=0",
                  f"eng.data t=0 b={connack}", f"eng.data t=1 b={hexs(pkt)}"]
            in_force = mps if (v == "5" and mps is not None) else None
            scripts.append((sc, v, mps, in_force is not None and 100 > in_force))
    reqs = [l for sc, _, _, _ in scripts for l in sc]
    impl = harness_batch(reqs)
    model = driver_batch(reqs)
    corr_ok, mon_ok, pos = True, True, 0
    for sc, v, mps, want_err in scripts:
        a, b = impl[pos + len(sc) - 1], model[pos + len(sc) - 1]
        for i in range(len(sc)):
            if canon(impl[pos + i]) != canon(model[pos + i]):
                corr_ok = False
                report.add_finding(Finding(prop, "corr:inbound-size-in-force", {"clause": "model-vs-impl", "verb": sc[i].split(" ")[0]},
                                           "inbound size limit inside the engine: implementation and model disagree",
                                           sc[:i + 1] + ["# impl:  " + impl[pos + i][:200], "# model: " + model[pos + i][:200]], has_input=False))
                break
        pos += len(sc)
        report.case("|".join(sc))
        report.traces_validated += 1
        got_err = a.startswith("res=err")
        report.count(f"inbound-size.v{v}." + ("refused" if got_err else "accepted"))
        if got_err != want_err:
            mon_ok = False
            what = (f"MQTT {'3.1.1' if v == '311' else '5'}, configured maximum packet size {mps}: a legal 100-byte PUBLISH from the server is " +
                    ("refused with " + a.split(" ")[0] + (" although a 3.1.1 CONNECT cannot announce a maximum (the server follows the protocol)" if v == "311" else "")
                     if got_err else "accepted although it exceeds the maximum the CONNECT announced"))
            report.add_finding(Finding(prop, "mon:inbound-size-in-force", {"clause": "legal-size-refused" if got_err else "oversize-accepted", "version": v},
                                       what, sc + ["# impl: " + a[:200]]))
    report.obligation("corr:inbound-size-in-force", "correspondence", corr_ok, f"{len(scripts)} scripted connections (2 versions x configured maximum none / below / at / just below the packet)")
    report.obligation("mon:inbound-size-in-force", "monitor", mon_ok, "the configured maximum is enforced on inbound packets exactly where the CONNECT can announce it (MQTT 5)")
