"""C13: the network drivers.  (1) the websocket read adapter: real `WebsocketStreamWrapper` over a scripted socket vs the
model (Model/Driver.lean `WsReader`); (2) byte fidelity: the real tokio and threaded clients over a scripted in-memory
transport (partial writes, stalls, read fragmentation) vs the byte stream the engine model predicts, with the write loop's
accounting replayed by the model (`WriteLoop`); (3) result delivery: every submitted operation resolves exactly once, also
around stop/close."""
from gv import harness_batch_parallel, Rng, Finding, harness_batch, driver_batch, resp_fields, hexs, unhex


def gen_ws_case(rng):
    frames, payloads = [], []
    n = rng.choice([1, 2, 3, 5, 8])
    for i in range(n):
        r = rng.random()
        size = rng.choice([0, 1, 2, 5, 17, 125, 126, 127, 300, 4095, 4096, 4097, 9000]) if rng.chance(0.9) else rng.choice([65535, 65536, 70000])
        if r < 0.12:
            frames.append("p" + (hexs(bytes(rng.randint(0, 255) for _ in range(rng.choice([0, 3])))) if rng.chance(0.5) else ""))
        elif r < 0.25:
            p = bytes(rng.choice(b"abcxyz019/") for _ in range(min(size, 300)))
            frames.append("t" + hexs(p))       # a text message: not part of the MQTT byte stream (binary messages only)
        else:
            p = bytes((i * 37 + j) & 0xFF for j in range(size))
            frames.append("b" + hexs(p))
            payloads.append(p)
    if rng.chance(0.15):
        frames.append("c")
    # a failure of the websocket: a malformed frame in the middle (reported once, the stream goes on) or the end of the stream
    if rng.chance(0.35):
        if rng.chance(0.5) and "c" not in frames:
            k = rng.randint(0, len(frames))
            frames.insert(k, "xx8300")
        else:
            frames.append("e")
    total = sum(len(p) for p in payloads)
    calls = []
    bufs = rng.choice([[4096], [4096], [1, 2, 3], [7, 64], [1], [4096, 100], [3, 4096, 1]])
    for i in range(rng.choice([4, 8, 16])):
        avail = rng.choice([0, 0, 1, 2, 3, 7, 130, 4100, 10 ** 6])
        calls.append(f"{rng.choice(bufs)}@{avail}")
    # then everything arrives and is drained with the production buffer size
    calls.append("4096@100000000")
    for i in range(total // 4096 + 3):
        calls.append("4096@0")
    return f"ws.read frames={','.join(frames)} calls={','.join(calls)}", payloads


def gen_ws_write_case(rng):
    """chunks the engine hands to the stream (one service batch each) and how the socket under the websocket takes writes"""
    nchunks = rng.choice([1, 1, 2, 3, 6])
    chunks = []
    for _ in range(nchunks):
        ln = rng.choice([1, 2, 5, 31, 125, 126, 127, 300, 4096])
        chunks.append(bytes(rng.randint(0, 255) for _ in range(ln)))
    plan = []
    for _ in range(rng.choice([0, 1, 2, 4, 8, 16])):
        c = rng.random()
        if c < 0.45:
            plan.append(f"a{rng.choice([1, 2, 3, 5, 6, 7, 10, 64, 130, 5000])}")
        elif c < 0.80:
            plan.append("b")
        elif c < 0.93:
            plan.append("i")
        else:
            plan.append("e")
    return "ws.write chunks=" + ",".join(hexs(c) for c in chunks) + (" wplan=" + ",".join(plan) if plan else ""), chunks


def suite_ws_write(report, tier, seed, prop="C13"):
    """the write side of the websocket adapter: whatever the socket does (partial writes, would-block, failure) the server
    decodes exactly the chunks the adapter reported as taken, once, in order"""
    rng = Rng(seed, "ws-write")
    n = 200 if tier == "quick" else 8000
    cases = [gen_ws_write_case(rng) for _ in range(n)]
    # regression corpus: a socket that takes part of the frame and then would block (the bytes used to be sent twice)
    cases = [("ws.write chunks=x0102030405060708 wplan=a5,b", [bytes(range(1, 9))]),
             ("ws.write chunks=x0102030405060708,x090a wplan=b,b,a3,b,a100", [bytes(range(1, 9)), bytes([9, 10])]),
             ("ws.write chunks=x0102030405060708 wplan=a5,i,a100", [bytes(range(1, 9))])] + cases
    reqs = [c[0] for c in cases]
    impl = harness_batch(reqs)
    model = driver_batch(reqs)
    corr_ok, mon_ok = True, True
    for (req, chunks), a, b in zip(cases, impl, model):
        report.case(req)
        report.traces_validated += 1
        if a != b:
            corr_ok = False
            report.add_finding(Finding(prop, "corr:ws-write", {"clause": "model-vs-impl", "verb": "ws.write"}, "websocket write adapter: implementation and model disagree",
                                       [req, "# impl:  " + a[:400], "# model: " + b[:400]], has_input=False))
        fa, _ = resp_fields(a)
        if fa.get("res") != "ok":
            mon_ok = False
            report.add_finding(Finding(prop, "mon:ws-write", {"clause": "panic" if "panic" in fa.get("res", "") else "failed"}, "websocket write adapter failed: " + a[:120], [req]))
            continue
        calls = [c for c in fa.get("calls", "").split(",") if c]
        # what the adapter told its caller it had taken, chunk by chunk (the caller offers the remainder of a chunk again
        # after a would-block and moves on after Ok(n))
        taken = b""
        ci, off = 0, 0
        failed = False
        for c in calls:
            kind, res = c.split(":")
            report.count(f"ws-write.{kind}.{'n' if res.isdigit() else res}")
            if kind == "w" and res.isdigit():
                k = int(res)
                taken += chunks[ci][off:off + k]
                off += k
                if off >= len(chunks[ci]):
                    ci, off = ci + 1, 0
            elif res == "e" or res.startswith("overrun") :
                failed = True
        got = unhex(fa.get("payload", "x"))
        flushed = bool(calls) and calls[-1] == "f:ok"
        bad = None
        if not taken.startswith(got):
            k = next((i for i in range(min(len(got), len(taken))) if got[i] != taken[i]), min(len(got), len(taken)))
            bad = ("duplicated-or-reordered", f"the server decodes {len(got)} payload bytes, the adapter reported {len(taken)} bytes as written; they differ at offset {k} "
                                              f"(server {got[max(0, k - 4):k + 8].hex()}, written {taken[max(0, k - 4):k + 8].hex()})")
        elif flushed and got != taken:
            bad = ("lost", f"after a successful flush the server has decoded {len(got)} of the {len(taken)} bytes the adapter reported as written")
        elif not failed and not flushed and len(calls) < 64:
            bad = ("stuck", "the write loop ended without a successful flush although the socket did not fail")
        if bad:
            mon_ok = False
            report.add_finding(Finding(prop, "mon:ws-write", {"clause": bad[0]}, "websocket write adapter: " + bad[1], [req, "# impl: " + a[:400]]))
    report.obligation("corr:ws-write", "correspondence", corr_ok, f"{len(reqs)} scripted write sessions through the real WebsocketStreamWrapper over a socket with partial writes, would-block and failures")
    report.obligation("mon:ws-write", "monitor", mon_ok, "payload a server decodes = the bytes the adapter reported as written: a prefix at any time, all of them after a successful flush, never twice")


def suite_ws(report, tier, seed, prop="C13"):
    rng = Rng(seed, "ws")
    n = 150 if tier == "quick" else 6000
    cases = [gen_ws_case(rng) for _ in range(n)]
    # regression corpus: the shapes that mis-assembled before the cursor fix
    cases = [("ws.read frames=bx0102030405 calls=3@100,3@0,3@0", [bytes([1, 2, 3, 4, 5])]),
             ("ws.read frames=bx0102030405,bx0607,bx08090a calls=4096@100,4096@0", [bytes([1, 2, 3, 4, 5]), bytes([6, 7]), bytes([8, 9, 10])])] + cases
    reqs = [c[0] for c in cases]
    impl = harness_batch(reqs)
    model = driver_batch(reqs)
    corr_ok, mon_ok = True, True
    for (req, payloads), a, b in zip(cases, impl, model):
        report.case(req)
        report.traces_validated += 1
        if a != b:
            corr_ok = False
            report.add_finding(Finding(prop, "corr:ws", {"clause": "model-vs-impl", "verb": "ws.read"}, "websocket read adapter: implementation and model disagree",
                                       [req, "# impl:  " + a[:400], "# model: " + b[:400]], has_input=False))
        fa, _ = resp_fields(a)
        if fa.get("res") != "ok":
            mon_ok = False
            report.add_finding(Finding(prop, "mon:ws", {"clause": "panic" if "panic" in fa.get("res", "") else "failed"}, "websocket read adapter failed: " + a[:120], [req]))
            continue
        want = b"".join(payloads)
        got = b""
        calls = req.split("calls=")[1].split(",")
        bad = None
        # failure points of the framed stream: the payload bytes that precede each of them
        specs = [x for x in req.split("frames=")[1].split(" ")[0].split(",") if x]
        before, fails = 0, []
        for sp in specs:
            if sp[0] == "b":
                before += len(unhex(sp[1:])) if len(sp) > 1 else 0
            elif sp[0] == "x":
                fails.append(("once", before))
            elif sp[0] == "e":
                fails.append(("eof", before))
        nerr = 0
        for call, r in zip(calls, fa.get("reads", "").split(",")):
            buf = int(call.split("@")[0])
            if r.startswith("ok:"):
                chunk = unhex(r[3:])
                if not (1 <= len(chunk) <= buf):
                    bad = ("read-size", f"a read into a {buf}-byte buffer returned {len(chunk)} bytes")
                got += chunk
            elif r == "wouldblock":
                report.count("ws.wouldblock")
            elif r == "err" and fails:
                report.count("ws.err")
                kind, need = fails[min(nerr, len(fails) - 1)]
                if nerr < len(fails) - 1 or (kind == "once" and nerr == len(fails) - 1) or (kind == "eof" and nerr >= len(fails) - 1):
                    pass
                if len(got) < need:
                    bad = ("bytes-lost-to-failure", f"the failure of the websocket was reported after {len(got)} payload bytes although {need} bytes of "
                                                    f"messages had arrived before it: they were dropped in favour of the error")
                if kind == "once":
                    nerr += 1
            else:
                bad = ("read-error", f"a read returned {r[:40]}")
            if bad:
                break
        if bad is None and got != want[:len(got)]:
            k = next(i for i in range(len(got)) if i >= len(want) or got[i] != want[i])
            bad = ("stream-corrupted", f"the bytes handed to the engine differ from the concatenated message payloads at offset {k} "
                                       f"(got {got[max(0, k - 2):k + 6].hex()}, payloads have {want[max(0, k - 2):k + 6].hex()})")
        if bad is None and got != want:
            bad = ("stream-truncated", f"{len(want) - len(got)} payload bytes were never delivered although every frame arrived and reads continued")
        if bad:
            mon_ok = False
            report.add_finding(Finding(prop, "mon:ws", {"clause": bad[0]}, bad[1], [req, "# impl: " + a[:300]]))
        report.count("ws.frames", len(req.split("frames=")[1].split(" ")[0].split(",")))
    report.obligation("corr:ws", "correspondence", corr_ok, f"{len(reqs)} scripted websocket sessions through the real WebsocketStreamWrapper (tungstenite client role, server frames)")
    report.obligation("mon:ws", "monitor", mon_ok, "bytes delivered = concatenation of binary/text payloads, each read 1..buffer bytes, nothing lost once all frames arrived")


def gen_ws_aread_case(rng):
    """the tokio client's adapter: binary messages of any size - none at all included -, text, ping, a close message or a
    failure (malformed frame / end of the socket) at the end"""
    frames, payloads = [], []
    n = rng.choice([1, 2, 3, 5, 8])
    for i in range(n):
        r = rng.random()
        size = rng.choice([0, 0, 1, 2, 5, 17, 125, 126, 127, 300, 4095, 4096, 4097, 9000]) if rng.chance(0.9) else rng.choice([65535, 65536, 70000])
        if r < 0.12:
            frames.append("p" + (hexs(bytes(rng.randint(0, 255) for _ in range(rng.choice([0, 3])))) if rng.chance(0.5) else ""))
        elif r < 0.22:
            frames.append("t" + hexs(bytes(rng.choice(b"abcxyz019/") for _ in range(min(size, 300)))))
        else:
            p = bytes((i * 37 + j) & 0xFF for j in range(size))
            frames.append("b" + hexs(p))
            payloads.append(p)
    end = rng.random()
    if end < 0.2:
        frames.append("c")
    elif end < 0.3:
        frames.append("xx8300")
    elif end < 0.4:
        frames.append("e")
    total = sum(len(p) for p in payloads)
    calls = []
    bufs = rng.choice([[4096], [4096], [1, 2, 3], [7, 64], [1], [4096, 100], [3, 4096, 1]])
    for i in range(rng.choice([4, 8, 16])):
        calls.append(f"{rng.choice(bufs)}@{rng.choice([0, 0, 1, 2, 3, 7, 130, 4100, 10 ** 6])}")
    calls.append("4096@100000000")
    for i in range(total // 4096 + len(frames) + 3):
        calls.append("4096@0")
    return f"ws.aread frames={','.join(frames)} calls={','.join(calls)}", payloads


def suite_ws_aread(report, tier, seed, prop="C13"):
    """the byte stream the tokio client reads over a websocket (`TokioWsStream`, the type the client is built on) vs the model
    (`awsRead`), and judged on its own: bytes = concatenation of the binary payloads, a zero-byte read (end of stream to the
    client's loop) only once the server's close message or the end of the socket has been reached"""
    rng = Rng(seed, "ws-aread")
    n = 150 if tier == "quick" else 6000
    cases = [("ws.aread frames=bx2002,b,bx3000 calls=16@100,16@0,16@0,16@0", [bytes([0x20, 2]), b"", bytes([0x30, 0])]),
             ("ws.aread frames=b,b,bx01,c calls=4@100,4@0,4@0", [b"", b"", bytes([1])])] + [gen_ws_aread_case(rng) for _ in range(n)]
    reqs = [c[0] for c in cases]
    impl = harness_batch(reqs)
    model = driver_batch(reqs)
    corr_ok, mon_ok = True, True
    for (req, payloads), a, b in zip(cases, impl, model):
        report.case(req)
        report.traces_validated += 1
        fa, _ = resp_fields(a)
        fb, _ = resp_fields(b)
        ra, rb = fa.get("reads", "").split(","), fb.get("reads", "").split(",")
        # after the first failure the message stream has ended for good; how later polls fare is tungstenite's business
        cut = next((i + 1 for i, x in enumerate(ra) if x == "err"), len(ra))
        if fa.get("res") != fb.get("res") or ra[:cut] != rb[:cut]:
            corr_ok = False
            report.add_finding(Finding(prop, "corr:ws-aread", {"clause": "model-vs-impl", "verb": "ws.aread"}, "tokio websocket read adapter: implementation and model disagree",
                                       [req, "# impl:  " + a[:400], "# model: " + b[:400]], has_input=False))
        if fa.get("res") != "ok":
            mon_ok = False
            report.add_finding(Finding(prop, "mon:ws-aread", {"clause": "panic" if "panic" in fa.get("res", "") else "failed"}, "tokio websocket read adapter failed: " + a[:120], [req]))
            continue
        specs = [x for x in req.split("frames=")[1].split(" ")[0].split(",") if x]
        ends = specs and specs[-1][0] in "cxe"
        want = b"".join(payloads)
        got, bad = b"", None
        calls = req.split("calls=")[1].split(",")
        for call, r in zip(calls, ra[:cut]):
            buf = int(call.split("@")[0])
            if r.startswith("ok:"):
                chunk = unhex(r[3:])
                if not (1 <= len(chunk) <= buf):
                    bad = ("read-size", f"a read into a {buf}-byte buffer returned {len(chunk)} bytes")
                got += chunk
            elif r == "pending":
                report.count("ws-aread.pending")
            elif r == "eof":
                report.count("ws-aread.eof")
                if not ends or got != want:
                    bad = ("end-of-stream-invented", f"a read completed with zero bytes - the end of the stream to the client's loop - after {len(got)} of {len(want)} payload bytes, "
                                                     + ("before the server's close message / the end of the socket had been reached" if ends else "although the server neither closed nor failed"))
            elif r == "err":
                report.count("ws-aread.err")
                if not ends or specs[-1][0] == "c":
                    bad = ("read-error", "a read failed although the socket did not")
                elif got != want:
                    bad = ("bytes-lost-to-failure", f"the failure was reported after {len(got)} payload bytes although {len(want)} had arrived before it")
            else:
                bad = ("read-error", f"a read returned {r[:40]}")
            if bad:
                break
        if bad is None and got != want[:len(got)]:
            bad = ("stream-corrupted", "the bytes handed to the engine differ from the concatenated binary payloads")
        if bad is None and got != want:
            bad = ("stream-truncated", f"{len(want) - len(got)} payload bytes were never delivered although every frame arrived and reads continued")
        if bad:
            mon_ok = False
            report.add_finding(Finding(prop, "mon:ws-aread", {"clause": bad[0]}, bad[1], [req, "# impl: " + a[:300]]))
        report.count("ws-aread.frames", len(specs))
        report.count("ws-aread.empty-binary", sum(1 for x in specs if x == "b"))
    report.obligation("corr:ws-aread", "correspondence", corr_ok, f"{len(reqs)} scripted websocket sessions through the tokio client's TokioWsStream (client role, server frames, one poll_read per call)")
    report.obligation("mon:ws-aread", "monitor", mon_ok, "bytes delivered = concatenation of the binary payloads (empty ones included), each read 1..buffer bytes, a zero-byte read only at the server's close / the end of the socket")


def suite_ws_request(report, prop="C11"):
    """the websocket upgrade request built from the configured endpoint, before the transport is even opened: an endpoint the
    builders accept must give a request or an error that fails the attempt - never a panic inside the client's task"""
    eps = [b"localhost", b"localhost:1883", b"127.0.0.1", b"127.0.0.1:80", b"[::1]", b"[::1]:443", b"example.com", b"a.b-c.example:65535",
           b"::1", b"fe80::1%eth0", b"local host", b"", b" ", b"a/b", b"a?b", b"a#b", b"user@host", b"user:pw@host:1", b"host:", b"host:port", b":80",
           b"[::1", b"::1]", b"[]", b"a\tb", b"a%20b", b"%", "h\u00f6st".encode(), "\u2603".encode(), b"x" * 300, b"a..b", b"-", b"_", b"a\\b", b"a\"b", b"<>", b"{}", b"|", b"^", b"`"]
    reqs = [f"cfg.wsrequest endpoint={hexs(e)}" for e in eps]
    impl = harness_batch(reqs)
    # the model is given what the URI parser said (uriok, host)
    mreqs = []
    for a in impl:
        fa, _ = resp_fields(a)
        mreqs.append(f"cfg.wsrequest uriok={fa.get('uriok', '0')} host={fa.get('host', '-')}")
    model = driver_batch(mreqs)
    corr_ok, mon_ok = True, True
    import re
    plain = re.compile(rb"^[A-Za-z0-9]([A-Za-z0-9.-]*[A-Za-z0-9])?(:[0-9]{1,5})?$")
    for e, req, a, b in zip(eps, reqs, impl, model):
        report.case(req)
        report.traces_validated += 1
        fa, _ = resp_fields(a)
        fb, _ = resp_fields(b)
        report.count("ws-request." + fa.get("res", "?").split(":")[0])
        if fa.get("res", "").startswith("panic"):
            mon_ok = False
            report.add_finding(Finding(prop, "mon:ws-request", {"clause": "panic", "verb": "cfg.wsrequest"},
                                       f"building the websocket upgrade request for the endpoint {e!r} panics (inside the client's own task: the event loop dies with it): " + a[:160], [req, "# impl: " + a[:200]]))
            corr_ok = False
            report.add_finding(Finding(prop, "corr:ws-request", {"clause": "model-vs-impl", "verb": "cfg.wsrequest"}, "upgrade request: the implementation panics where the model reports an error",
                                       [req, "# impl:  " + a[:200], "# model: " + b[:200]], has_input=False))
            continue
        if (fa.get("res"), fa.get("hosthdr")) != (fb.get("res"), fb.get("hosthdr")):
            corr_ok = False
            report.add_finding(Finding(prop, "corr:ws-request", {"clause": "model-vs-impl", "verb": "cfg.wsrequest"}, "upgrade request: implementation and model disagree",
                                       [req, "# impl:  " + a[:200], "# model: " + b[:200]], has_input=False))
        # independent: a plain host name / IPv4 address with an optional port must give a request whose Host header is that host
        if plain.match(e):
            host = e.split(b":")[0]
            if fa.get("res") != "ok" or fa.get("hosthdr") != hexs(host):
                mon_ok = False
                report.add_finding(Finding(prop, "mon:ws-request", {"clause": "plain-endpoint-refused", "verb": "cfg.wsrequest"},
                                           f"the endpoint {e!r} is a plain host[:port]; expected a request with Host {host!r}, got {a[:120]}", [req, "# impl: " + a[:200]]))
    report.obligation("corr:ws-request", "correspondence", corr_ok, f"{len(reqs)} endpoint strings (host names, IPv4/IPv6 literals with and without brackets, spaces, delimiters, non-ASCII, empty)")
    report.obligation("mon:ws-request", "monitor", mon_ok, "a request or an error, never a panic; plain host[:port] endpoints give a request with that Host header")


# ------------------------------------------------------------------------------------------------

def op_text(kind, a, tag, size):
    if kind in ("pub", "pubcb"):
        payload = bytes([tag >> 8, tag & 0xFF]) + b"\x70" * size
        return f"eng.pub t=0 | publish pid=0 topic={hexs(b't/x')} qos={a} retain=0 payload={hexs(payload)}"
    if kind == "sub":
        return f"eng.sub t=0 | subscribe pid=0 sub={hexs(b'f/%d' % tag)}:1:0:0:0"
    return f"eng.unsub t=0 | unsubscribe pid=0 tf={hexs(b'f/%d' % tag)}"


def expected_stream(v, ops):
    """the byte stream the engine model produces for CONNECT + these operations in submission order"""
    connack = "x2003000000" if v == 5 else "x20020000"
    reqs = ["session.reset", f"eng.new v={v} policy=all | cid={hexs(b'drv')} rejoin=post"]
    reqs += [op_text(*o) for o in ops]
    reqs += ["eng.open t=0 deadline=30000", "eng.svc t=0 cap=100000000 prefill=0", "eng.wc t=0", f"eng.data t=0 b={connack}", "eng.svc t=0 cap=100000000 prefill=0"]
    return reqs


def gen_fidelity(rng, i):
    kind = "tokio" if i % 2 == 0 else "threaded"
    v = rng.choice([5, 311])
    ops, steps = [], []

    def add_op():
        k = rng.choice(["pub", "pub", "pub", "sub", "unsub"] + (["pubcb"] if kind == "threaded" else []))
        a = rng.choice([0, 1, 1]) if k in ("pub", "pubcb") else 1
        size = rng.choice([0, 3, 40, 300, 5000]) if k in ("pub", "pubcb") else 0
        tag = len(ops)
        ops.append((k, a, tag, size))
        steps.append(f"{k}:{a}:{size}" if k in ("pub", "pubcb") else k)

    for _ in range(rng.choice([0, 1, 3, 6])):
        add_op()
    steps.append("start")
    no_stall = False
    wplan = []
    nblocks = rng.choice([0, 1, 1, 2, 3])
    for b in range(nblocks):
        # keep the accepted total below what is pending so that the stall is actually reached
        for _ in range(rng.choice([1, 1, 2])):
            wplan.append(f"a{rng.choice([1, 1, 2, 3, 4])}")
        wplan.append("b")
        steps.append("waitblocked")
        for _ in range(rng.choice([0, 1, 1, 2]) if b == nblocks - 1 else rng.choice([1, 2])):
            add_op()
        if rng.chance(0.5):
            steps.append(f"sleep:{rng.choice([1, 5, 20])}")
        steps.append("release")
    for _ in range(rng.choice([0, 2, 6])):
        wplan.append(f"a{rng.choice([1, 2, 3, 9, 64])}")
    rplan = []
    for _ in range(rng.choice([0, 3, 8])):
        rplan.append(rng.choice(["f1", "f1", "f2", "f3", "b", "f100"]))
    if nblocks == 0:
        steps.append("waitwire:1")      # the CONNECT has reached the broker before anything else is judged
    for _ in range(rng.choice([0, 1, 3])):
        add_op()
    steps.append(f"waitwire:{1 + len(ops)}")
    steps.append("waitdone:4000")
    head = f"drv.run kind={kind} v={v}" + (f" wplan={','.join(wplan)}" if wplan else "") + (f" rplan={','.join(rplan)}" if rplan else "")
    if kind == "threaded" and rng.chance(0.4):
        # a buffering transport (TLS, websocket) over a non-blocking socket: flush reports would-block a few times
        head += " fplan=" + ",".join(["b"] * rng.choice([1, 2, 5]))
    return head + " | " + ";".join(steps), v, ops, kind


def replay_write_loop(wlog):
    """reconstruct service / accepted / stalled events from the transport's call log; returns (events, problem)"""
    events = []
    remaining = b""
    for entry in wlog:
        off, res = entry.rsplit(":", 1)
        offered = unhex(off)
        if offered[:len(remaining)] != remaining:
            return events, f"the slice offered to the transport ({offered[:12].hex()}.., {len(offered)} bytes) is not the unsent remainder ({remaining[:12].hex()}.., {len(remaining)} bytes)"
        if len(offered) > len(remaining):
            events.append("s" + hexs(offered[len(remaining):]))
            remaining = offered
        if res == "b":
            events.append("x")
        elif res == "e":
            break
        else:
            n = int(res)
            events.append(f"a{n}")
            remaining = remaining[n:]
    return events, None


def suite_fidelity(report, tier, seed, prop="C13"):
    rng = Rng(seed, "fidelity")
    n = 24 if tier == "quick" else 600
    cases = [gen_fidelity(rng, i) for i in range(n)]
    # regression corpus: partial write, stall, another event source fires while the write is pending
    cases = [("drv.run kind=tokio v=5 wplan=a5,b | start;waitblocked;pub:1:0;sleep:20;release;waitdone:4000", 5, [("pub", 1, 0, 0)], "tokio"),
             ("drv.run kind=threaded v=5 wplan=a5,b | start;waitblocked;pub:1:0;sleep:20;release;waitdone:4000", 5, [("pub", 1, 0, 0)], "threaded"),
             ("drv.run kind=threaded v=5 fplan=b,b | start;waitwire:1;sleep:20;pub:1:0;waitwire:2;waitdone:4000", 5, [("pub", 1, 0, 0)], "threaded")] + cases
    impl = harness_batch([c[0] for c in cases])
    mreqs, spans = [], []
    for req, v, ops, kind in cases:
        r = expected_stream(v, ops)
        spans.append((len(mreqs), len(r)))
        mreqs += r
    mout = driver_batch(mreqs)
    wl_reqs, wl_idx = [], []
    corr_ok, mon_ok, wl_ok = True, True, True
    for ci, ((req, v, ops, kind), a, (pos, ln)) in enumerate(zip(cases, impl, spans)):
        report.case(req)
        report.traces_validated += 1
        report.count("fidelity." + kind)
        fa, _ = resp_fields(a)
        outs = mout[pos:pos + ln]
        exp = unhex(resp_fields(outs[-4])[0].get("bytes", "x")) + unhex(resp_fields(outs[-1])[0].get("bytes", "x"))
        if fa.get("res") != "ok":
            mon_ok = False
            report.add_finding(Finding(prop, "mon:fidelity", {"clause": "scenario-failed", "kind": kind}, "driver scenario failed: " + a[:160], [req]))
            continue
        if fa.get("notes"):
            report.count("fidelity.notes." + fa["notes"].split(":")[0])
        wires = [unhex(w) for w in fa.get("wires", "").split(",") if w]
        wire = wires[0] if wires else b""
        results = fa.get("results", "")
        unresolved = [r for r in results.split(",") if r.endswith(":unresolved")]
        multi = [r for r in results.split(",") if "+" in r]
        failed = [r for r in results.split(",") if r and not r.endswith(":ok")]
        if len(wires) != 1:
            mon_ok = False
            report.add_finding(Finding(prop, "mon:fidelity", {"clause": "reconnected", "kind": kind}, f"{len(wires)} connections were made in a scenario without faults", [req, "# impl: " + a[:300]]))
            continue
        if wire != exp:
            k = next((i for i in range(min(len(wire), len(exp))) if wire[i] != exp[i]), min(len(wire), len(exp)))
            mon_ok = False
            clause = "duplicated-or-reordered" if len(wire) >= len(exp) else "lost"
            report.add_finding(Finding(prop, "mon:fidelity", {"clause": clause, "kind": kind},
                                       f"{kind} client: the transport received {len(wire)} bytes, the engine's stream for these operations is {len(exp)} bytes; first difference at offset {k} "
                                       f"(transport {wire[max(0, k - 4):k + 8].hex()}, engine {exp[max(0, k - 4):k + 8].hex()})",
                                       [req, "# transport: " + hexs(wire)[:400], "# engine:    " + hexs(exp)[:400]]))
        if unresolved or multi or failed:
            mon_ok = False
            clause = "unresolved" if unresolved else ("delivered-twice" if multi else "failed")
            report.add_finding(Finding(prop, "mon:fidelity", {"clause": "result-" + clause, "kind": kind},
                                       f"{kind} client on a healthy connection: operations {unresolved or multi or failed} did not each resolve successfully exactly once", [req, "# impl: results=" + results]))
        # the broker's answers reached the engine in order: every answer the broker sent was read exactly
        wlog = [x for x in fa.get("wlog", "").split("/") if x]
        events, problem = replay_write_loop(wlog)
        if problem:
            mon_ok = False
            report.add_finding(Finding(prop, "mon:fidelity", {"clause": "offer-not-remainder", "kind": kind}, f"{kind} client: {problem}", [req]))
        else:
            wl_reqs.append("wl.run ev=" + ",".join(events))
            wl_idx.append((ci, wire))
    wl_out = driver_batch(wl_reqs) if wl_reqs else []
    for (ci, wire), o, r in zip(wl_idx, wl_out, wl_reqs):
        f, _ = resp_fields(o)
        if f.get("res") != "ok" or unhex(f.get("wire", "x")) != wire or f.get("wire") != f.get("produced"):
            wl_ok = False
            report.add_finding(Finding(prop, "corr:write-loop", {"clause": "model-vs-impl", "kind": cases[ci][3]},
                                       "write loop: the model replaying the transport's call log does not reproduce the bytes the transport received (or leaves bytes unsent)",
                                       [cases[ci][0], r[:600], "# model: " + o[:300]], has_input=False))
    report.obligation("corr:fidelity", "correspondence", corr_ok and wl_ok,
                      f"{len(cases)} scenarios on the real tokio/threaded clients; engine model predicts the stream, WriteLoop model replays {len(wl_reqs)} transport call logs")
    report.obligation("mon:fidelity", "monitor", mon_ok, "transport bytes = engine stream (no loss, duplication, reordering) under partial writes, stalls and read fragmentation; results resolve once")


def suite_flush_service(report, prop="C13"):
    """a flush that stays pending (buffering stream) while the engine is serviced again and continues an operation that did
    not fit the output buffer: write completion may only be reported once those bytes are with the transport too.  Threaded
    client; a subscribe with a 300 ms ack timeout that is never answered makes the service time come due while the flush is
    held; then the rest of a 6000-byte QoS 0 publish would block, the flush is released, and finally the transport either
    fails or takes the rest."""
    cases = [("drv.run kind=threaded v=5 fplan=o,o,w wplan=a100000,a100000,a100000,b,e | start;waitwire:1;subto:300;waitwire:2;sleep:20;pub:0:6000;sleep:700;frelease;sleep:100;mark:flushed;sleep:50;release;sleep:300", "fails"),
             ("drv.run kind=threaded v=5 fplan=o,o,w wplan=a100000,a100000,a100000,b,a100000 | start;waitwire:1;subto:300;waitwire:2;sleep:20;pub:0:6000;sleep:700;frelease;sleep:100;mark:flushed;sleep:50;release;sleep:300", "takes-rest")]
    # the tokio client in the same situation (its flush future stays pending until released)
    cases += [(r.replace("kind=threaded", "kind=tokio"), v) for r, v in cases]
    impl = harness_batch_parallel([c[0] for c in cases])
    ok = True
    for (req, variant), a in zip(cases, impl):
        report.case(req)
        report.traces_validated += 1
        fa, _ = resp_fields(a)
        if fa.get("res") != "ok":
            ok = False
            report.add_finding(Finding(prop, "mon:flush-service", {"clause": "scenario-failed"}, "driver scenario failed: " + a[:160], [req]))
            continue
        wires = [w for w in fa.get("wires", "").split(",") if w]
        full = 18 + 15 + 6011
        first_len = (len(wires[0]) - 1) // 2 if wires else 0
        if variant == "takes-rest":
            if len(wires) != 1 or first_len != full or ":ok" not in fa.get("results", "").split(",")[-1]:
                ok = False
                report.add_finding(Finding(prop, "mon:flush-service", {"clause": "completion-before-written"},
                                           f"the transport took every byte ({first_len} of {full}) of a healthy connection, yet {len(wires)} connections were made / the publish "
                                           f"did not simply succeed: write completion was reported while bytes were still unsent", [req, "# impl: " + a[:300].replace(wires[0], f"x<{first_len} bytes>")]))
        else:
            # the publish's result must not have been delivered as success before the transport failed: at the |flushed| mark
            # (flush released, rest of the packet still blocked) the operation has to be unresolved
            results_at_mark = fa.get("marks", "")
            ev = fa.get("events", "")
            early = "flushed=" in results_at_mark and ":ok" in results_at_mark.split("flushed=")[1].split(";")[0].split("+")[-1]
            if early:
                ok = False
                report.add_finding(Finding(prop, "mon:flush-service", {"clause": "completion-before-written"},
                                           f"a QoS 0 publish was resolved as sent while {full - first_len} bytes of its packet were still unsent (the transport then failed)",
                                           [req, "# impl: " + a[:300].replace(wires[0], f"x<{first_len} bytes>")]))
    report.obligation("mon:flush-service", "monitor", ok, "flush pending + service producing more bytes: completion only after every byte is with the transport")


def gen_close_race(rng, i):
    kind = "tokio" if i % 2 == 0 else "threaded"
    v = rng.choice([5, 311])
    steps = []
    pubs = ["pub:1:0", "pub:0:0", "sub", "unsub", "pub:1:200"] + (["pubcb:1:0", "pubcb:0:0"] if kind == "threaded" else [])
    for _ in range(rng.choice([0, 1, 3])):
        steps.append(rng.choice(pubs))
    shape = rng.choice(["blocked-close", "close-now", "stop-close", "connected-close", "never-started", "refused"])
    head = f"drv.run kind={kind} v={v}"
    if shape == "blocked-close":
        head += " wplan=a5,b"
        steps += ["start", "waitblocked"] + [rng.choice(pubs) for _ in range(rng.choice([1, 3]))] + ["close"]
    elif shape == "close-now":
        steps += ["start", "close"]
    elif shape == "stop-close":
        steps += ["start", "waitwire:1", rng.choice(pubs), "stop", rng.choice(pubs), "close"]
    elif shape == "connected-close":
        head += " answer=" + rng.choice(["0", "1"])
        steps += ["start", "waitwire:1"] + [rng.choice(pubs) for _ in range(rng.choice([1, 4]))] + ["close"]
    elif shape == "refused":
        head += " refuse=50"
        steps += ["start", "sleep:5"] + [rng.choice(pubs) for _ in range(2)] + ["close"]
    else:
        steps += ["close"]
    # submissions racing with and after the close
    for _ in range(rng.choice([1, 2, 4])):
        steps.append(rng.choice(pubs))
    if rng.chance(0.6):
        steps.append(f"burst:{rng.choice([2, 4])}:{rng.choice([3, 10])}:{rng.choice([0, 1])}")
    steps.append(f"sleep:{rng.choice([1, 30])}")
    steps.append(rng.choice(pubs))
    steps.append("waitdone:3000")
    return head + " | " + ";".join(steps), kind, shape


def suite_results(report, tier, seed, prop="C13"):
    rng = Rng(seed, "results")
    n = 30 if tier == "quick" else 800
    cases = [gen_close_race(rng, i) for i in range(n)]
    cases = [("drv.run kind=threaded v=5 wplan=a5,b | start;waitblocked;pub:1:0;close;pub:1:0;pubcb:1:0;sleep:30;pub:1:0;waitdone:3000", "threaded", "blocked-close")] + cases
    impl = harness_batch([c[0] for c in cases])
    mon_ok = True
    slot_reqs = []
    for (req, kind, shape), a in zip(cases, impl):
        report.case(req)
        report.traces_validated += 1
        report.count(f"results.{kind}.{shape}")
        fa, _ = resp_fields(a)
        if fa.get("res") != "ok":
            mon_ok = False
            report.add_finding(Finding(prop, "mon:results", {"clause": "scenario-failed", "kind": kind}, "driver scenario failed: " + a[:160], [req]))
            continue
        for r in [x for x in fa.get("results", "").split(",") if x]:
            idx, outcome = r.split(":", 1)
            report.count("results.outcome." + outcome.split("+")[0])
            if outcome == "unresolved":
                mon_ok = False
                report.add_finding(Finding(prop, "mon:results", {"clause": "unresolved", "kind": kind},
                                           f"{kind} client: operation {idx} never yielded a result (its receiver/future/callback was still waiting 3 s after the client was closed)", [req, "# impl: results=" + fa.get("results", "")]))
                break
            if "+" in outcome:
                mon_ok = False
                report.add_finding(Finding(prop, "mon:results", {"clause": "delivered-twice", "kind": kind},
                                           f"{kind} client: operation {idx} yielded more than one result ({outcome})", [req, "# impl: results=" + fa.get("results", "")]))
                break
    report.obligation("mon:results", "monitor", mon_ok, f"{len(cases)} stop/close races on the real clients (submissions before, during and after close, concurrent submitters): every operation resolved exactly once")


# ---------------------------------------------------------------------------------------------------------------------
# lifecycle and inbound order as an application's listener sees them, on the real clients

def gen_real_lifecycle(rng, i):
    kind = "tokio" if i % 2 == 0 else "threaded"
    v = rng.choice([5, 311])
    transport = rng.choice(["ok", "ok", "refuse-some", "refuse-all", "silent"])
    head = f"drv.run kind={kind} v={v} backoff={rng.choice([3, 10, 20])} ctimeout=150"
    if transport == "refuse-some":
        head += f" refuse={rng.choice([1, 2, 5])}"
    elif transport == "refuse-all":
        head += " refuse=100000"
    elif transport == "silent":
        head += " answer=0"
    steps = []
    last = None
    for _ in range(rng.choice([1, 2, 3, 5])):
        op = rng.choice(["start", "start", "stop", "drop", "pub:1:0", "close"] if last != "close" else ["start", "stop"])
        if op == "close" and rng.chance(0.5):
            continue
        steps.append(op)
        if op in ("start", "stop", "close"):
            last = op
        # requests back to back (inside one pass of the loop), or spaced so that the loop has reacted in between
        if rng.chance(0.55):
            steps.append(f"sleep:{rng.choice([1, 5, 30, 60])}")
    ending = rng.choice(["stop", "stop", "close", "close-start", "close-stop", "start", "none"])
    if ending == "close-start":
        steps += ["close", "start"]
    elif ending == "close-stop":
        steps += ["close", "stop"]
    elif ending != "none":
        steps.append(ending)
    steps += ["sleep:400", "mark:settled", "sleep:150"]
    if any(s == "close" for s in steps):
        steps += ["start", "sleep:120"]
    return head + " | " + ";".join(steps), kind, transport


def lifecycle_verdict(events):
    """events: names and |markers| in the order the listener / the controller recorded them"""
    from suites_client import check_grammar
    life = [(i, e) for i, e in enumerate(events) if not e.startswith("|") and not e.startswith("Publish")]
    g = check_grammar(life)
    if g:
        return "event-grammar", "the event stream seen by a listener is not well-formed: " + g
    settled = events.index("|settled|") if "|settled|" in events else len(events)
    marks = [(i, e) for i, e in enumerate(events[:settled]) if e in ("|start|", "|stop|", "|close|")]
    late = [e for e in events[settled + 1:] if not e.startswith("|")]
    closed = [i for i, e in marks if e == "|close|"]
    if closed:
        if late:
            return "alive-after-close", f"events {late} were emitted after close() had been requested and the client had 400 ms to finish"
        return None
    if marks and marks[-1][1] == "|stop|":
        names = [e for _, e in life]
        last_s = max([k for k, e in enumerate(names) if e == "Stopped"], default=-1)
        if any(e == "Attempt" for e in names[last_s + 1:]):
            return "stop-never-stops", "a stop request that no later start supersedes did not end in a Stopped event within 400 ms (attempts continue)"
        # every stop request yields at most one Stopped event (requests issued back to back are all recorded before the loop
        # gets to the first of them, so the events of an earlier stop / start may follow the marker of the last stop)
        stops = sum(1 for _, e in marks if e == "|stop|")
        if names.count("Stopped") > stops:
            return "stopped-twice", f"{names.count('Stopped')} Stopped events for {stops} stop requests"
        if late:
            return "attempt-after-stop", f"events {late} after the client had stopped, without a start"
    return None


def suite_real_lifecycle(report, tier, seed, prop="C12"):
    rng = Rng(seed, "real-lifecycle")
    n = 36 if tier == "quick" else 900
    cases = [gen_real_lifecycle(rng, i) for i in range(n)]
    corpus = []
    for kind in ("threaded", "tokio"):
        corpus += [(f"drv.run kind={kind} v=5 backoff=10 ctimeout=150 refuse=100000 | start;sleep:30;close;start;sleep:400;mark:settled;sleep:150;start;sleep:120", kind, "refuse-all"),
                   (f"drv.run kind={kind} v=5 backoff=10 ctimeout=150 refuse=100000 | start;sleep:30;close;stop;sleep:400;mark:settled;sleep:150;start;sleep:120", kind, "refuse-all"),
                   (f"drv.run kind={kind} v=5 backoff=10 ctimeout=150 | start;waitwire:1;close;start;sleep:400;mark:settled;sleep:150;start;sleep:120", kind, "ok"),
                   (f"drv.run kind={kind} v=5 backoff=10 ctimeout=150 answer=0 | start;waitwire:1;stop;sleep:400;mark:settled;sleep:150", kind, "silent")]
        # extreme configuration values: the largest durations the builders accept must not kill the event loop
        corpus += [(f"drv.run kind={kind} v=5 backoff=10 ctimeout=max | start;waitwire:1;stop;sleep:400;mark:settled;sleep:150", kind, "ok"),
                   (f"drv.run kind={kind} v=5 backoff=max maxbackoff=max ctimeout=150 refuse=1 | start;sleep:100;stop;sleep:400;mark:settled;sleep:150", kind, "refuse-some")]
    # close is terminal whenever the request arrives: the threaded loop naps up to `idle` ms, so a close (and a start right
    # behind it) submitted during the nap is consumed in the very iteration in which the reconnect timer has expired / the
    # transport has come up.  The loop is provably asleep when the requests arrive, so nothing here depends on a race.
    corpus += [("drv.run kind=threaded v=5 idle=500 backoff=300 maxbackoff=300 ctimeout=150 refuse=100000 | start;sleep:250;close;sleep:900;mark:settled;sleep:150", "threaded", "close-terminal"),
               ("drv.run kind=threaded v=5 idle=500 backoff=300 maxbackoff=300 ctimeout=150 refuse=100000 | start;sleep:250;close;start;sleep:1200;mark:settled;sleep:400", "threaded", "close-terminal"),
               ("drv.run kind=threaded v=5 idle=500 cdelay=200 backoff=300 ctimeout=1000 | start;sleep:50;close;start;sleep:900;mark:settled;sleep:150", "threaded", "close-terminal"),
               ("drv.run kind=tokio v=5 backoff=300 maxbackoff=300 ctimeout=150 refuse=100000 | start;sleep:250;close;start;sleep:1200;mark:settled;sleep:400", "tokio", "close-terminal")]
    # a transport whose flush or shutdown never completes (a layered stream under back-pressure whose peer stopped
    # reading): the client must stay responsive - the establishment deadline still fires, a stop still stops
    corpus += [("drv.run kind=tokio v=5 fplan=w ctimeout=200 backoff=50 | start;sleep:700;stop;sleep:400;mark:settled;sleep:150", "tokio", "flush-stall"),
               ("drv.run kind=tokio v=5 fplan=w answer=0 ctimeout=200 backoff=50 | start;sleep:700;stop;sleep:400;mark:settled;sleep:150", "tokio", "flush-stall"),
               ("drv.run kind=tokio v=5 shutdown=stall answer=0 ctimeout=200 backoff=50 | start;sleep:700;stop;sleep:400;mark:settled;sleep:150", "tokio", "shutdown-stall"),
               ("drv.run kind=threaded v=5 fplan=w answer=0 ctimeout=200 backoff=50 | start;sleep:700;stop;sleep:400;mark:settled;sleep:150", "threaded", "flush-stall")]
    # transport faults and the other ways a connection ends (each of these paths of the two driver loops was dark in a source
    # coverage measurement of the quick tier): the establishment timeout itself, garbage from the server, a failing read, a
    # failing write before the CONNACK, a failing flush - and a stop that sends a DISCONNECT first
    for kind in ("threaded", "tokio"):
        corpus += [(f"drv.run kind={kind} v=5 cdelay=400 ctimeout=100 backoff=50 | start;sleep:700;stop;sleep:500;mark:settled;sleep:150", kind, "connect-timeout"),
                   (f"drv.run kind={kind} v=5 backoff=50 ctimeout=300 | start;waitwire:1;sleep:50;inject:xffff00;sleep:250;stop;sleep:400;mark:settled;sleep:150", kind, "server-garbage"),
                   (f"drv.run kind={kind} v=5 backoff=50 ctimeout=300 rplan=f1,e | start;sleep:350;stop;sleep:400;mark:settled;sleep:150", kind, "read-error"),
                   (f"drv.run kind={kind} v=5 backoff=50 ctimeout=300 wplan=e | start;sleep:350;stop;sleep:400;mark:settled;sleep:150", kind, "write-error"),
                   (f"drv.run kind={kind} v=5 backoff=50 ctimeout=300 fplan=e | start;sleep:350;stop;sleep:400;mark:settled;sleep:150", kind, "flush-error"),
                   (f"drv.run kind={kind} v=5 backoff=50 ctimeout=300 | start;waitwire:1;sleep:80;stopd;sleep:500;mark:settled;sleep:150", kind, "stop-disconnect"),
                   (f"drv.run kind={kind} v=311 backoff=50 ctimeout=300 | start;waitwire:1;sleep:80;pub:1;sleep:50;stopd;sleep:500;mark:settled;sleep:150", kind, "stop-disconnect")]
    # configuration values the builders accept: an endpoint string that is no URI authority (a bare IPv6 literal - fine for
    # the direct transport -, a space, nothing at all) given to a websocket client.  Nothing listens on port 1: every attempt
    # can only fail, and must do so as a reported failure, with the loop alive and a stop still stopping.
    for kind in ("tokio-ws", "threaded-ws"):
        for ep in (b"::1", b"local host", b"", b"127.0.0.1", b"[::1]", b"a/b?c#d", "h\u00f6st".encode()):
            corpus.append((f"drv.run kind={kind} v=5 endpoint=x{ep.hex()} ctimeout=300 backoff=50 maxbackoff=100 | start;sleep:500;stop;sleep:400;mark:settled;sleep:150", kind, "ws-endpoint"))
    cases = corpus + cases
    impl = harness_batch_parallel([c[0] for c in cases])
    mon_ok = True
    for (req, kind, transport), a in zip(cases, impl):
        report.case(req)
        report.traces_validated += 1
        report.count(f"real-lifecycle.{kind}.{transport}")
        fa, _ = resp_fields(a)
        if fa.get("res") != "ok":
            mon_ok = False
            report.add_finding(Finding(prop, "mon:real-lifecycle", {"clause": "scenario-failed", "kind": kind}, "driver scenario failed: " + a[:160], [req]))
            continue
        events = [e for e in fa.get("events", "").split(",") if e]
        for e in events:
            if not e.startswith("|"):
                report.count("real-lifecycle.event." + e.split(".")[0])
        verdict = lifecycle_verdict(events)
        # a start / stop request refused because nobody receives it any more, although close() was never called: the loop died
        dead = [x for x in fa.get("sync", "").split(",") if x.startswith(("start:", "stop:")) and "OperationChannelFailure" in x]
        if not verdict and dead and "|close|" not in events:
            verdict = ("event-loop-dead", f"the client's event loop is gone ({dead[0]}) although the client was never closed")
        if not verdict and transport == "close-terminal" and "|close|" in events:
            # the requests arrived while the loop was asleep: a client that honours the close makes no attempt after it
            after = [e for e in events[events.index("|close|") + 1:] if e in ("Attempt", "Success")]
            if after:
                verdict = ("attempt-after-close", f"close() was requested while the loop slept; afterwards the client still emitted {after}")
        if not verdict and transport == "stop-disconnect":
            # the stop asked for a DISCONNECT: it is the last packet the (last) connection carries, sent once, and the client stops
            from walk import split_packets
            wires = [unhex(w) for w in fa.get("wires", "").split(",") if w]
            pkts = split_packets(wires[-1])[0] if wires else []
            kinds = [first >> 4 for first, _ in pkts]
            if "Stopped" not in events:
                verdict = ("stop-never-stops", "a stop with a DISCONNECT did not end in a Stopped event")
            elif kinds.count(14) != 1 or kinds[-1] != 14:
                verdict = ("disconnect-not-last", f"a stop with a DISCONNECT: the connection carried packet types {kinds} (expected exactly one DISCONNECT, last)")
        if verdict:
            mon_ok = False
            report.add_finding(Finding(prop, "mon:real-lifecycle", {"clause": verdict[0], "kind": kind}, f"{kind} client: {verdict[1]}", [req, "# impl: events=" + fa.get("events", "")]))
    report.obligation("mon:real-lifecycle", "monitor", mon_ok,
                      f"{len(cases)} start/stop/close schedules on the real tokio/threaded clients (requests back to back and spaced; refusing, silent and answering transports): "
                      "listener sees a well-formed stream, a final stop stops, close is terminal")


def server_publish(v, qos, pid, tag):
    topic = b"in/t"
    body = len(topic).to_bytes(2, "big") + topic + (pid.to_bytes(2, "big") if qos else b"") + (b"\x00" if v == 5 else b"") + tag.to_bytes(2, "big")
    return bytes([0x30 | (qos << 1), len(body)]) + body


def gen_real_inbound(rng, i):
    kind = "tokio" if i % 2 == 0 else "threaded"
    v = rng.choice([5, 311])
    n = rng.choice([1, 2, 5, 12, 30])
    stream, tags = b"", []
    for k in range(n):
        qos = rng.choice([0, 0, 1, 2])
        stream += server_publish(v, qos, k + 1, k)
        tags.append(k)
    # how the bytes reach the client: one burst, packet by packet, or arbitrary cuts
    cuts = sorted({rng.randint(1, len(stream) - 1) for _ in range(rng.choice([0, 0, 1, 3, 8]))}) if len(stream) > 1 else []
    parts = [stream[a:b] for a, b in zip([0] + cuts, cuts + [len(stream)])]
    steps = ["start", "waitwire:1", "sleep:20"]
    for p in parts:
        steps.append("inject:" + p.hex())
        if rng.chance(0.4):
            steps.append(f"sleep:{rng.choice([1, 3])}")
    # (no fixed deadline: on a loaded machine the client may take longer than any fixed nap; then a short nap in which a
    # duplicate or a late extra message would still show)
    steps.append(f"waitpub:{n}")
    steps.append("sleep:60")
    rplan = [rng.choice(["f1", "f2", "f7", "f100", "b"]) for _ in range(rng.choice([0, 0, 4, 10]))]
    head = f"drv.run kind={kind} v={v}" + (f" rplan={','.join(rplan)}" if rplan else "")
    return head + " | " + ";".join(steps), kind, tags


def suite_real_inbound(report, tier, seed, prop="C05"):
    rng = Rng(seed, "real-inbound")
    n = 24 if tier == "quick" else 600
    cases = [gen_real_inbound(rng, i) for i in range(n)]
    impl = harness_batch_parallel([c[0] for c in cases])
    mon_ok = True
    for (req, kind, tags), a in zip(cases, impl):
        report.case(req)
        report.traces_validated += 1
        report.count(f"real-inbound.{kind}")
        fa, _ = resp_fields(a)
        if fa.get("res") != "ok":
            mon_ok = False
            report.add_finding(Finding(prop, "mon:real-inbound", {"clause": "scenario-failed", "kind": kind}, "driver scenario failed: " + a[:160], [req]))
            continue
        got = [int(e.split(".x")[1], 16) for e in fa.get("events", "").split(",") if e.startswith("Publish.x") and len(e) > 9]
        report.count("real-inbound.messages", len(got))
        if got != tags:
            mon_ok = False
            clause = "surfaced-out-of-order" if sorted(got) == tags else ("lost" if len(got) < len(tags) else "duplicated")
            report.add_finding(Finding(prop, "mon:real-inbound", {"clause": clause, "kind": kind},
                                       f"{kind} client: {len(tags)} publishes arrived in wire order 0..{len(tags) - 1}; the listener was given {got}", [req, "# impl: events=" + fa.get("events", "")[:600]]))
    report.obligation("mon:real-inbound", "monitor", mon_ok, f"{len(cases)} inbound bursts on the real tokio/threaded clients: the listener is given every message once, in wire order")


# ---------------------------------------------------------------------------------------------------------------------
# byte fidelity across a connection that ends with unsent bytes

def gen_reconnect_fidelity(rng, i):
    kind = "tokio" if i % 2 == 0 else "threaded"
    v = rng.choice([5, 311])
    fault = rng.choice(["write-error", "write-error", "drop", "stop-start"])
    ops, steps = [], ["start", "waitwire:1", "sleep:10"]

    def add_op(sizes, only_pub=False):
        k = rng.choice(["pub", "pub", "pub", "sub", "unsub"]) if not only_pub else "pub"
        a = rng.choice([0, 1, 1]) if k == "pub" else 1
        size = rng.choice(sizes) if k == "pub" else 0
        ops.append((k, a, len(ops), size))
        steps.append(f"{k}:{a}:{size}" if k == "pub" else k)

    wplan = ["a100000"] + [f"a{rng.choice([1, 2, 5, 9])}" for _ in range(rng.choice([0, 1, 1, 2]))]
    add_op([40, 300, 5000], only_pub=True)     # larger than everything the transport accepts before the fault
    if fault == "write-error" and rng.chance(0.3):
        wplan.append("e")                    # fails at once (possibly after partial acceptance)
        steps.append("waitconns:2")
    else:
        wplan.append("b")
        steps.append("waitblocked")
        for _ in range(rng.choice([0, 1, 3])):
            add_op([0, 40, 300])
        steps.append("sleep:5")
        if fault == "write-error":
            wplan.append("e")
            steps += ["release", "waitconns:2"]
        elif fault == "drop":
            steps += ["drop", "waitconns:2"]
        else:
            steps += ["stop", "sleep:60", "start", "waitconns:2"]
    steps += [f"waitwire:{1 + len(ops)}", "waitdone:4000"]
    head = f"drv.run kind={kind} v={v} backoff=5 wplan={','.join(wplan)}"
    return head + " | " + ";".join(steps), v, ops, kind, fault


def reconnect_expected(v, ops):
    connack = "x2003000000" if v == 5 else "x20020000"
    reqs = ["session.reset", f"eng.new v={v} policy=all | cid={hexs(b'drv')} rejoin=post",
            "eng.open t=0 deadline=30000", "eng.svc t=0 cap=100000000 prefill=0", "eng.wc t=0", f"eng.data t=0 b={connack}",
            op_text(*ops[0]), "eng.svc t=0 cap=100000000 prefill=0"]
    reqs += [op_text(*o) for o in ops[1:]]
    reqs += ["eng.close t=0", "eng.open t=0 deadline=30000", "eng.svc t=0 cap=100000000 prefill=0", "eng.wc t=0", f"eng.data t=0 b={connack}",
             "eng.svc t=0 cap=100000000 prefill=0"]
    return reqs


def suite_reconnect_fidelity(report, tier, seed, prop="C13"):
    rng = Rng(seed, "reconnect-fidelity")
    n = 24 if tier == "quick" else 600
    cases = [gen_reconnect_fidelity(rng, i) for i in range(n)]
    cases = [("drv.run kind=threaded v=5 backoff=5 wplan=a100000,a5,b,e | start;waitwire:1;sleep:10;pub:1:40;waitblocked;sleep:5;release;waitconns:2;waitwire:2;waitdone:4000", 5, [("pub", 1, 0, 40)], "threaded", "write-error"),
             ("drv.run kind=tokio v=5 backoff=5 wplan=a100000,a5,b,e | start;waitwire:1;sleep:10;pub:1:40;waitblocked;sleep:5;release;waitconns:2;waitwire:2;waitdone:4000", 5, [("pub", 1, 0, 40)], "tokio", "write-error")] + cases
    impl = harness_batch_parallel([c[0] for c in cases])
    mreqs, spans = [], []
    for req, v, ops, kind, fault in cases:
        r = reconnect_expected(v, ops)
        spans.append((len(mreqs), len(r)))
        mreqs += r
    mout = driver_batch(mreqs)
    mon_ok = True
    for (req, v, ops, kind, fault), a, (pos, ln) in zip(cases, impl, spans):
        report.case(req)
        report.traces_validated += 1
        report.count(f"reconnect-fidelity.{kind}.{fault}")
        fa, _ = resp_fields(a)
        outs = mout[pos:pos + ln]
        b = lambda k: unhex(resp_fields(outs[k])[0].get("bytes", "x"))
        first = b(3) + b(7)
        second = b(-4) + b(-1)
        if fa.get("res") != "ok":
            mon_ok = False
            report.add_finding(Finding(prop, "mon:reconnect-fidelity", {"clause": "scenario-failed", "kind": kind}, "driver scenario failed: " + a[:160], [req]))
            continue
        if fa.get("notes"):
            report.count("reconnect-fidelity.notes." + fa["notes"].split(":")[0])
        wires = [unhex(w) for w in fa.get("wires", "").split(",") if w]
        if len(wires) != 2:
            mon_ok = False
            report.add_finding(Finding(prop, "mon:reconnect-fidelity", {"clause": "connection-count", "kind": kind},
                                       f"{kind} client: {len(wires)} connections were made (one fault, one reconnect expected)", [req, "# impl: " + a[:400]]))
            continue
        problem = None
        if wires[0] != first[:len(wires[0])]:
            problem = ("first-connection", f"the first connection received bytes that are not a prefix of the engine's stream ({wires[0][:40].hex()}.. vs {first[:40].hex()}..)")
        elif wires[1] != second:
            k = next((i for i in range(min(len(wires[1]), len(second))) if wires[1][i] != second[i]), min(len(wires[1]), len(second)))
            problem = ("second-connection", f"after a connection that ended with unsent bytes ({fault}), the next transport received {len(wires[1])} bytes where the engine's stream for that "
                                            f"connection is {len(second)} bytes; first difference at offset {k} (transport {wires[1][max(0, k - 4):k + 10].hex()}, engine {second[max(0, k - 4):k + 10].hex()})")
        if problem:
            mon_ok = False
            report.add_finding(Finding(prop, "mon:reconnect-fidelity", {"clause": problem[0], "kind": kind}, f"{kind} client: {problem[1]}",
                                       [req, "# transport 1: " + hexs(wires[0])[:300], "# transport 2: " + hexs(wires[1])[:300], "# engine 2:    " + hexs(second)[:300]]))
            continue
        results = fa.get("results", "")
        bad = [r for r in results.split(",") if r and not r.endswith(":ok")]
        if bad:
            mon_ok = False
            report.add_finding(Finding(prop, "mon:reconnect-fidelity", {"clause": "result", "kind": kind},
                                       f"{kind} client: operations {bad} did not each resolve successfully exactly once although the second connection was healthy", [req, "# impl: results=" + results]))
    report.obligation("mon:reconnect-fidelity", "monitor", mon_ok,
                      f"{len(cases)} scenarios: a connection of the real tokio/threaded client ends (write error, EOF, stop) while bytes are unsent; the next transport receives exactly "
                      "the engine model's stream for the new connection (CONNECT first, nothing stale, nothing lost)")


def suite_midbatch_service(report, tier, seed, prop="C13"):
    """a service call in the middle of a batch: the transport has taken only part of what the engine produced and stalls; while
    it stalls the ack timeout of an earlier operation falls due and the driver services the engine again (more bytes are
    appended behind the unsent rest); then the transport takes the rest.  What the transport received is exactly the packets
    the engine produced, whole and in order - nothing of the stalled batch is skipped or sent twice."""
    from walk import split_packets
    cases = []
    for kind in ("tokio", "threaded"):
        for v in (5, 311):
            for first, size in ((100, 300), (7, 300), (200, 220), (150, 2000)):
                for stall in (400, 250):
                    cases.append((f"drv.run kind={kind} v={v} wplan=a100000,a100000,a{first},b,a100000,a100000,a100000 | start;waitwire:1;subto:150;waitwire:2;sleep:10;pub:1:{size};waitblocked;sleep:{stall};release;sleep:300", kind, size))
    impl = harness_batch_parallel([c[0] for c in cases])
    mon_ok = True
    judged = 0
    for (req, kind, size), a in zip(cases, impl):
        report.case(req)
        report.traces_validated += 1
        report.count("midbatch-service." + kind)
        fa, _ = resp_fields(a)
        if fa.get("res") != "ok":
            mon_ok = False
            report.add_finding(Finding(prop, "mon:midbatch-service", {"clause": "scenario-failed", "kind": kind}, "driver scenario failed: " + a[:160], [req]))
            continue
        wires = [unhex(w) for w in fa.get("wires", "").split(",") if w]
        wire = wires[0] if wires else b""
        pkts, rest, bad = split_packets(wire)
        kinds = [fb >> 4 for fb, _ in pkts]
        pubs = [body for fb, body in pkts if fb >> 4 == 3]
        problem = None
        if "waitblocked-timeout" in fa.get("notes", ""):
            report.count("midbatch-service.not-blocked")
            continue
        judged += 1
        if bad or rest:
            problem = f"the byte stream does not end at a packet boundary ({len(rest)} bytes left over, malformed={bad})"
        elif kinds[:2] != [1, 8] or len(pubs) != 1:
            problem = f"packet types on the wire: {kinds} (expected CONNECT, SUBSCRIBE, one PUBLISH)"
        elif pubs[0].count(0x70) < size:
            problem = f"the PUBLISH carries {pubs[0].count(0x70)} of its {size} payload bytes"
        if problem:
            mon_ok = False
            report.add_finding(Finding(prop, "mon:midbatch-service", {"clause": "bytes-lost-in-stalled-batch", "kind": kind},
                                       f"{kind} client: {problem}", [req, "# transport: " + hexs(wire)[:600]]))
    report.count("midbatch-service.judged", judged)
    report.obligation("mon:midbatch-service", "monitor", mon_ok and judged > 0, f"{judged} stalled batches with a service call in the middle: the transport receives whole packets, in order, once")
