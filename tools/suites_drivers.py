"""C13: the network drivers.  (1) the websocket read adapter: real `WebsocketStreamWrapper` over a scripted socket vs the
model (Model/Driver.lean `WsReader`); (2) byte fidelity: the real tokio and threaded clients over a scripted in-memory
transport (partial writes, stalls, read fragmentation) vs the byte stream the engine model predicts, with the write loop's
accounting replayed by the model (`WriteLoop`); (3) result delivery: every submitted operation resolves exactly once, also
around stop/close."""
from gv import Rng, Finding, harness_batch, driver_batch, resp_fields, hexs, unhex


def gen_ws_case(rng):
    frames, payloads = [], []
    n = rng.choice([1, 2, 3, 5, 8])
    for i in range(n):
        r = rng.random()
        size = rng.choice([0, 1, 2, 5, 17, 125, 126, 127, 300, 4095, 4096, 4097, 9000]) if rng.chance(0.9) else rng.choice([65535, 65536, 70000])
        if r < 0.12:
            frames.append("p" + (hexs(bytes(rng.randint(0, 255) for _ in range(rng.choice([0, 3])))) if rng.chance(0.5) else ""))
        elif r < 0.25:
            p = bytes(rng.choice(b"abcxyz019/") for _ in range(min(size, 300)))
            frames.append("t" + hexs(p))
            payloads.append(p)
        else:
            p = bytes((i * 37 + j) & 0xFF for j in range(size))
            frames.append("b" + hexs(p))
            payloads.append(p)
    if rng.chance(0.15):
        frames.append("c")
    total = sum(len(p) for p in payloads)
    calls = []
    bufs = rng.choice([[4096], [4096], [1, 2, 3], [7, 64], [1], [4096, 100], [3, 4096, 1]])
    for i in range(rng.choice([4, 8, 16])):
        avail = rng.choice([0, 0, 1, 2, 3, 7, 130, 4100, 10 ** 6])
        calls.append(f"{rng.choice(bufs)}@{avail}")
    # then everything arrives and is drained with the production buffer size
    calls.append("4096@100000000")
    for i in range(total // 4096 + 3):
        calls.append("4096@0")
    return f"ws.read frames={','.join(frames)} calls={','.join(calls)}", payloads


def suite_ws(report, tier, seed, prop="C13"):
    rng = Rng(seed, "ws")
    n = 150 if tier == "quick" else 6000
    cases = [gen_ws_case(rng) for _ in range(n)]
    # regression corpus: the shapes that mis-assembled before the cursor fix
    cases = [("ws.read frames=bx0102030405 calls=3@100,3@0,3@0", [bytes([1, 2, 3, 4, 5])]),
             ("ws.read frames=bx0102030405,bx0607,bx08090a calls=4096@100,4096@0", [bytes([1, 2, 3, 4, 5]), bytes([6, 7]), bytes([8, 9, 10])])] + cases
    reqs = [c[0] for c in cases]
    impl = harness_batch(reqs)
    model = driver_batch(reqs)
    corr_ok, mon_ok = True, True
    for (req, payloads), a, b in zip(cases, impl, model):
        report.case(req)
        report.traces_validated += 1
        if a != b:
            corr_ok = False
            report.add_finding(Finding(prop, "corr:ws", {"clause": "model-vs-impl", "verb": "ws.read"}, "websocket read adapter: implementation and model disagree",
                                       [req, "# impl:  " + a[:400], "# model: " + b[:400]], has_input=False))
        fa, _ = resp_fields(a)
        if fa.get("res") != "ok":
            mon_ok = False
            report.add_finding(Finding(prop, "mon:ws", {"clause": "panic" if "panic" in fa.get("res", "") else "failed"}, "websocket read adapter failed: " + a[:120], [req]))
            continue
        want = b"".join(payloads)
        got = b""
        calls = req.split("calls=")[1].split(",")
        bad = None
        for call, r in zip(calls, fa.get("reads", "").split(",")):
            buf = int(call.split("@")[0])
            if r.startswith("ok:"):
                chunk = unhex(r[3:])
                if not (1 <= len(chunk) <= buf):
                    bad = ("read-size", f"a read into a {buf}-byte buffer returned {len(chunk)} bytes")
                got += chunk
            elif r == "wouldblock":
                report.count("ws.wouldblock")
            else:
                bad = ("read-error", f"a read returned {r[:40]}")
            if bad:
                break
        if bad is None and got != want[:len(got)]:
            k = next(i for i in range(len(got)) if i >= len(want) or got[i] != want[i])
            bad = ("stream-corrupted", f"the bytes handed to the engine differ from the concatenated message payloads at offset {k} "
                                       f"(got {got[max(0, k - 2):k + 6].hex()}, payloads have {want[max(0, k - 2):k + 6].hex()})")
        if bad is None and got != want:
            bad = ("stream-truncated", f"{len(want) - len(got)} payload bytes were never delivered although every frame arrived and reads continued")
        if bad:
            mon_ok = False
            report.add_finding(Finding(prop, "mon:ws", {"clause": bad[0]}, bad[1], [req, "# impl: " + a[:300]]))
        report.count("ws.frames", len(req.split("frames=")[1].split(" ")[0].split(",")))
    report.obligation("corr:ws", "correspondence", corr_ok, f"{len(reqs)} scripted websocket sessions through the real WebsocketStreamWrapper (tungstenite client role, server frames)")
    report.obligation("mon:ws", "monitor", mon_ok, "bytes delivered = concatenation of binary/text payloads, each read 1..buffer bytes, nothing lost once all frames arrived")


# ------------------------------------------------------------------------------------------------

def op_text(kind, a, tag, size):
    if kind in ("pub", "pubcb"):
        payload = bytes([tag >> 8, tag & 0xFF]) + b"\x70" * size
        return f"eng.pub t=0 | publish pid=0 topic={hexs(b't/x')} qos={a} retain=0 payload={hexs(payload)}"
    if kind == "sub":
        return f"eng.sub t=0 | subscribe pid=0 sub={hexs(b'f/%d' % tag)}:1:0:0:0"
    return f"eng.unsub t=0 | unsubscribe pid=0 tf={hexs(b'f/%d' % tag)}"


def expected_stream(v, ops):
    """the byte stream the engine model produces for CONNECT + these operations in submission order"""
    connack = "x2003000000" if v == 5 else "x20020000"
    reqs = ["session.reset", f"eng.new v={v} policy=all | cid={hexs(b'drv')} rejoin=post"]
    reqs += [op_text(*o) for o in ops]
    reqs += ["eng.open t=0 deadline=30000", "eng.svc t=0 cap=100000000 prefill=0", "eng.wc t=0", f"eng.data t=0 b={connack}", "eng.svc t=0 cap=100000000 prefill=0"]
    return reqs


def gen_fidelity(rng, i):
    kind = "tokio" if i % 2 == 0 else "threaded"
    v = rng.choice([5, 311])
    ops, steps = [], []

    def add_op():
        k = rng.choice(["pub", "pub", "pub", "sub", "unsub"] + (["pubcb"] if kind == "threaded" else []))
        a = rng.choice([0, 1, 1]) if k in ("pub", "pubcb") else 1
        size = rng.choice([0, 3, 40, 300, 5000]) if k in ("pub", "pubcb") else 0
        tag = len(ops)
        ops.append((k, a, tag, size))
        steps.append(f"{k}:{a}:{size}" if k in ("pub", "pubcb") else k)

    for _ in range(rng.choice([0, 1, 3, 6])):
        add_op()
    steps.append("start")
    no_stall = False
    wplan = []
    nblocks = rng.choice([0, 1, 1, 2, 3])
    for b in range(nblocks):
        # keep the accepted total below what is pending so that the stall is actually reached
        for _ in range(rng.choice([1, 1, 2])):
            wplan.append(f"a{rng.choice([1, 1, 2, 3, 4])}")
        wplan.append("b")
        steps.append("waitblocked")
        for _ in range(rng.choice([0, 1, 1, 2]) if b == nblocks - 1 else rng.choice([1, 2])):
            add_op()
        if rng.chance(0.5):
            steps.append(f"sleep:{rng.choice([1, 5, 20])}")
        steps.append("release")
    for _ in range(rng.choice([0, 2, 6])):
        wplan.append(f"a{rng.choice([1, 2, 3, 9, 64])}")
    rplan = []
    for _ in range(rng.choice([0, 3, 8])):
        rplan.append(rng.choice(["f1", "f1", "f2", "f3", "b", "f100"]))
    if nblocks == 0:
        steps.append("waitwire:1")      # the CONNECT has reached the broker before anything else is judged
    for _ in range(rng.choice([0, 1, 3])):
        add_op()
    steps.append(f"waitwire:{1 + len(ops)}")
    steps.append("waitdone:4000")
    head = f"drv.run kind={kind} v={v}" + (f" wplan={','.join(wplan)}" if wplan else "") + (f" rplan={','.join(rplan)}" if rplan else "")
    return head + " | " + ";".join(steps), v, ops, kind


def replay_write_loop(wlog):
    """reconstruct service / accepted / stalled events from the transport's call log; returns (events, problem)"""
    events = []
    remaining = b""
    for entry in wlog:
        off, res = entry.rsplit(":", 1)
        offered = unhex(off)
        if offered[:len(remaining)] != remaining:
            return events, f"the slice offered to the transport ({offered[:12].hex()}.., {len(offered)} bytes) is not the unsent remainder ({remaining[:12].hex()}.., {len(remaining)} bytes)"
        if len(offered) > len(remaining):
            events.append("s" + hexs(offered[len(remaining):]))
            remaining = offered
        if res == "b":
            events.append("x")
        elif res == "e":
            break
        else:
            n = int(res)
            events.append(f"a{n}")
            remaining = remaining[n:]
    return events, None


def suite_fidelity(report, tier, seed, prop="C13"):
    rng = Rng(seed, "fidelity")
    n = 24 if tier == "quick" else 600
    cases = [gen_fidelity(rng, i) for i in range(n)]
    # regression corpus: partial write, stall, another event source fires while the write is pending
    cases = [("drv.run kind=tokio v=5 wplan=a5,b | start;waitblocked;pub:1:0;sleep:20;release;waitdone:4000", 5, [("pub", 1, 0, 0)], "tokio"),
             ("drv.run kind=threaded v=5 wplan=a5,b | start;waitblocked;pub:1:0;sleep:20;release;waitdone:4000", 5, [("pub", 1, 0, 0)], "threaded")] + cases
    impl = harness_batch([c[0] for c in cases])
    mreqs, spans = [], []
    for req, v, ops, kind in cases:
        r = expected_stream(v, ops)
        spans.append((len(mreqs), len(r)))
        mreqs += r
    mout = driver_batch(mreqs)
    wl_reqs, wl_idx = [], []
    corr_ok, mon_ok, wl_ok = True, True, True
    for ci, ((req, v, ops, kind), a, (pos, ln)) in enumerate(zip(cases, impl, spans)):
        report.case(req)
        report.traces_validated += 1
        report.count("fidelity." + kind)
        fa, _ = resp_fields(a)
        outs = mout[pos:pos + ln]
        exp = unhex(resp_fields(outs[-4])[0].get("bytes", "x")) + unhex(resp_fields(outs[-1])[0].get("bytes", "x"))
        if fa.get("res") != "ok":
            mon_ok = False
            report.add_finding(Finding(prop, "mon:fidelity", {"clause": "scenario-failed", "kind": kind}, "driver scenario failed: " + a[:160], [req]))
            continue
        if fa.get("notes"):
            report.count("fidelity.notes." + fa["notes"].split(":")[0])
        wires = [unhex(w) for w in fa.get("wires", "").split(",") if w]
        wire = wires[0] if wires else b""
        results = fa.get("results", "")
        unresolved = [r for r in results.split(",") if r.endswith(":unresolved")]
        multi = [r for r in results.split(",") if "+" in r]
        failed = [r for r in results.split(",") if r and not r.endswith(":ok")]
        if len(wires) != 1:
            mon_ok = False
            report.add_finding(Finding(prop, "mon:fidelity", {"clause": "reconnected", "kind": kind}, f"{len(wires)} connections were made in a scenario without faults", [req, "# impl: " + a[:300]]))
            continue
        if wire != exp:
            k = next((i for i in range(min(len(wire), len(exp))) if wire[i] != exp[i]), min(len(wire), len(exp)))
            mon_ok = False
            clause = "duplicated-or-reordered" if len(wire) >= len(exp) else "lost"
            report.add_finding(Finding(prop, "mon:fidelity", {"clause": clause, "kind": kind},
                                       f"{kind} client: the transport received {len(wire)} bytes, the engine's stream for these operations is {len(exp)} bytes; first difference at offset {k} "
                                       f"(transport {wire[max(0, k - 4):k + 8].hex()}, engine {exp[max(0, k - 4):k + 8].hex()})",
                                       [req, "# transport: " + hexs(wire)[:400], "# engine:    " + hexs(exp)[:400]]))
        if unresolved or multi or failed:
            mon_ok = False
            clause = "unresolved" if unresolved else ("delivered-twice" if multi else "failed")
            report.add_finding(Finding(prop, "mon:fidelity", {"clause": "result-" + clause, "kind": kind},
                                       f"{kind} client on a healthy connection: operations {unresolved or multi or failed} did not each resolve successfully exactly once", [req, "# impl: results=" + results]))
        # the broker's answers reached the engine in order: every answer the broker sent was read exactly
        wlog = [x for x in fa.get("wlog", "").split("/") if x]
        events, problem = replay_write_loop(wlog)
        if problem:
            mon_ok = False
            report.add_finding(Finding(prop, "mon:fidelity", {"clause": "offer-not-remainder", "kind": kind}, f"{kind} client: {problem}", [req]))
        else:
            wl_reqs.append("wl.run ev=" + ",".join(events))
            wl_idx.append((ci, wire))
    wl_out = driver_batch(wl_reqs) if wl_reqs else []
    for (ci, wire), o, r in zip(wl_idx, wl_out, wl_reqs):
        f, _ = resp_fields(o)
        if f.get("res") != "ok" or unhex(f.get("wire", "x")) != wire or f.get("wire") != f.get("produced"):
            wl_ok = False
            report.add_finding(Finding(prop, "corr:write-loop", {"clause": "model-vs-impl", "kind": cases[ci][3]},
                                       "write loop: the model replaying the transport's call log does not reproduce the bytes the transport received (or leaves bytes unsent)",
                                       [cases[ci][0], r[:600], "# model: " + o[:300]], has_input=False))
    report.obligation("corr:fidelity", "correspondence", corr_ok and wl_ok,
                      f"{len(cases)} scenarios on the real tokio/threaded clients; engine model predicts the stream, WriteLoop model replays {len(wl_reqs)} transport call logs")
    report.obligation("mon:fidelity", "monitor", mon_ok, "transport bytes = engine stream (no loss, duplication, reordering) under partial writes, stalls and read fragmentation; results resolve once")


def gen_close_race(rng, i):
    kind = "tokio" if i % 2 == 0 else "threaded"
    v = rng.choice([5, 311])
    steps = []
    pubs = ["pub:1:0", "pub:0:0", "sub", "unsub", "pub:1:200"] + (["pubcb:1:0", "pubcb:0:0"] if kind == "threaded" else [])
    for _ in range(rng.choice([0, 1, 3])):
        steps.append(rng.choice(pubs))
    shape = rng.choice(["blocked-close", "close-now", "stop-close", "connected-close", "never-started", "refused"])
    head = f"drv.run kind={kind} v={v}"
    if shape == "blocked-close":
        head += " wplan=a5,b"
        steps += ["start", "waitblocked"] + [rng.choice(pubs) for _ in range(rng.choice([1, 3]))] + ["close"]
    elif shape == "close-now":
        steps += ["start", "close"]
    elif shape == "stop-close":
        steps += ["start", "waitwire:1", rng.choice(pubs), "stop", rng.choice(pubs), "close"]
    elif shape == "connected-close":
        head += " answer=" + rng.choice(["0", "1"])
        steps += ["start", "waitwire:1"] + [rng.choice(pubs) for _ in range(rng.choice([1, 4]))] + ["close"]
    elif shape == "refused":
        head += " refuse=50"
        steps += ["start", "sleep:5"] + [rng.choice(pubs) for _ in range(2)] + ["close"]
    else:
        steps += ["close"]
    # submissions racing with and after the close
    for _ in range(rng.choice([1, 2, 4])):
        steps.append(rng.choice(pubs))
    if rng.chance(0.6):
        steps.append(f"burst:{rng.choice([2, 4])}:{rng.choice([3, 10])}:{rng.choice([0, 1])}")
    steps.append(f"sleep:{rng.choice([1, 30])}")
    steps.append(rng.choice(pubs))
    steps.append("waitdone:3000")
    return head + " | " + ";".join(steps), kind, shape


def suite_results(report, tier, seed, prop="C13"):
    rng = Rng(seed, "results")
    n = 30 if tier == "quick" else 800
    cases = [gen_close_race(rng, i) for i in range(n)]
    cases = [("drv.run kind=threaded v=5 wplan=a5,b | start;waitblocked;pub:1:0;close;pub:1:0;pubcb:1:0;sleep:30;pub:1:0;waitdone:3000", "threaded", "blocked-close")] + cases
    impl = harness_batch([c[0] for c in cases])
    mon_ok = True
    slot_reqs = []
    for (req, kind, shape), a in zip(cases, impl):
        report.case(req)
        report.traces_validated += 1
        report.count(f"results.{kind}.{shape}")
        fa, _ = resp_fields(a)
        if fa.get("res") != "ok":
            mon_ok = False
            report.add_finding(Finding(prop, "mon:results", {"clause": "scenario-failed", "kind": kind}, "driver scenario failed: " + a[:160], [req]))
            continue
        for r in [x for x in fa.get("results", "").split(",") if x]:
            idx, outcome = r.split(":", 1)
            report.count("results.outcome." + outcome.split("+")[0])
            if outcome == "unresolved":
                mon_ok = False
                report.add_finding(Finding(prop, "mon:results", {"clause": "unresolved", "kind": kind},
                                           f"{kind} client: operation {idx} never yielded a result (its receiver/future/callback was still waiting 3 s after the client was closed)", [req, "# impl: results=" + fa.get("results", "")]))
                break
            if "+" in outcome:
                mon_ok = False
                report.add_finding(Finding(prop, "mon:results", {"clause": "delivered-twice", "kind": kind},
                                           f"{kind} client: operation {idx} yielded more than one result ({outcome})", [req, "# impl: results=" + fa.get("results", "")]))
                break
    report.obligation("mon:results", "monitor", mon_ok, f"{len(cases)} stop/close races on the real clients (submissions before, during and after close, concurrent submitters): every operation resolved exactly once")
