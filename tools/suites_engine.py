"""Engine walks: implementation vs model (step-exact correspondence) and per-property monitors."""
import os, json
from gv import Rng, Finding, Proc, HARNESS_BIN, DRIVER_BIN, driver_batch, parse_kv, kv_get, resp_fields, unhex, hexs
from walk import Walk


def canon(line):
    """canonical form of a response line for comparison (see DESIGN: hash order, panic messages)"""
    f, segs = resp_fields(line)
    if not f:
        return line
    res = f.get("res", "")
    if res.startswith("panic"):
        return "res=panic"
    if "comps" in f:
        f["comps"] = ",".join(sorted(x for x in f["comps"].split(",") if x))
    if "state" in f and f.get("state") in ("Disconnected", "PendingConnack", "Halted"):
        for q in ("userq", "resubq"):
            if q in f:
                f[q] = "+".join(sorted(f[q].split("+"), key=lambda s: int(s) if s else 0))
    head = " ".join(f"{k}={v}" for k, v in f.items())
    # the op= entries are repeated keys: keep the raw tail for them
    ops = [p for p in segs[0:0]]
    raw_ops = " ".join(p for p in line.split(" | ")[0].split(" ") if p.startswith("op="))
    return " | ".join([head + (" " + raw_ops if raw_ops else "")] + segs)


def run_walks(seed, tier, label, n_quick, n_thorough, adversarial=False, strict=False, length=80, snap_after_svc=False, replay_model=True, profile=None, plans=False, plan_policies=False):
    rng = Rng(seed, "walks:" + label)
    n = n_quick if tier == "quick" else n_thorough
    h = Proc([HARNESS_BIN], "harness")
    walks = []
    try:
        for i in range(n):
            h.ask("session.reset")
            w = Walk(Rng(seed, f"walk:{label}:{i}"), h, adversarial=adversarial or (i % 3 == 2), strict_driver=strict,
                     length=rng.choice([40, length, length * 2, length * 4]), snap_after_svc=snap_after_svc or (i % 4 == 1),
                     profile=profile(i) if profile else ("backlog" if i % 5 == 3 else ("qos2tiny" if i % 5 == 4 else "default")))
            w.run()
            walks.append(w)
        if plans:
            # the planned interruptions: every stage of every kind of operation, on two connections in a row
            from walk import PlanWalk, plan_matrix
            for j, pl in enumerate(plan_matrix(tier, plan_policies)):
                h.ask("session.reset")
                w = PlanWalk(Rng(seed, f"plan:{j}"), h, pl)
                w.run()
                walks.append(w)
    finally:
        h.close()
    if not replay_model:
        for w in walks:
            w.model = []
            w.first_diff = None
        return walks
    # model replay, all walks in one batch
    reqs = []
    for w in walks:
        reqs.append("session.reset")
        reqs += w.script
    model = driver_batch(reqs)
    pos = 0
    for w in walks:
        pos += 1
        w.model = model[pos:pos + len(w.script)]
        pos += len(w.script)
        w.first_diff = None
        for i, (a, b) in enumerate(zip(w.out, w.model)):
            if canon(a) != canon(b):
                w.first_diff = i
                break
            if a.startswith("res=panic") or a == "res=died":
                break
    return walks


def correspondence(report, walks, prop, label="corr:engine"):
    ok = True
    steps = 0
    for w in walks:
        steps += len(w.script)
        report.case("|".join(w.script))
        report.traces_validated += 1
        for n in w.notes:
            report.count("walk." + n.get("kind", "?"))
        for o in w.out:
            report.count("walk.res." + resp_fields(o)[0].get("res", "?").split(":")[0])
        if w.first_diff is not None:
            ok = False
            i = w.first_diff
            report.add_finding(Finding(prop, label, {"clause": "model-vs-impl", "verb": w.script[i].split(" ")[0],
                                                     "impl": resp_fields(w.out[i])[0].get("res", "?"),
                                                     "model": resp_fields(w.model[i])[0].get("res", "?")},
                                       "engine walk: implementation and model disagree at step %d" % i,
                                       w.script[:i + 1] + ["# impl:  " + w.out[i][:600], "# model: " + w.model[i][:600]], has_input=False))
    report.obligation(label, "correspondence", ok, f"{len(walks)} walks, {steps} steps compared step by step (bytes, results, completions, events, snapshots)")
    if walks:
        w = walks[0]
        report.sample({"script": w.script[:12], "impl": w.out[:12]})
    return ok


def monitor(report, walks, prop, digests=None, label=None):
    """run the property's monitor over every walk; findings carry the script prefix as replay"""
    import monitors as M
    ok = True
    fn = M.MONITORS[prop]
    for w in walks:
        if not hasattr(w, "digest"):
            w.digest = M.digest(w)
        for clause, detail, step in fn(w, w.digest):
            ok = False
            sig = {"clause": clause}
            sig.update(classify(prop, clause, detail, w, step))
            report.add_finding(Finding(prop, "mon:" + prop, sig, detail,
                                       w.script[:step + 1] + ["# impl: " + w.out[step][:400], "# " + detail]))
    if label is None:
        report.obligation("mon:" + prop, "monitor", ok, f"{len(walks)} implementation traces judged")
    else:
        report.count("search.walks", len(walks))
    return ok


def classify(prop, clause, detail, w, step):
    """stable, structural part of a finding's signature (used to match known findings)"""
    sig = {}
    verb = w.script[step].split(" ")[0] if step < len(w.script) else ""
    sig["verb"] = verb
    return sig


def run_strict_walks(seed, tier, n_quick, n_thorough):
    from walk import StrictWalk
    rng = Rng(seed, "strict")
    n = n_quick if tier == "quick" else n_thorough
    h = Proc([HARNESS_BIN], "harness")
    walks = []
    try:
        for i in range(n):
            h.ask("session.reset")
            w = StrictWalk(Rng(seed, f"strict:{i}"), h, adversarial=False, length=rng.choice([30, 60, 120]),
                           profile="backlog" if i % 4 == 3 else "default")
            w.run()
            walks.append(w)
    finally:
        h.close()
    reqs = []
    for w in walks:
        reqs.append("session.reset")
        reqs += w.script
    model = driver_batch(reqs)
    pos = 0
    for w in walks:
        pos += 1
        w.model = model[pos:pos + len(w.script)]
        pos += len(w.script)
        w.first_diff = None
        for i, (a, b) in enumerate(zip(w.out, w.model)):
            if canon(a) != canon(b):
                w.first_diff = i
                break
    return walks


def monitor_strict(report, walks, prop="C08"):
    ok = True
    resolved = 0
    for w in walks:
        for clause, detail, step in w.violations:
            ok = False
            report.add_finding(Finding(prop, "mon:C08", {"clause": clause}, detail, w.script[:step + 1] + ["# " + detail]))
        for i, o in enumerate(w.out):
            if o.startswith("res=panic") or o == "res=died":
                ok = False
                report.add_finding(Finding(prop, "mon:C08", {"clause": "panic"}, "engine panicked under a time-following driver", w.script[:i + 1]))
        resolved += w.nuser - len(w.unresolved_retained())
    report.count("strict.operations-resolved", resolved)
    report.obligation("mon:C08", "monitor", ok, f"{len(walks)} runs of a driver that services only at reported times against a responsive broker: no lost wake-up, no idle spin")
    return ok


# ------------------------------------------------------------------------------------------------
# bounded-exhaustive correspondence: every sequence of events over a small alphabet, up to a depth
# ------------------------------------------------------------------------------------------------

ALPHABET = [
    "eng.pub t={t} | publish pid=0 topic=x742f30 qos=0 retain=0 payload=x0000",
    "eng.pub t={t} timeout=500 | publish pid=0 topic=x742f31 qos=1 retain=0 payload=x0001",
    "eng.pub t={t} | publish pid=0 topic=x742f32 qos=2 retain=0 payload=x0002",
    "eng.sub t={t} | subscribe pid=0 sub=x662f30:1:0:0:0",
    "eng.disc t={t} | disconnect rc=0",
    "eng.open t={t} deadline={d}",
    "eng.close t={t}",
    "eng.svc t={t} cap=4096 prefill=0",
    "eng.svc t={t} cap=5 prefill=0",
    "eng.wc t={t}",
    "eng.data t={t} b=x2003000000",          # CONNACK, no session
    "eng.data t={t} b=x2003010000",          # CONNACK, session present
    "eng.data t={t} b=x40020001",            # PUBACK 1
    "eng.data t={t} b=x50020001",            # PUBREC 1
    "eng.data t={t} b=x70020001",            # PUBCOMP 1
    "eng.data t={t} b=x9004000100",          # SUBACK 1
    "eng.data t={t} b=x34070001610002",      # inbound QoS 2 PUBLISH id 2
    "eng.data t={t} b=x62020002",            # PUBREL 2
    "eng.data t={t} b=xd000",                # PINGRESP
    "eng.data t={t} b=xff",                  # garbage
    "eng.reset t={t}",
    "TIME+1000",
    "TIME+100000",
]


def exhaustive(report, prop, depth, label="exhaustive"):
    """all event sequences of the given depth over ALPHABET, from a fresh engine, for a few configurations; the
    implementation and the model must agree on every response (and the implementation must never panic)"""
    import itertools
    from gv import harness_batch
    configs = ["eng.new v=5 policy=all | ka=60 rejoin=always cid=x63",
               "eng.new v=5 policy=nothing drain=one retries=1 | ka=1 rejoin=post",
               "eng.new v=311 policy=acked | ka=0 rejoin=never cid=x63"]
    ok, nopanic = True, True
    bad = 0
    nseq_total, nsteps_total = 0, 0
    # in chunks (one configuration and one first event at a time) so that memory stays bounded at depth 4 and above
    for cfg in configs:
        for first in range(len(ALPHABET)):
            reqs, starts = [], []
            for tail in itertools.product(range(len(ALPHABET)), repeat=depth - 1):
                seq = (first,) + tail
                t = 0
                starts.append(len(reqs))
                reqs.append("session.reset")
                reqs.append(cfg)
                for a in seq:
                    ev = ALPHABET[a]
                    if ev.startswith("TIME+"):
                        t += int(ev[5:])
                        reqs.append(f"eng.nst t={t}")
                    else:
                        reqs.append(ev.format(t=t, d=t + 30000))
            impl = harness_batch(reqs)
            model = driver_batch(reqs)
            nseq = len(starts)
            nseq_total += nseq
            nsteps_total += len(reqs)
            for k, st in enumerate(starts):
                end = starts[k + 1] if k + 1 < nseq else len(reqs)
                for i in range(st, end):
                    a, b = impl[i], model[i]
                    if a.startswith("res=panic") or a == "res=died":
                        if bad < 3:
                            report.add_finding(Finding(prop, "mon:" + label, {"clause": "panic"}, "engine panicked on a short event sequence: " + a[:120], reqs[st + 1:i + 1]))
                        nopanic = False
                        bad += 1
                        break
                    if canon(a) != canon(b):
                        if bad < 3:
                            report.add_finding(Finding(prop, "corr:" + label, {"clause": "model-vs-impl", "verb": reqs[i].split(" ")[0]},
                                                       "short event sequence: implementation and model disagree", reqs[st + 1:i + 1] + ["# impl:  " + a[:400], "# model: " + b[:400]], has_input=False))
                        ok = False
                        bad += 1
                        break
    nseq = nseq_total
    reqs = [None] * nsteps_total
    report.count(label + ".sequences", nseq)
    report.count(label + ".steps", len(reqs))
    report.evaluations += nseq
    report.obligation("corr:" + label, "correspondence", ok, f"all {nseq} event sequences of depth {depth} over a {len(ALPHABET)}-event alphabet x {len(configs)} configurations, every response compared")
    report.obligation("mon:" + label + "-no-panic", "monitor", nopanic, "no panic on any of them")
    return ok and nopanic



def pubrel_race_family(report, prop, label="pubrel-race"):
    """acknowledgements that arrive while the PUBREL of a QoS 2 publish is queued, half written or just written:
    every buffer split x every ack kind x both versions; implementation = model on every response, and no panic"""
    from gv import harness_batch
    scripts = []
    for v in ("5", "311"):
        connack = "x20020000" if v == "311" else "x2003000000"
        for cap in (4, 5, 6, 7, 8, 12):
            for pre in range(0, cap + 1):
                for ack in ("pubcomp", "pubrec-fail", "pubrec-again", "puback", "none"):
                    for tail in ("svc", "wc-svc", "close-open"):
                        if v == "311":
                            pk = {"pubcomp": "x70020001", "pubrec-fail": "x50020001", "pubrec-again": "x50020001", "puback": "x40020001", "none": None}[ack]
                        else:
                            pk = {"pubcomp": "x70020001", "pubrec-fail": "x5003000180", "pubrec-again": "x50020001", "puback": "x40020001", "none": None}[ack]
                        sc = [f"eng.new v={v} policy=all drain=none pingto=1000 resolver=none rmax=2 | ka=60 cid=x636c6b rm=10 rejoin=always",
                              "eng.open t=0 deadline=1000", "eng.svc t=0 cap=4096 prefill=0", "eng.wc t=0", f"eng.data t=0 b={connack}",
                              "eng.pub t=0 | publish pid=0 topic=x742f30 qos=2 retain=0 payload=x0000",
                              "eng.svc t=0 cap=4096 prefill=0", "eng.wc t=0", "eng.data t=0 b=x50020001",
                              f"eng.svc t=1 cap={cap} prefill={pre}", "eng.snap"]
                        if pk:
                            sc.append(f"eng.data t=1 b={pk}")
                        if tail == "svc":
                            sc += ["eng.svc t=2 cap=4096 prefill=0", "eng.snap"]
                        elif tail == "wc-svc":
                            sc += ["eng.wc t=2", "eng.svc t=2 cap=4096 prefill=0", "eng.snap"]
                        else:
                            sc += ["eng.close t=2", "eng.snap", "eng.open t=3 deadline=1000", "eng.svc t=3 cap=4096 prefill=0", "eng.wc t=3",
                                   f"eng.data t=3 b={'x20020100' if v == '311' else 'x2003010000'}", "eng.svc t=4 cap=4096 prefill=0", "eng.snap"]
                        sc += ["eng.reset t=9", "eng.snap"]
                        scripts.append(sc)
    reqs, starts = [], []
    for sc in scripts:
        starts.append(len(reqs))
        reqs.append("session.reset")
        reqs += sc
    impl = harness_batch(reqs)
    model = driver_batch(reqs)
    ok, nopanic, bad = True, True, 0
    mbad = 0
    for k, st in enumerate(starts):
        end = starts[k + 1] if k + 1 < len(starts) else len(reqs)
        report.case("|".join(reqs[st + 1:end]))
        for i in range(st, end):
            a = impl[i]
            if a.startswith("res=panic") or a == "res=died":
                if bad < 3:
                    report.add_finding(Finding(prop, "mon:" + label, {"clause": "panic", "verb": reqs[i].split(" ")[0]},
                                               "engine panicked: an acknowledgement arrived while the PUBREL was queued / half written: " + a[:120], reqs[st + 1:i + 1]))
                nopanic = False
                bad += 1
                break
        for i in range(st, end):
            a, b = impl[i], model[i]
            if a.startswith("res=panic") or a == "res=died":
                break
            if canon(a) != canon(b):
                if mbad < 6:
                    report.add_finding(Finding(prop, "corr:" + label, {"clause": "model-vs-impl", "verb": reqs[i].split(" ")[0]},
                                               "PUBREL race scenario: implementation and model disagree", reqs[st + 1:i + 1] + ["# impl:  " + a[:400], "# model: " + b[:400]], has_input=False))
                ok = False
                mbad += 1
                break
    # the wire, connection by connection: the PUBREL of packet id 1 goes out at most once per connection, whatever the server
    # repeats (C04: neither packet is ever repeated within one connection); a second PUBREC for a delivery whose PUBREC has
    # already been received is a mismatched acknowledgement and must fail the connection (C11)
    from walk import split_packets
    from gv import resp_fields, unhex
    once, wbad = True, 0
    for k, st in enumerate(starts):
        end = starts[k + 1] if k + 1 < len(starts) else len(reqs)
        stream, pubrels, conn = b"", 0, 1
        for i in range(st, end):
            q = reqs[i]
            f, _ = resp_fields(impl[i])
            if q.startswith("eng.open"):
                stream, pubrels = b"", 0
                conn += 1
            if f.get("bytes", "x") != "x":
                stream += unhex(f["bytes"])
                pkts, _, _ = split_packets(stream)
                n = sum(1 for first, body in pkts if first >> 4 == 6 and body[:2] == b"\x00\x01")
                if n > 1 and n > pubrels:
                    once = False
                    if wbad < 4:
                        report.add_finding(Finding(prop, "mon:" + label + "-once", {"clause": "pubrel-repeated-within-connection"},
                                                   f"the PUBREL for packet id 1 was written {n} times on one connection", reqs[st + 1:i + 1] + ["# impl: " + impl[i][:200]]))
                    wbad += 1
                pubrels = n
        # the repeated PUBREC itself
        for i in range(st, end):
            if reqs[i].startswith("eng.data t=1 b=x50020001") and "pubrec" in "pubrec":
                f, _ = resp_fields(impl[i])
                if f.get("res") == "ok":
                    once = False
                    if wbad < 8:
                        report.add_finding(Finding(prop, "mon:" + label + "-once", {"clause": "violation-accepted", "what": "second-pubrec"},
                                                   "a second successful PUBREC for a delivery whose PUBREC had already been received was accepted (and queues the PUBREL again)", reqs[st + 1:i + 1] + ["# impl: " + impl[i][:200]]))
                    wbad += 1
    report.count(label + ".scenarios", len(scripts))
    report.obligation("corr:" + label, "correspondence", ok, f"{len(scripts)} scripted scenarios (buffer splits x ack kinds x continuations x versions), every response compared")
    report.obligation("mon:" + label + "-no-panic", "monitor", nopanic, "no panic on any of them")
    report.obligation("mon:" + label + "-once", "monitor", once, "the PUBREL is written at most once per connection; a repeated PUBREC is refused")
    return ok and nopanic and once


def due_timeout_family(report, prop, label="due-timeout-while-writing"):
    """an operation's ack timeout falls due while another operation (whose own record is earlier) is half written and the
    socket has not yet taken the bytes: the reported next-service time must not be later than that due timeout, and the
    service call at that time applies it.  Every buffer split x both versions x which operation is half written."""
    from gv import harness_batch, resp_fields
    scripts = []
    for v in ("5", "311"):
        connack = "x20020000" if v == "311" else "x2003000000"
        for cap in (4, 5, 6, 8):
            for pre in range(0, cap - 3):
                for gap in (5, 40):
                    # A: QoS 2 publish, ack timeout 10 (record at t=0+10 once the PUBLISH is written, re-armed when the PUBREL is);
                    # B: subscribe with ack timeout 10+gap, written at t=0
                    sc = [f"eng.new v={v} policy=all drain=none pingto=100000 resolver=none rmax=2 | ka=0 cid=x636c6b rm=10",
                          "eng.open t=0 deadline=1000", "eng.svc t=0 cap=4096 prefill=0", "eng.wc t=0", f"eng.data t=0 b={connack}",
                          "eng.pub t=0 timeout=10 | publish pid=0 topic=x742f30 qos=2 retain=0 payload=x0000",
                          f"eng.sub t=0 timeout={10 + gap} | subscribe pid=0 sub=x662f30:1:0:0:0",
                          "eng.svc t=0 cap=4096 prefill=0", "eng.wc t=0", "eng.data t=1 b=x50020001",
                          f"eng.svc t=2 cap={cap} prefill={pre}", "eng.snap", "eng.nst t=3"]
                    scripts.append((sc, 10 + gap))
    reqs, starts = [], []
    for sc, _ in scripts:
        starts.append(len(reqs))
        reqs.append("session.reset")
        reqs += sc
    impl = harness_batch(reqs)
    model = driver_batch(reqs)
    ok, mon, bad, judged = True, True, 0, 0
    mbad = 0
    for k, st in enumerate(starts):
        end = starts[k + 1] if k + 1 < len(starts) else len(reqs)
        report.case("|".join(reqs[st + 1:end]))
        for i in range(st, end):
            if canon(impl[i]) != canon(model[i]):
                if bad < 4:
                    report.add_finding(Finding(prop, "corr:" + label, {"clause": "model-vs-impl", "verb": reqs[i].split(" ")[0]},
                                               "due-timeout scenario: implementation and model disagree", reqs[st + 1:i + 1] + ["# impl:  " + impl[i][:400], "# model: " + model[i][:400]], has_input=False))
                ok = False
                bad += 1
                break
        snap, _ = resp_fields(impl[end - 2])
        nst, _ = resp_fields(impl[end - 1])
        due = scripts[k][1]
        # the subscribe (operation 3; the CONNECT is 1, the publish 2) still has its record, the engine is Connected, and the PUBREL is half written with the write pending
        if snap.get("state") == "Connected" and snap.get("cur") not in (None, "none") and f"3:{due}" in snap.get("timeouts", "") and snap.get("pwc") == "1":
            judged += 1
            nxt = nst.get("next")
            if nxt in (None, "never") or int(nxt) > due:
                mon = False
                if mbad < 6:
                    report.add_finding(Finding(prop, "mon:" + label, {"clause": "due-timeout-not-reported"},
                                               f"the subscribe's ack timeout is due at {due} ms, the PUBREL of another operation is half written: next service time reported is {nxt}",
                                               reqs[st + 1:end]))
                mbad += 1
    report.count(label + ".scenarios", len(scripts))
    report.count(label + ".judged", judged)
    report.obligation("corr:" + label, "correspondence", ok, f"{len(scripts)} scripted scenarios, every response compared")
    report.obligation("mon:" + label, "monitor", mon and judged > 0, f"{judged} states with a half-written operation and another operation's timeout pending: the reported time is not later than that timeout")
    return ok and mon


def ping_behind_large_publish_family(report, prop="C14", label="ping-behind-publish"):
    """a ping falls due while a publish that needs many buffers is being written (writes complete, one per step): the
    PINGREQ waits behind it.  The server cannot answer a PINGREQ it has not been sent: no keep-alive failure before a
    PINGREQ has been on the wire for min(ping timeout, K/2), whatever buffer size and pace.  K = 1 s, ping timeout 30 s."""
    from gv import harness_batch, resp_fields, unhex
    scripts = []
    for v in ("5", "311"):
        connack = "x20020000" if v == "311" else "x2003000000"
        for cap in (16, 64, 256):
            for pace in (50, 150, 400):
                size = cap * 14
                sc = [f"eng.new v={v} policy=all drain=none pingto=30000 resolver=none rmax=2 | ka=1 cid=x636c6b",
                      "eng.open t=0 deadline=1000", "eng.svc t=0 cap=4096 prefill=0", "eng.wc t=0", f"eng.data t=0 b={connack}",
                      f"eng.pub t=900 | publish pid=0 topic=x742f30 qos=1 retain=0 payload=x{'00' * size}"]
                t = 900
                for _ in range(18):
                    sc += [f"eng.svc t={t} cap={cap} prefill=0", f"eng.wc t={t + pace - 1}"]
                    t += pace
                scripts.append(sc)
    reqs, starts = [], []
    for sc in scripts:
        starts.append(len(reqs))
        reqs.append("session.reset")
        reqs += sc
    impl = harness_batch(reqs)
    model = driver_batch(reqs)
    ok, mon, bad = True, True, 0
    mbad = 0
    for k, st in enumerate(starts):
        end = starts[k + 1] if k + 1 < len(starts) else len(reqs)
        report.case("|".join(x[:80] for x in reqs[st + 1:end]))
        for i in range(st, end):
            if canon(impl[i]) != canon(model[i]):
                if bad < 4:
                    report.add_finding(Finding(prop, "corr:" + label, {"clause": "model-vs-impl", "verb": reqs[i].split(" ")[0]},
                                               "ping behind a large publish: implementation and model disagree", [x[:200] for x in reqs[st + 1:i + 1]] + ["# impl:  " + impl[i][:300], "# model: " + model[i][:300]], has_input=False))
                ok = False
                bad += 1
                break
        # the wire of this connection, step by step; the time the first complete PINGREQ (c0 00) left the client
        wire = b""
        ping_written_at = None
        for i in range(st, end):
            f, _ = resp_fields(impl[i])
            if reqs[i].startswith("eng.svc"):
                t = int(reqs[i].split("t=")[1].split(" ")[0])
                before = len(wire)
                wire += unhex(f.get("bytes", "x")) if f.get("bytes") else b""
                if ping_written_at is None:
                    from walk import split_packets
                    pkts, _, _ = split_packets(wire)
                    if any(first == 0xC0 for first, _ in pkts):
                        ping_written_at = t
                if f.get("res", "").startswith("err:ConnectionClosed") and (ping_written_at is None or t < ping_written_at + 500):
                    mon = False
                    if mbad < 6:
                        report.add_finding(Finding(prop, "mon:" + label, {"clause": "live-peer-timed-out"},
                                                   f"keep-alive failure at {t} ms: " + ("no PINGREQ has left the client yet" if ping_written_at is None else f"the PINGREQ went out at {ping_written_at} ms, the server has until {ping_written_at + 500} ms")
                                                   + f" ({len(wire)} bytes written so far, the publish still being sent)", [x[:200] for x in reqs[st + 1:i + 1]]))
                    mbad += 1
                    break
    report.count(label + ".scenarios", len(scripts))
    report.obligation("corr:" + label, "correspondence", ok, f"{len(scripts)} scripted scenarios (versions x buffer sizes x write pace), every response compared")
    report.obligation("mon:" + label, "monitor", mon, "no keep-alive failure before a PINGREQ has been on the wire for min(ping timeout, K/2)")
    return ok and mon


def delayed_ping_spin_family(report, prop="C08", label="delayed-ping"):
    """a PINGREQ falls due while a publish that needs many buffers is being written, one buffer per second: it waits, is written
    late, and its PINGRESP is awaited.  At every moment the driver asks for the next service time; whenever the engine says
    'now' (or earlier) a service call must do something: produce bytes, complete something or change state.  Keep alive
    10 s / 4 s, both versions."""
    from gv import harness_batch, resp_fields
    scripts = []
    for v in ("5", "311"):
        connack = "x20020000" if v == "311" else "x2003000000"
        for ka, nbuf in ((10, 8), (4, 6), (10, 3)):
            size = 4096 * nbuf - 100
            t0 = ka * 1000 - 1000
            sc = [f"eng.new v={v} policy=all drain=none pingto=30000 resolver=none rmax=2 | ka={ka} cid=x636c6b",
                  "eng.open t=0 deadline=1000", "eng.svc t=0 cap=4096 prefill=0", "eng.wc t=0", f"eng.data t=0 b={connack}",
                  f"eng.pub t={t0} | publish pid=0 topic=x742f30 qos=0 retain=0 payload=x{'00' * size}"]
            t = t0
            for _ in range(nbuf):
                # one buffer per second: the write completes 999 ms after it was handed out
                sc += [f"eng.svc t={t} cap=4096 prefill=0", f"eng.wc t={t + 999}"]
                t += 1000
            for _ in range(ka + 2):
                # everything has been written (the PINGREQ rode in the last buffer); now the driver only asks and services
                sc += ["eng.snap", f"eng.nst t={t}", f"eng.svc t={t} cap=4096 prefill=0", "eng.snap", f"eng.nst t={t}"]
                t += 500
            scripts.append(sc)
    reqs, starts = [], []
    for sc in scripts:
        starts.append(len(reqs))
        reqs.append("session.reset")
        reqs += sc
    impl = harness_batch(reqs)
    model = driver_batch(reqs)
    ok, mon, bad = True, True, 0
    mbad = 0
    for k, st in enumerate(starts):
        end = starts[k + 1] if k + 1 < len(starts) else len(reqs)
        report.case("|".join(x[:60] for x in reqs[st + 1:end]))
        for i in range(st, end):
            if canon(impl[i]) != canon(model[i]):
                if bad < 4:
                    report.add_finding(Finding(prop, "corr:" + label, {"clause": "model-vs-impl", "verb": reqs[i].split(" ")[0]},
                                               "delayed ping scenario: implementation and model disagree", [x[:160] for x in reqs[st + 1:i + 1]] + ["# impl:  " + impl[i][:300], "# model: " + model[i][:300]], has_input=False))
                ok = False
                bad += 1
                break
        # pattern: snap, nst(next <= t), svc at t with no output and no completion, snap identical, nst(next <= t) again
        for i in range(st, end - 4):
            if reqs[i] == "eng.snap" and reqs[i + 1].startswith("eng.nst") and reqs[i + 2].startswith("eng.svc") and reqs[i + 3] == "eng.snap" and reqs[i + 4].startswith("eng.nst"):
                t = int(reqs[i + 1].split("t=")[1])
                n1, _ = resp_fields(impl[i + 1])
                sv, _ = resp_fields(impl[i + 2])
                n2, _ = resp_fields(impl[i + 4])
                due = lambda n: n.get("next") not in (None, "never") and int(n["next"]) <= t
                if due(n1) and sv.get("res") == "ok" and sv.get("bytes", "x") == "x" and not sv.get("comps") and impl[i] == impl[i + 3] and due(n2):
                    mon = False
                    if mbad < 6:
                        report.add_finding(Finding(prop, "mon:" + label, {"clause": "idle-spin"},
                                                   f"at {t} ms the engine reports a service time of {n1['next']} ms, the service call produces nothing, completes nothing and changes no state, "
                                                   f"and the reported time stays {n2['next']} ms: a driver spins until the PINGRESP arrives", [x[:160] for x in reqs[st + 1:i + 5]]))
                    mbad += 1
                    break
    report.count(label + ".scenarios", len(scripts))
    report.obligation("corr:" + label, "correspondence", ok, f"{len(scripts)} scripted scenarios, every response compared")
    report.obligation("mon:" + label, "monitor", mon, "whenever the reported service time is now or earlier, a service call makes progress")
    return ok and mon


def trailing_empty_field_family(report, prop="C08", label="trailing-empty-field"):
    """packets whose last field is empty (a PUBLISH with a present but empty payload, the CONNECT of a client without client
    id) written through buffers that fill up exactly where the packet's last byte goes.  A minimal driver services the engine,
    reports a write completion for every buffer that carried bytes, and stops when a service call produces nothing.  What the
    application and the server see must not depend on the buffer size: the same history with a 4096-byte buffer is the
    reference - the QoS 0 result arrives with the write completion of the packet's last byte, the acknowledgement / CONNACK
    of a completely written packet is accepted, a QoS 2 publish completely on the wire is retransmitted (DUP, same id) on a
    resumed session."""
    import gv
    from gv import resp_fields
    proc = gv.Proc([gv.HARNESS_BIN], "harness")
    def drive(lines, t, cap, pre, log):
        """service / write completion until nothing more is produced; returns the time afterwards"""
        for _ in range(40):
            q = f"eng.svc t={t} cap={cap} prefill={pre}"
            r = proc.ask(q); log.append((q, r))
            f, _ = resp_fields(r)
            t += 1
            if f.get("res") != "ok" or f.get("bytes", "x") == "x":
                break
            q = f"eng.wc t={t}"
            r = proc.ask(q); log.append((q, r))
        return t
    def run(v, kind, cap, pre):
        connack = "x20020000" if v == "311" else "x2003000000"
        resumed = "x20020100" if v == "311" else "x2003010000"
        cid = "" if kind == "connect" else " cid=x63"
        log = []
        def say(q):
            log.append((q, proc.ask(q)))
        say("session.reset")
        say(f"eng.new v={v} policy=all drain=none pingto=100000 resolver=none rmax=2 | ka=0 rejoin=always{cid}")
        say("eng.open t=0 deadline=30000")
        t = drive(None, 0, 4096, 0, log)
        say(f"eng.data t={t} b={connack}")
        if kind == "connect":
            say(f"eng.close t={t + 1}")
            say(f"eng.open t={t + 2} deadline=60000")
            t = drive(None, t + 3, cap, pre, log)
            say(f"eng.data t={t} b={connack}")
            say("eng.snap")
            return log
        qos = {"qos0": 0, "qos1": 1, "qos2": 2}[kind]
        say(f"eng.pub t={t} | publish pid=0 topic=x742f31 qos={qos} retain=0 payload=x")
        t = drive(None, t + 1, cap, pre, log)
        if qos == 0:
            say(f"eng.nst t={t}")
        elif qos == 1:
            say(f"eng.data t={t} b=x40020001")
        else:
            say(f"eng.close t={t}")
            say(f"eng.open t={t + 1} deadline=90000")
            t = drive(None, t + 2, 4096, 0, log)
            say(f"eng.data t={t} b={resumed}")
            t = drive(None, t + 1, 4096, 0, log)
        say("eng.snap")
        return log
    def outcome(log):
        out_bytes, comps, data_res, nst = "", [], [], []
        for q, r in log:
            f, _ = resp_fields(r)
            if q.startswith(("eng.svc", "eng.wc", "eng.data", "eng.close", "eng.pub")):
                if f.get("bytes", "x") != "x":
                    out_bytes += f["bytes"][1:]
                comps += [x for x in f.get("comps", "").split(",") if x]
            if q.startswith("eng.data"):
                data_res.append(f.get("res"))
            if q.startswith("eng.nst"):
                nst.append("never" if f.get("next") == "never" else "some")
        snap, _ = resp_fields(log[-1][1])
        return {"bytes": out_bytes, "comps": sorted(comps), "data": data_res, "state": snap.get("state"), "ops": snap.get("ops"), "pwcops": snap.get("pwcops"), "nst": nst}
    cases = []
    for v in ("5", "311"):
        for kind in ("qos0", "qos1", "qos2", "connect"):
            if kind == "connect" and v == "5":
                continue   # an MQTT 5 CONNECT ends with the (empty) client id as well; the alignment is the same
            for cap in range(4, 26):
                for pre in (0, 1, 3):
                    if pre + 4 <= cap:
                        cases.append((v, kind, cap, pre))
    ok, mon, bad = True, True, 0
    mbad = 0
    refs = {}
    all_reqs, spans = [], []
    results = []
    for v, kind, cap, pre in cases:
        if (v, kind) not in refs:
            refs[(v, kind)] = run(v, kind, 4096, 0)
        log = run(v, kind, cap, pre)
        results.append(log)
        spans.append((len(all_reqs), len(all_reqs) + len(log)))
        all_reqs += [q for q, _ in log]
    proc.close()
    model = driver_batch(all_reqs)
    for k, (v, kind, cap, pre) in enumerate(cases):
        log = results[k]
        a0, a1 = spans[k]
        report.case("|".join(q for q, _ in log[1:]))
        report.traces_validated += 1
        report.count(label + "." + kind)
        for j, (q, r) in enumerate(log):
            if canon(r) != canon(model[a0 + j]):
                ok = False
                if bad < 4:
                    report.add_finding(Finding(prop, "corr:" + label, {"clause": "model-vs-impl", "verb": q.split(" ")[0]},
                                               "trailing-empty-field scenario: implementation and model disagree", [x for x, _ in log[1:j + 1]] + ["# impl:  " + r[:300], "# model: " + model[a0 + j][:300]], has_input=False))
                bad += 1
                break
        tight, ample = outcome(log), outcome(refs[(v, kind)])
        if tight != ample:
            mon = False
            diff = ", ".join(f"{key}: {tight[key]} instead of {ample[key]}" for key in tight if tight[key] != ample[key] and key != "bytes")
            if tight["bytes"] != ample["bytes"]:
                diff += f"; bytes on the wire differ ({len(tight['bytes']) // 2} vs {len(ample['bytes']) // 2} bytes)"
            if mbad < 6:
                report.add_finding(Finding(prop, "mon:" + label, {"clause": "outcome-depends-on-buffer-size", "kind": kind, "version": v},
                                           f"MQTT {'3.1.1' if v == '311' else '5'} {kind}: with a {cap}-byte buffer ({pre} bytes taken) the history ends differently from the same history with a 4096-byte buffer: {diff}",
                                           [x for x, _ in log[1:]] + ["# outcome:   " + str({k2: v2 for k2, v2 in tight.items() if k2 != 'bytes'})[:300], "# reference: " + str({k2: v2 for k2, v2 in ample.items() if k2 != 'bytes'})[:300]]))
            mbad += 1
    report.count(label + ".scenarios", len(cases))
    report.obligation("corr:" + label, "correspondence", ok, f"{len(cases)} driven histories, every response compared with the model's")
    report.obligation("mon:" + label, "monitor", mon, "bytes, completions, verdicts on the server's packets and the final state are those of the same history with an ample buffer")
    return ok and mon


def session_present_family(report, prop="C11", label="session-present-vs-clean-start"):
    """a CONNACK with Session Present = 1 answering a CONNECT with Clean Start / CleanSession = 1 is a protocol violation by
    the server ([MQTT-3.2.2-1/-2]; an MQTT 5 client MUST close, [MQTT-3.2.2-4]): it must fail the connection, not be taken for a
    resumed session.  Answering a CONNECT that asked to resume, the same CONNACK is fine.  The clean flag is read off the
    CONNECT bytes the engine wrote."""
    from gv import harness_batch, resp_fields, unhex
    scripts = []
    for v in ("5", "311"):
        sp1 = "x20020100" if v == "311" else "x2003010000"
        sp0 = "x20020000" if v == "311" else "x2003000000"
        for rejoin in ("never", "post", "always"):
            for cid in ("cid=x63", ""):
                base = [f"eng.new v={v} policy=all drain=none pingto=100000 resolver=none rmax=2 | ka=0 rejoin={rejoin} {cid}".rstrip(), "eng.open t=0 deadline=30000", "eng.svc t=0 cap=4096 prefill=0", "eng.wc t=0"]
                # first connection answered with Session Present = 1
                scripts.append(base + [f"eng.data t=1 b={sp1}", "eng.snap"])
                # first connection fine, second one answered with Session Present = 1
                scripts.append(base + [f"eng.data t=1 b={sp0}", "eng.close t=2", "eng.open t=3 deadline=60000", "eng.svc t=3 cap=4096 prefill=0", "eng.wc t=3", f"eng.data t=4 b={sp1}", "eng.snap"])
    reqs, starts = [], []
    for sc in scripts:
        starts.append(len(reqs))
        reqs.append("session.reset")
        reqs += sc
    impl = harness_batch(reqs)
    model = driver_batch(reqs)
    ok, mon, bad, cbad, judged = True, True, 0, 0, {"refuse": 0, "accept": 0}
    for k, st in enumerate(starts):
        end = starts[k + 1] if k + 1 < len(starts) else len(reqs)
        report.case("|".join(reqs[st + 1:end]))
        report.traces_validated += 1
        for i in range(st, end):
            if canon(impl[i]) != canon(model[i]):
                if cbad < 4:
                    report.add_finding(Finding(prop, "corr:" + label, {"clause": "model-vs-impl", "verb": reqs[i].split(" ")[0]},
                                               "session-present scenario: implementation and model disagree", reqs[st + 1:i + 1] + ["# impl:  " + impl[i][:300], "# model: " + model[i][:300]], has_input=False))
                ok = False
                cbad += 1
                break
        # the last CONNECT written and the verdict on the last CONNACK
        connect = None
        for i in range(st, end):
            f, _ = resp_fields(impl[i])
            b = f.get("bytes", "x")
            if reqs[i].startswith("eng.svc") and b.startswith("x10"):
                connect = unhex(b)
        last_data = max(i for i in range(st, end) if reqs[i].startswith("eng.data"))
        verdict, _ = resp_fields(impl[last_data])
        if connect is None:
            continue
        # fixed header (1 + 1 byte: these CONNECTs are short), protocol name (2 + 4), level (1), then the connect flags
        clean = bool(connect[2 + 6 + 1] & 0x02)
        refused = verdict.get("res", "").startswith("err")
        judged["refuse" if clean else "accept"] += 1
        if clean and not refused:
            mon = False
            if bad < 10:
                report.add_finding(Finding(prop, "mon:" + label, {"clause": "violation-accepted", "what": "session-present-after-clean-start"},
                                           "the CONNECT on the wire had Clean Start / CleanSession = 1, the server answered Session Present = 1 - a protocol violation - and the engine accepted it as a resumed session",
                                           reqs[st + 1:end] + ["# CONNECT: " + connect.hex(), "# impl: " + impl[last_data][:200]]))
            bad += 1
        if not clean and refused:
            mon = False
            if bad < 10:
                report.add_finding(Finding(prop, "mon:" + label, {"clause": "conformant-server-refused", "what": "session-present-after-resume-request"},
                                           "the CONNECT asked to resume the session, the server answered Session Present = 1 - legal - and the engine failed the connection",
                                           reqs[st + 1:end] + ["# CONNECT: " + connect.hex(), "# impl: " + impl[last_data][:200]]))
            bad += 1
    report.count(label + ".scenarios", len(scripts))
    report.count(label + ".must-refuse", judged["refuse"])
    report.count(label + ".must-accept", judged["accept"])
    report.obligation("corr:" + label, "correspondence", ok, f"{len(scripts)} scripted connections, every response compared")
    report.obligation("mon:" + label, "monitor", mon and judged["refuse"] > 0 and judged["accept"] > 0,
                      f"Session Present = 1 is refused after Clean Start = 1 ({judged['refuse']} connections) and accepted after a request to resume ({judged['accept']})")
    return ok and mon


def packet_id_wrap_family(report, prop="C06", label="packet-id-wrap"):
    """65540 QoS 1 publishes on one connection, each acknowledged before the next - the allocation cursor goes once round the
    identifier space - with none / three of the first publishes left unacknowledged: every PUBLISH carries a non-zero identifier
    that no unacknowledged publish holds, also at and after the wrap from 65535 to 1."""
    from gv import harness_batch, resp_fields, unhex
    from walk import split_packets
    ok, mon = True, True
    for held in (0, 3):
        for v in ("311", "5"):
            connack = "x20020000" if v == "311" else "x2003000000"
            reqs = ["session.reset", f"eng.new v={v} policy=all drain=none pingto=100000 resolver=none rmax=2 | ka=0 cid=x63", "eng.open t=0 deadline=30000",
                    "eng.svc t=0 cap=4096 prefill=0", "eng.wc t=0", f"eng.data t=0 b={connack}"]
            n = 65540
            acks = []
            for i in range(n):
                reqs += ["eng.pub t=1 | publish pid=0 topic=x74 qos=1 retain=0 payload=x00", "eng.svc t=1 cap=4096 prefill=0", "eng.wc t=1"]
                acks.append(len(reqs))
                reqs.append("eng.nst t=1")      # placeholder: replaced below by the PUBACK for the identifier the engine chose
            # the acknowledgements depend on the identifiers chosen: first pass on the implementation with placeholders is
            # not possible in batch mode, so the identifiers are predicted (cursor order, skipping the held ones) and verified
            in_flight, cursor, script_ids = set(), 1, []
            for i in range(n):
                while cursor in in_flight:
                    cursor = cursor % 65535 + 1
                pid = cursor
                cursor = cursor % 65535 + 1
                script_ids.append(pid)
                if i < held:
                    in_flight.add(pid)
                    reqs[acks[i]] = "eng.nst t=1"
                else:
                    reqs[acks[i]] = f"eng.data t=1 b=x4002{pid:04x}"
            reqs.append("eng.snap")
            # ... and then the held ones are acknowledged too: nothing may stay reserved
            for pid in sorted(in_flight):
                reqs.append(f"eng.data t=2 b=x4002{pid:04x}")
            reqs.append("eng.snap")
            impl = harness_batch(reqs)
            model = driver_batch(reqs)
            report.case(f"wrap v={v} held={held}")
            report.traces_validated += 1
            for i, (a, b) in enumerate(zip(impl, model)):
                if canon(a) != canon(b):
                    ok = False
                    report.add_finding(Finding(prop, "corr:" + label, {"clause": "model-vs-impl", "verb": reqs[i].split(" ")[0]},
                                               f"packet id wrap (publish #{i // 4}): implementation and model disagree", reqs[:6] + [f"# ... {i - 6} more lines ...", reqs[i], "# impl:  " + a[:200], "# model: " + b[:200]], has_input=False))
                    break
            # the wire: identifiers of the publishes in order
            stream = b"".join(unhex(resp_fields(a)[0]["bytes"]) for q, a in zip(reqs, impl) if q.startswith("eng.svc") and resp_fields(a)[0].get("bytes", "x") != "x")
            pkts, _, _ = split_packets(stream)
            ids = []
            for first, body in pkts:
                if first >> 4 == 3:
                    tl = (body[0] << 8) | body[1]
                    ids.append((body[2 + tl] << 8) | body[3 + tl])
            unacked, bad = set(), None
            for k, pid in enumerate(ids):
                if pid == 0:
                    bad = f"publish #{k} was sent with packet identifier 0"
                elif pid in unacked:
                    bad = f"publish #{k} was sent with identifier {pid}, which an unacknowledged publish still holds"
                if bad:
                    break
                if k < held:
                    unacked.add(pid)
            if not bad and len(ids) != n:
                bad = f"{len(ids)} publishes on the wire, {n} submitted"
            if not bad and ids != script_ids:
                report.count(label + ".other-order")
            if bad:
                mon = False
                report.add_finding(Finding(prop, "mon:" + label, {"clause": "id-zero-or-in-use", "version": v}, bad, reqs[:10] + ["# ... (65540 publish / service / write completion / PUBACK rounds)"]))
            final, _ = resp_fields(impl[-1])
            if final.get("alloc", "") != "" or final.get("ppub", "") != "" or final.get("ops", "") != "":
                mon = False
                report.add_finding(Finding(prop, "mon:" + label, {"clause": "identifier-leaked", "version": v},
                                           f"every publish has been acknowledged, yet the engine still holds ops={final.get('ops')} reserved identifiers alloc={final.get('alloc')} pending={final.get('ppub')} "
                                           f"({held} identifiers were held across the wrap of the allocation cursor and acknowledged last)",
                                           reqs[:10] + [f"# ... (65540 publish / service / write completion / PUBACK rounds, the first {held} publishes unacknowledged until the end)"] + reqs[-(held + 2):] + ["# impl: " + impl[-1][:300]]))
            report.count(label + ".publishes", len(ids))
    report.obligation("corr:" + label, "correspondence", ok, "4 connections x 65540 publishes (the cursor wraps), every response compared")
    report.obligation("mon:" + label, "monitor", mon, "every identifier non-zero and not held by an unacknowledged publish, across the wrap; nothing reserved once everything is acknowledged")
    return ok and mon


def inbound_chunking_family(report, prop="C03", label="inbound-chunking"):
    """what the application sees of the server's byte stream must not depend on how the stream is split into reads - also
    when the stream goes bad: well-formed packets in front of a malformed (or oversize) one are handled (an inbound PUBLISH is
    surfaced, an acknowledgement completes its operation) whether or not the bad bytes arrive in the same read."""
    from gv import harness_batch, resp_fields, unhex
    scripts, groups = [], []
    for v in ("5", "311"):
        connack = "x20020000" if v == "311" else "x2003000000"
        p5 = b"\x00" if v == "5" else b""
        pubs = {"q0": bytes([0x30, 5 + len(p5), 0, 3]) + b"a/b" + p5,
                "q1": bytes([0x32, 7 + len(p5) + 3, 0, 3]) + b"a/b" + bytes([0, 7]) + p5 + bytes([1, 2, 3]),
                "q2": bytes([0x34, 7 + len(p5), 0, 3]) + b"a/b" + bytes([0, 9]) + p5}
        puback = bytes([0x40, 2, 0, 1])
        bads = {"garbage": bytes([0, 0]), "oversize": bytes([0x30, 0xff, 0xff, 0xff, 0x7f]), "badflags": bytes([0x41, 2, 0, 1])}
        for pk, pub in pubs.items():
            for good in ([pub], [puback], [pub, puback], [puback, pub]):
                for bk, bad in bads.items():
                    stream = good + [bad]
                    chunkings = [[b"".join(stream)], stream, [b"".join(good), bad]]
                    whole = b"".join(stream)
                    chunkings.append([whole[i:i + 1] for i in range(len(whole))])
                    grp = []
                    for ch in chunkings:
                        mps = " mps=200" if bk == "oversize" and v == "5" else ""
                        sc = [f"eng.new v={v} policy=all drain=none pingto=100000 resolver=none rmax=2 | ka=0 cid=x63 rm=10{mps}", "eng.open t=0 deadline=30000", "eng.svc t=0 cap=4096 prefill=0", "eng.wc t=0",
                              f"eng.data t=0 b={connack}", "eng.pub t=1 | publish pid=0 topic=x742f30 qos=1 retain=0 payload=x00", "eng.svc t=1 cap=4096 prefill=0", "eng.wc t=1"]
                        sc += [f"eng.data t=2 b={hexs(c)}" for c in ch if c]
                        grp.append(len(scripts))
                        scripts.append(sc)
                    groups.append((v, pk, bk, grp))
    reqs, starts = [], []
    for sc in scripts:
        starts.append(len(reqs))
        reqs.append("session.reset")
        reqs += sc
    impl = harness_batch(reqs)
    model = driver_batch(reqs)
    ok, mon, bad_n, mon_n = True, True, 0, 0
    def seen(k):
        st = starts[k]
        end = starts[k + 1] if k + 1 < len(starts) else len(reqs)
        events, comps, err = [], [], None
        for i in range(st, end):
            if not reqs[i].startswith("eng.data t=2"):
                continue
            f, segs = resp_fields(impl[i])
            events += [x.split(" ")[0] + " " + " ".join(y for y in x.split(" ") if y.startswith(("pid=", "qos="))) for x in segs]
            comps += [x for x in f.get("comps", "").split(",") if x]
            if f.get("res", "").startswith("err") and err is None:
                err = f["res"].split(":")[0]
        return {"surfaced": sorted(events), "completed": sorted(comps), "failed": err is not None}
    for k, st in enumerate(starts):
        end = starts[k + 1] if k + 1 < len(starts) else len(reqs)
        for i in range(st, end):
            if canon(impl[i]) != canon(model[i]):
                ok = False
                if bad_n < 4:
                    report.add_finding(Finding(prop, "corr:" + label, {"clause": "model-vs-impl", "verb": reqs[i].split(" ")[0]},
                                               "inbound chunking scenario: implementation and model disagree", reqs[st + 1:i + 1] + ["# impl:  " + impl[i][:300], "# model: " + model[i][:300]], has_input=False))
                bad_n += 1
                break
    for v, pk, bk, grp in groups:
        outs = [seen(k) for k in grp]
        report.case(f"{v}|{pk}|{bk}|" + "|".join(reqs[starts[grp[0]] + 9:starts[grp[0] + 1] if grp[0] + 1 < len(starts) else len(reqs)]))
        report.traces_validated += 1
        report.count(label + "." + bk)
        for k, o in zip(grp[1:], outs[1:]):
            if o != outs[0]:
                mon = False
                st = starts[grp[0]]
                end = starts[grp[0] + 1]
                if mon_n < 6:
                    report.add_finding(Finding(prop, "mon:" + label, {"clause": "chunking-dependent", "version": v, "bad": bk},
                                               f"the same server stream delivered in one read gives {outs[0]}, split into reads it gives {o}: packets in front of the bad bytes are dropped when they arrive in the same read",
                                               reqs[st + 1:end] + ["# the other chunking:"] + reqs[starts[k] + 9:(starts[k + 1] if k + 1 < len(starts) else len(reqs))]))
                mon_n += 1
                break
    report.count(label + ".scenarios", len(scripts))
    report.obligation("corr:" + label, "correspondence", ok, f"{len(scripts)} scripted connections, every response compared")
    report.obligation("mon:" + label, "monitor", mon, f"{len(groups)} server streams x 4 chunkings: surfaced packets, completed operations and the verdict are the same")
    return ok and mon


def timeout_at_failing_service_family(report, prop="C18", label="timeout-at-failing-service"):
    """an ack timeout that has elapsed is applied by the first service call at or after it - also when that very call ends
    the connection (the PINGRESP deadline of a silent peer falls at the same moment, or the driver is late): the operation
    fails with the ack-timeout error there, it is not carried over to the next connection with a fresh clock."""
    from gv import harness_batch, resp_fields
    scripts = []
    for v in ("5", "311"):
        connack = "x20020000" if v == "311" else "x2003000000"
        for kind, T, late in (("pub1", 5000, 15000), ("pub1", 1000, 60000), ("pub2", 5000, 15000), ("sub", 5000, 15000), ("pub1", 5000, 15001)):
            op = {"pub1": f"eng.pub t=10000 timeout={T} | publish pid=0 topic=x742f30 qos=1 retain=0 payload=x00",
                  "pub2": f"eng.pub t=10000 timeout={T} | publish pid=0 topic=x742f30 qos=2 retain=0 payload=x00",
                  "sub": f"eng.sub t=10000 timeout={T} | subscribe pid=0 sub=x662f30:1:0:0:0"}[kind]
            sc = [f"eng.new v={v} policy=all drain=none pingto=5000 resolver=none rmax=2 | ka=10 cid=x63", "eng.open t=0 deadline=30000", "eng.svc t=0 cap=4096 prefill=0", "eng.wc t=0",
                  f"eng.data t=0 b={connack}", op, "eng.svc t=10000 cap=4096 prefill=0", "eng.wc t=10000", "eng.nst t=10001", f"eng.svc t={late} cap=4096 prefill=0", "eng.snap"]
            scripts.append((sc, T, late))
    reqs, starts = [], []
    for sc, _, _ in scripts:
        starts.append(len(reqs))
        reqs.append("session.reset")
        reqs += sc
    impl = harness_batch(reqs)
    model = driver_batch(reqs)
    ok, mon, bad, mon_n = True, True, 0, 0
    for k, st in enumerate(starts):
        end = starts[k + 1] if k + 1 < len(starts) else len(reqs)
        sc, T, late = scripts[k]
        report.case("|".join(reqs[st + 1:end]))
        report.traces_validated += 1
        for i in range(st, end):
            if canon(impl[i]) != canon(model[i]):
                ok = False
                if bad < 4:
                    report.add_finding(Finding(prop, "corr:" + label, {"clause": "model-vs-impl", "verb": reqs[i].split(" ")[0]},
                                               "timeout-at-failing-service scenario: implementation and model disagree", reqs[st + 1:i + 1] + ["# impl:  " + impl[i][:300], "# model: " + model[i][:300]], has_input=False))
                bad += 1
                break
        svc, _ = resp_fields(impl[end - 2])
        wrote, _ = resp_fields(impl[st + 7])
        # the packet was completely written by the service call at 10000 (it and the PINGREQ fit one buffer): T has elapsed at `late`
        if wrote.get("bytes", "x") != "x" and 10000 + T <= late:
            comps = svc.get("comps", "")
            if "AckTimeout" not in comps:
                mon = False
                if mon_n < 6:
                    report.add_finding(Finding(prop, "mon:" + label, {"clause": "elapsed-timeout-not-applied"},
                                               f"the ack timeout ({T} ms from the write at 10000 ms) has elapsed at the service call at {late} ms; that call returns {svc.get('res')} and delivers {comps or 'nothing'}: the operation is not failed with AckTimeout",
                                               reqs[st + 1:end] + ["# impl: " + impl[end - 2][:200]]))
                mon_n += 1
    report.count(label + ".scenarios", len(scripts))
    report.obligation("corr:" + label, "correspondence", ok, f"{len(scripts)} scripted connections, every response compared")
    report.obligation("mon:" + label, "monitor", mon, "an elapsed ack timeout is applied by the first service call at or after it, whatever else that call finds")
    return ok and mon


def receive_maximum_resume_family(report, prop="C09", label="receive-maximum-resume"):
    """a resumed session whose server announces a smaller Receive Maximum than the number of publishes the last connection left
    unacknowledged, with every kind of operation at the head of the user queue: the retransmissions count against the new
    Receive Maximum, whatever waits behind or beside them, also after acknowledgements trickle in."""
    from gv import harness_batch, resp_fields, unhex
    from walk import split_packets
    scripts = []
    heads = {"none": None,
             "sub": "eng.sub t=2 | subscribe pid=0 sub=x662f30:1:0:0:0",
             "unsub": "eng.unsub t=2 | unsubscribe pid=0 tf=x662f30",
             "q0": "eng.pub t=2 | publish pid=0 topic=x712f30 qos=0 retain=0 payload=x00",
             "q1": "eng.pub t=2 | publish pid=0 topic=x712f31 qos=1 retain=0 payload=x00"}
    for drain in ("none", "one"):
        for K, q in ((2, 1), (3, 1), (4, 1), (3, 2), (5, 1)):
            for rm2 in sorted({1, 2, K - 1}):
                if rm2 >= K:
                    continue
                for hk, head in heads.items():
                    for head_first in (False, True):
                        if head is None and head_first:
                            continue
                        sc = [f"eng.new v=5 policy=all drain={drain} pingto=0 resolver=none rmax=2 | ka=0 cid=x63 rejoin=always", "eng.open t=0 deadline=30000",
                              "eng.svc t=0 cap=4096 prefill=0", "eng.wc t=0", "eng.data t=0 b=x2003000000"]
                        sc += [f"eng.pub t=1 | publish pid=0 topic=x742f3{n} qos={q} retain=0 payload=x0{n}" for n in range(K)]
                        sc += ["eng.svc t=1 cap=4096 prefill=0", "eng.wc t=1"]
                        if head and head_first:
                            sc.append(head)
                        sc += ["eng.close t=2"]
                        if head and not head_first:
                            sc.append(head.replace("t=2", "t=3"))
                        sc += ["eng.open t=3 deadline=30000", "eng.svc t=3 cap=4096 prefill=0", "eng.wc t=3", f"eng.data t=3 b=x200601000321{rm2:04x}"]
                        for _ in range(K + 3):
                            sc += ["eng.svc t=4 cap=4096 prefill=0", "eng.wc t=4"]
                        if q == 1:
                            sc += ["eng.data t=5 b=x40020001"]
                            for _ in range(K + 3):
                                sc += ["eng.svc t=6 cap=4096 prefill=0", "eng.wc t=6"]
                        scripts.append((sc, rm2, K, q, hk, drain))
    reqs, starts = [], []
    for sc, *_ in scripts:
        starts.append(len(reqs))
        reqs.append("session.reset")
        reqs += sc
    impl = harness_batch(reqs)
    model = driver_batch(reqs)
    ok, mon, bad, mbad = True, True, 0, 0
    order, order_ok_n = True, 0
    for k, st in enumerate(starts):
        end = starts[k + 1] if k + 1 < len(starts) else len(reqs)
        sc, rm2, K, q, hk, drain = scripts[k]
        report.case("|".join(reqs[st + 1:end]))
        report.traces_validated += 1
        report.count(label + ".head." + hk)
        for i in range(st, end):
            if canon(impl[i]) != canon(model[i]):
                ok = False
                if bad < 4:
                    report.add_finding(Finding(prop, "corr:" + label, {"clause": "model-vs-impl", "verb": reqs[i].split(" ")[0]},
                                               "receive-maximum-resume scenario: implementation and model disagree", reqs[st + 1:i + 1] + ["# impl:  " + impl[i][:300], "# model: " + model[i][:300]], has_input=False))
                bad += 1
                break
        # the wire of the second connection: QoS>0 PUBLISH packets by packet id, minus those the server acknowledged
        conn, stream, seen, inflight, resent = 0, b"", 0, set(), 0
        for i in range(st, end):
            qy = reqs[i]
            if qy.startswith("eng.open"):
                conn += 1
                stream, seen, inflight = b"", 0, set()
            if conn == 2 and qy.startswith("eng.data t=5 b=x4002"):
                inflight.discard(int(qy[-4:], 16))
            f, _ = resp_fields(impl[i])
            if conn == 2 and f.get("bytes", "x") != "x":
                stream += unhex(f["bytes"])
                pkts, _, _ = split_packets(stream)
                for first, body in pkts[seen:]:
                    is_head = first >> 4 in (8, 10) or (first >> 4 == 3 and body[2:3] == b"q")
                    if first >> 4 == 3 and (first >> 1) & 3 > 0 and not is_head:
                        tl = (body[0] << 8) | body[1]
                        inflight.add((body[2 + tl] << 8) | body[3 + tl])
                        resent += 1
                    elif first >> 4 == 3 and (first >> 1) & 3 > 0:
                        tl = (body[0] << 8) | body[1]
                        inflight.add((body[2 + tl] << 8) | body[3 + tl])
                    if is_head and resent < K and prop == "C10" and order_ok_n < 6:
                        order = False
                        order_ok_n += 1
                        report.add_finding(Finding(prop, "mon:" + label + "-order", {"clause": "overtakes-retransmission", "head": hk, "drain": drain},
                                                   f"the {hk} operation at the head of the user queue is sent when only {resent} of the {K} publishes that were in flight have been retransmitted "
                                                   f"(the others wait for the Receive Maximum of {rm2}): after a reconnect the in-flight publishes go first",
                                                   reqs[st + 1:i + 1] + ["# impl: " + impl[i][:200]]))
                seen = len(pkts)
                if len(inflight) > rm2 and prop != "C10":
                    mon = False
                    if mbad < 6:
                        report.add_finding(Finding(prop, "mon:" + label, {"clause": "receive-maximum-exceeded", "head": hk, "drain": drain},
                                                   f"{len(inflight)} QoS>0 publishes (packet ids {sorted(inflight)}) are unacknowledged on a connection whose server announced Receive Maximum {rm2}",
                                                   reqs[st + 1:i + 1] + ["# impl: " + impl[i][:200]]))
                    mbad += 1
                    break
        report.count(label + ".retransmitted", resent)
    report.count(label + ".scenarios", len(scripts))
    report.obligation("corr:" + label, "correspondence", ok, f"{len(scripts)} scripted resumed sessions, every response compared")
    if prop == "C10":
        report.obligation("mon:" + label + "-order", "monitor", order, "nothing submitted later is sent before every in-flight publish has been retransmitted, also while flow control holds them back")
        return ok and order
    report.obligation("mon:" + label, "monitor", mon, "unacknowledged QoS>0 publishes on the resumed connection never exceed the Receive Maximum of its CONNACK")
    return ok and mon


def slow_start_family(report, prop="C09", label="one-at-a-time-drain"):
    """one-at-a-time drain after a reconnect, for every number of earlier interruptions and every retry limit: on the resumed
    connection at most one operation that requires an acknowledgement is outstanding until every operation the disconnection
    interrupted is resolved - also for operations that sit exactly at their interrupted-retry limit, and with a subscribe among
    them; acknowledgements arrive one by one."""
    from gv import harness_batch, resp_fields, unhex
    from walk import split_packets
    scripts = []
    for retries in (None, 1, 2, 3):
        for rounds in (1, 2, 3):
            if retries is not None and rounds > retries:
                continue      # (above the limit the operations are failed at the close; the C18 families cover that)
            for K, q, with_sub in ((2, 1, False), (3, 1, False), (3, 1, True), (2, 2, False), (4, 1, True)):
                rt = "" if retries is None else f" retries={retries}"
                sc = [f"eng.new v=5 policy=all drain=one pingto=0 resolver=none rmax=2{rt} | ka=0 cid=x63 rejoin=always", "eng.open t=0 deadline=30000",
                      "eng.svc t=0 cap=4096 prefill=0", "eng.wc t=0", "eng.data t=0 b=x2003000000"]
                sc += [f"eng.pub t=1 | publish pid=0 topic=x742f3{n} qos={q} retain=0 payload=x0{n}" for n in range(K)]
                if with_sub:
                    sc.append("eng.sub t=1 | subscribe pid=0 sub=x662f30:1:0:0:0")
                sc += ["eng.svc t=1 cap=4096 prefill=0", "eng.wc t=1"]
                t = 2
                for r in range(rounds):
                    sc += [f"eng.close t={t}", f"eng.open t={t} deadline=90000", f"eng.svc t={t} cap=4096 prefill=0", f"eng.wc t={t}", f"eng.data t={t} b=x2003010000"]
                    if r + 1 < rounds:
                        # the whole backlog goes out again one by one?  no: nothing is acknowledged, so only the first does
                        sc += [f"eng.svc t={t} cap=4096 prefill=0", f"eng.wc t={t}", f"eng.svc t={t} cap=4096 prefill=0", f"eng.wc t={t}"]
                    t += 1
                n_ops = K + (1 if with_sub else 0)
                for k in range(n_ops):
                    sc += [f"eng.svc t={t} cap=4096 prefill=0", f"eng.wc t={t}", f"eng.svc t={t} cap=4096 prefill=0", f"eng.wc t={t}", "ack-next"]
                sc += [f"eng.svc t={t} cap=4096 prefill=0", f"eng.wc t={t}"]
                scripts.append((sc, retries, rounds, K, q, with_sub))
    ok, mon, bad, mbad = True, True, 0, 0
    import gv
    for sc, retries, rounds, K, q, with_sub in scripts:
        # driven: the acknowledgement sent is that of the operation the client has outstanding
        hp, mp = gv.Proc([gv.HARNESS_BIN], "harness"), gv.Proc([gv.DRIVER_BIN], "driver")
        try:
            done, conn, stream, seen, outstanding = [], 0, b"", 0, []
            hist = []

            def both(line):
                nonlocal ok, bad
                a, b = hp.ask(line), mp.ask(line)
                hist.append(line)
                if canon(a) != canon(b):
                    ok = False
                    if bad < 4:
                        report.add_finding(Finding(prop, "corr:" + label, {"clause": "model-vs-impl", "verb": line.split(" ")[0]},
                                                   "one-at-a-time drain scenario: implementation and model disagree", hist[1:] + ["# impl:  " + a[:300], "# model: " + b[:300]], has_input=False))
                    bad += 1
                return a
            both("session.reset")
            last_conn_at = max(i for i, x in enumerate(sc) if x.startswith("eng.open"))
            for i, line in enumerate(sc):
                if line == "ack-next":
                    if not outstanding:
                        continue
                    kind, pid = outstanding.pop(0)
                    tt = hist[-1].split(" t=")[1].split(" ")[0]
                    if kind == 3:
                        if q == 1:
                            both(f"eng.data t={tt} b=x4002{pid:04x}")
                        else:
                            both(f"eng.data t={tt} b=x5002{pid:04x}")
                            both(f"eng.svc t={tt} cap=4096 prefill=0")
                            both(f"eng.wc t={tt}")
                            both(f"eng.data t={tt} b=x7002{pid:04x}")
                    else:
                        both(f"eng.data t={tt} b=x9003{pid:04x}01")
                    continue
                a = both(line)
                if line.startswith("eng.open"):
                    stream, seen, outstanding = b"", 0, []
                f, _ = resp_fields(a)
                if f.get("bytes", "x") != "x":
                    stream += unhex(f["bytes"])
                    pkts, _, _ = split_packets(stream)
                    for first, body in pkts[seen:]:
                        if first >> 4 == 3 and (first >> 1) & 3 > 0:
                            tl = (body[0] << 8) | body[1]
                            outstanding.append((3, (body[2 + tl] << 8) | body[3 + tl]))
                        elif first >> 4 == 8:
                            outstanding.append((8, (body[0] << 8) | body[1]))
                    seen = len(pkts)
                    if i > last_conn_at and len(outstanding) > 1:
                        mon = False
                        if mbad < 6:
                            report.add_finding(Finding(prop, "mon:" + label, {"clause": "slow-start-exceeded", "retries": retries, "rounds": rounds},
                                                       f"{len(outstanding)} operations that require an acknowledgement are outstanding (packet ids {[p for _, p in outstanding]}) on a resumed connection "
                                                       f"while operations interrupted by the disconnection are unresolved (one-at-a-time drain configured, interrupted-retry limit {retries}, interruption {rounds})",
                                                       hist[1:] + ["# impl: " + a[:200]]))
                        mbad += 1
                        break
            report.case("|".join(hist[1:]))
            report.traces_validated += 1
            report.count(label + f".retries={retries}.round={rounds}")
        finally:
            hp.close(); mp.close()
    report.count(label + ".scenarios", len(scripts))
    report.obligation("corr:" + label, "correspondence", ok, f"{len(scripts)} driven resumed sessions, every response compared")
    report.obligation("mon:" + label, "monitor", mon, "at most one acknowledgement-requiring operation outstanding on the resumed connection until the interrupted ones are resolved")
    return ok and mon


def timeout_while_written_family(report, prop="C18", label="timeout-of-operation-being-written"):
    """the ack timeout of a QoS 2 publish expires while its PUBREL is the operation being written (seated, the buffer has no
    room yet): that pass must leave the record alone, and the first service call after the PUBREL is out applies it - the
    operation does not get a fresh T from the PUBREL's write."""
    from gv import harness_batch, resp_fields
    scripts = []
    for v in ("5", "311"):
        connack = "x20020000" if v == "311" else "x2003000000"
        for T in (10, 500):
            for cap, pre in ((6, 4), (4, 1), (7, 6), (5, 2)):
                for extra in (0, 1, 2):
                    late = T + 2
                    sc = [f"eng.new v={v} policy=all drain=none pingto=100000 resolver=none rmax=2 | ka=0 cid=x636c6b rm=10",
                          "eng.open t=0 deadline=30000", "eng.svc t=0 cap=4096 prefill=0", "eng.wc t=0", f"eng.data t=0 b={connack}",
                          f"eng.pub t=0 timeout={T} | publish pid=0 topic=x742f30 qos=2 retain=0 payload=x0000",
                          "eng.svc t=0 cap=4096 prefill=0", "eng.wc t=0", "eng.data t=1 b=x50020001",
                          f"eng.svc t=2 cap={cap} prefill={pre}"]          # the PUBREL is seated, nothing of it fits
                    sc += [f"eng.svc t={late + k} cap={cap} prefill={pre}" for k in range(extra + 1)]   # the deadline passes while it waits
                    sc += [f"eng.svc t={late + extra + 1} cap=4096 prefill=0", f"eng.wc t={late + extra + 1}", f"eng.svc t={late + extra + 2} cap=4096 prefill=0", "eng.snap"]
                    scripts.append((sc, T, late + extra + 2))
    reqs, starts = [], []
    for sc, *_ in scripts:
        starts.append(len(reqs))
        reqs.append("session.reset")
        reqs += sc
    impl = harness_batch(reqs)
    model = driver_batch(reqs)
    ok, mon, bad, mbad, judged = True, True, 0, 0, 0
    for k, st in enumerate(starts):
        end = starts[k + 1] if k + 1 < len(starts) else len(reqs)
        sc, T, last = scripts[k]
        report.case("|".join(reqs[st + 1:end]))
        report.traces_validated += 1
        for i in range(st, end):
            if canon(impl[i]) != canon(model[i]):
                ok = False
                if bad < 4:
                    report.add_finding(Finding(prop, "corr:" + label, {"clause": "model-vs-impl", "verb": reqs[i].split(" ")[0]},
                                               "timeout-while-written scenario: implementation and model disagree", reqs[st + 1:i + 1] + ["# impl:  " + impl[i][:300], "# model: " + model[i][:300]], has_input=False))
                bad += 1
                break
        seated, _ = resp_fields(impl[st + 10])
        comps = ",".join(resp_fields(impl[i])[0].get("comps", "") for i in range(st + 10, end))
        early = ",".join(resp_fields(impl[i])[0].get("comps", "") for i in range(st + 1, st + 11))
        if "AckTimeout" in early:
            mon = False
            if mbad < 6:
                report.add_finding(Finding(prop, "mon:" + label, {"clause": "timeout-before-deadline"}, f"AckTimeout delivered before {T} ms had passed since the PUBLISH was written", reqs[st + 1:st + 11]))
            mbad += 1
        elif seated.get("bytes", "x") == "x":
            judged += 1
            if "AckTimeout" not in comps:
                mon = False
                if mbad < 6:
                    report.add_finding(Finding(prop, "mon:" + label, {"clause": "expired-timeout-lost-while-written"},
                                               f"the publish was completely written at 0 ms with an ack timeout of {T} ms; its PUBREL waited for buffer room across the deadline and went out at {last - 1} ms; "
                                               f"the service calls up to {last} ms deliver {comps.strip(',') or 'nothing'}: the expired timeout is not applied (the operation got a fresh deadline from the PUBREL's write)",
                                               reqs[st + 1:end] + ["# impl: " + impl[end - 2][:200]]))
                mbad += 1
    report.count(label + ".scenarios", len(scripts))
    report.count(label + ".judged", judged)
    report.obligation("corr:" + label, "correspondence", ok, f"{len(scripts)} scripted connections, every response compared")
    report.obligation("mon:" + label, "monitor", mon and judged > 0, f"{judged} histories in which the deadline passes while the PUBREL is seated: AckTimeout is delivered by the first service after the PUBREL is out, never before the deadline")
    return ok and mon


def inbound_qos2_sessions_family(report, prop="C05", label="inbound-qos2-across-sessions"):
    """an inbound QoS 2 identifier that is still unreleased when the connection ends: on a resumed session the server's repeat is
    acknowledged and not delivered again; when the CONNACK says the session is gone, the identifier is forgotten and a PUBLISH
    that uses it is a new message; after a PUBREL it is a new message in any case.  Every rejoin policy, both versions."""
    from gv import harness_batch, resp_fields
    scripts = []
    for v in ("5", "311"):
        p5 = "00" if v == "5" else ""
        pub = lambda pid, pl: "x" + bytes([0x34, 7 + (1 if v == "5" else 0) + 1, 0, 3]).hex() + "612f62" + f"{pid:04x}" + p5 + f"{pl:02x}"
        rel = lambda pid: f"x6202{pid:04x}"
        for rejoin in ("always", "post", "never"):
            for sp2 in (1, 0):
                for released in (False, True):
                    for sp3 in (None, 1, 0):
                        connack = lambda sp: ("x2002%02x00" % sp) if v == "311" else ("x2003%02x0000" % sp)
                        sc = [f"eng.new v={v} policy=all drain=none pingto=0 resolver=none rmax=2 | ka=0 cid=x63 rejoin={rejoin}",
                              "eng.open t=0 deadline=30000", "eng.svc t=0 cap=4096 prefill=0", "eng.wc t=0", f"eng.data t=0 b={connack(0)}",
                              f"eng.data t=1 b={pub(7, 1)}", "eng.svc t=1 cap=4096 prefill=0", "eng.wc t=1"]
                        if released:
                            sc += [f"eng.data t=2 b={rel(7)}", "eng.svc t=2 cap=4096 prefill=0", "eng.wc t=2"]
                        conns = [sp2] + ([sp3] if sp3 is not None else [])
                        t = 3
                        for sp in conns:
                            sc += [f"eng.close t={t}", f"eng.open t={t} deadline=90000", f"eng.svc t={t} cap=4096 prefill=0", f"eng.wc t={t}", f"eng.data t={t} b={connack(sp)}",
                                   f"eng.data t={t} b={pub(7, 2 + t)}", f"eng.svc t={t} cap=4096 prefill=0", f"eng.wc t={t}"]
                            t += 1
                        scripts.append((sc, v, rejoin, conns, released))
    reqs, starts = [], []
    for sc, *_ in scripts:
        starts.append(len(reqs))
        reqs.append("session.reset")
        reqs += sc
    impl = harness_batch(reqs)
    model = driver_batch(reqs)
    ok, mon, bad, mbad, judged = True, True, 0, 0, 0
    for k, st in enumerate(starts):
        end = starts[k + 1] if k + 1 < len(starts) else len(reqs)
        sc, v, rejoin, conns, released = scripts[k]
        report.case("|".join(reqs[st + 1:end]))
        report.traces_validated += 1
        for i in range(st, end):
            if canon(impl[i]) != canon(model[i]):
                ok = False
                if bad < 4:
                    report.add_finding(Finding(prop, "corr:" + label, {"clause": "model-vs-impl", "verb": reqs[i].split(" ")[0]},
                                               "inbound QoS 2 across sessions: implementation and model disagree", reqs[st + 1:i + 1] + ["# impl:  " + impl[i][:300], "# model: " + model[i][:300]], has_input=False))
                bad += 1
                break
        # reference: the set of unreleased identifiers, cleared when a CONNACK reports no session
        unreleased, conn = set(), 0
        for i in range(st, end):
            q = reqs[i]
            if not q.startswith("eng.data"):
                continue
            b = q.split(" b=x")[1]
            f, segs = resp_fields(impl[i])
            if b.startswith("20"):
                conn += 1
                sp = int(b[4:6], 16) & 1
                # a clean-start CONNECT cannot be answered with session present (a conformant server): skip what follows if refused
                if f.get("res") != "ok":
                    break
                if not sp:
                    unreleased = set()
            elif b.startswith("62"):
                unreleased.discard(7)
            elif b.startswith("34"):
                surfaced = any(x.startswith("publish") for x in segs)
                expect = 7 not in unreleased
                unreleased.add(7)
                judged += 1
                if f.get("res") != "ok" or surfaced != expect:
                    mon = False
                    if mbad < 6:
                        what = ("is a new message and must be surfaced" if expect else "repeats an unreleased delivery of a resumed session and must not be surfaced again")
                        report.add_finding(Finding(prop, "mon:" + label, {"clause": "qos2-surfaced-wrongly", "expected": expect},
                                                   f"connection {conn}: the QoS 2 PUBLISH with identifier 7 {what}; the engine answered {f.get('res')} and {'surfaced' if surfaced else 'did not surface'} it",
                                                   reqs[st + 1:i + 1] + ["# impl: " + impl[i][:200]]))
                    mbad += 1
                    break
    report.count(label + ".scenarios", len(scripts))
    report.count(label + ".judged", judged)
    report.obligation("corr:" + label, "correspondence", ok, f"{len(scripts)} scripted histories, every response compared")
    report.obligation("mon:" + label, "monitor", mon and judged > 0, f"{judged} inbound QoS 2 publishes judged against the set of unreleased identifiers (forgotten exactly when a CONNACK reports no session)")
    return ok and mon


def ping_queued_at_close_family(report, prop="C14", label="ping-queued-at-close"):
    """the connection ends while a PINGREQ is queued and not yet written (it fell due while the socket still held the previous
    write, or while there was no room in the buffer): the next connection keeps its own keep-alive clock - a PINGREQ goes out
    within K of its CONNACK, and again K after that."""
    from gv import harness_batch, resp_fields, unhex
    from walk import split_packets
    scripts = []
    for v in ("5", "311"):
        connack = "x20020000" if v == "311" else "x2003000000"
        for K in (1, 2, 60):
            for block in ("pending-write", "no-room", "none"):
                k = K * 1000
                sc = [f"eng.new v={v} policy=all drain=none pingto=100000 resolver=none rmax=2 | ka={K} cid=x63 rejoin=always",
                      "eng.open t=0 deadline=30000", "eng.svc t=0 cap=4096 prefill=0", "eng.wc t=0", f"eng.data t=0 b={connack}"]
                if block == "pending-write":
                    sc += ["eng.pub t=10 | publish pid=0 topic=x742f30 qos=1 retain=0 payload=x00", "eng.svc t=10 cap=4096 prefill=0",     # written, not flushed
                           f"eng.svc t={k + 20} cap=4096 prefill=12"]                                                                    # the ping falls due: queued, cannot be written
                elif block == "no-room":
                    sc += [f"eng.svc t={k + 20} cap=6 prefill=5"]
                else:
                    sc += [f"eng.svc t={k + 20} cap=4096 prefill=0", f"eng.wc t={k + 20}"]
                t0 = k + 50
                sc += [f"eng.close t={t0}", f"eng.open t={t0} deadline={t0 + 30000}", f"eng.svc t={t0} cap=4096 prefill=0", f"eng.wc t={t0}", f"eng.data t={t0} b={connack}"]
                for j in (1, 2):
                    sc += [f"eng.svc t={t0 + j * k + 5} cap=4096 prefill=0", f"eng.wc t={t0 + j * k + 5}", f"eng.data t={t0 + j * k + 6} b=xd000"]
                scripts.append((sc, K, block, len(sc) - 6))
    reqs, starts = [], []
    for sc, *_ in scripts:
        starts.append(len(reqs))
        reqs.append("session.reset")
        reqs += sc
    impl = harness_batch(reqs)
    model = driver_batch(reqs)
    ok, mon, bad, mbad = True, True, 0, 0
    for k_, st in enumerate(starts):
        end = starts[k_ + 1] if k_ + 1 < len(starts) else len(reqs)
        sc, K, block, first = scripts[k_]
        report.case("|".join(reqs[st + 1:end]))
        report.traces_validated += 1
        report.count(label + "." + block)
        for i in range(st, end):
            if canon(impl[i]) != canon(model[i]):
                ok = False
                if bad < 4:
                    report.add_finding(Finding(prop, "corr:" + label, {"clause": "model-vs-impl", "verb": reqs[i].split(" ")[0]},
                                               "ping-queued-at-close scenario: implementation and model disagree", reqs[st + 1:i + 1] + ["# impl:  " + impl[i][:300], "# model: " + model[i][:300]], has_input=False))
                bad += 1
                break
        # the two service calls K and 2K after the second CONNACK each write a PINGREQ
        for j, i in enumerate((st + 1 + first, st + 1 + first + 3)):
            f, _ = resp_fields(impl[i])
            pkts = split_packets(unhex(f.get("bytes", "x")))[0] if f.get("bytes", "x") != "x" else []
            if f.get("res") != "ok" or not any(fb >> 4 == 12 for fb, _ in pkts):
                mon = False
                if mbad < 6:
                    report.add_finding(Finding(prop, "mon:" + label, {"clause": "no-ping-within-keep-alive", "block": block},
                                               f"keep alive {K} s: {j + 1} x K after the CONNACK of the second connection nothing had been sent and the service call writes no PINGREQ "
                                               f"(the first connection ended with a PINGREQ queued: {block})", reqs[st + 1:i + 1] + ["# impl: " + impl[i][:200]]))
                mbad += 1
                break
    report.count(label + ".scenarios", len(scripts))
    report.obligation("corr:" + label, "correspondence", ok, f"{len(scripts)} scripted histories, every response compared")
    report.obligation("mon:" + label, "monitor", mon, "a connection that follows one which ended with a PINGREQ queued still pings every K")
    return ok and mon


def failing_ack_family(report, prop="C01", label="failing-acknowledgement"):
    """an acknowledgement that carries a failing reason code - every code of 0x80 and above that the packet type allows, the
    boundary 0x80 included - resolves its operation there and then (QoS 1: the PUBACK; QoS 2: the failing PUBREC, after which
    no PUBREL is sent; SUBACK / UNSUBACK: the codes are the result), and releases what the operation held."""
    from gv import harness_batch, resp_fields, unhex
    from walk import split_packets
    scripts = []
    cases = [("pub1", "eng.pub t=1 | publish pid=0 topic=x742f30 qos=1 retain=0 payload=x00", lambda rc: f"x40030001{rc:02x}", (0x80, 0x83, 0x87, 0x90, 0x91, 0x97, 0x99)),
             ("pub2", "eng.pub t=1 | publish pid=0 topic=x742f30 qos=2 retain=0 payload=x00", lambda rc: f"x50030001{rc:02x}", (0x80, 0x83, 0x87, 0x90, 0x91, 0x97, 0x99)),
             ("sub", "eng.sub t=1 | subscribe pid=0 sub=x662f30:1:0:0:0", lambda rc: f"x9004000100{rc:02x}", (0x80, 0x83, 0x87, 0x8f, 0x91, 0x97, 0x9e, 0xa1, 0xa2)),
             ("unsub", "eng.unsub t=1 | unsubscribe pid=0 tf=x662f30", lambda rc: f"xb004000100{rc:02x}", (0x11, 0x80, 0x83, 0x87, 0x8f, 0x91))]
    for kind, op, ack, codes in cases:
        for rc in codes:
            sc = ["eng.new v=5 policy=all drain=none pingto=0 resolver=none rmax=2 | ka=0 cid=x63", "eng.open t=0 deadline=30000", "eng.svc t=0 cap=4096 prefill=0", "eng.wc t=0",
                  "eng.data t=0 b=x2003000000", op, "eng.svc t=1 cap=4096 prefill=0", "eng.wc t=1", f"eng.data t=2 b={ack(rc)}", "eng.svc t=2 cap=4096 prefill=0", "eng.snap"]
            scripts.append((sc, kind, rc))
    reqs, starts = [], []
    for sc, *_ in scripts:
        starts.append(len(reqs))
        reqs.append("session.reset")
        reqs += sc
    impl = harness_batch(reqs)
    model = driver_batch(reqs)
    ok, mon, bad, mbad = True, True, 0, 0
    for k, st in enumerate(starts):
        end = starts[k + 1] if k + 1 < len(starts) else len(reqs)
        sc, kind, rc = scripts[k]
        report.case("|".join(reqs[st + 1:end]))
        report.traces_validated += 1
        for i in range(st, end):
            if canon(impl[i]) != canon(model[i]):
                ok = False
                if bad < 4:
                    report.add_finding(Finding(prop, "corr:" + label, {"clause": "model-vs-impl", "verb": reqs[i].split(" ")[0]},
                                               "failing-acknowledgement scenario: implementation and model disagree", reqs[st + 1:i + 1] + ["# impl:  " + impl[i][:300], "# model: " + model[i][:300]], has_input=False))
                bad += 1
                break
        ackr, _ = resp_fields(impl[st + 9])
        svc, _ = resp_fields(impl[st + 10])
        snap, _ = resp_fields(impl[st + 11])
        problem = None
        if ackr.get("res") != "ok":
            problem = f"the acknowledgement was refused ({ackr.get('res')})"
        elif not ackr.get("comps"):
            problem = "the operation was not resolved by it"
        elif svc.get("bytes", "x") != "x" and any(fb >> 4 == 6 for fb, _ in split_packets(unhex(svc["bytes"]))[0]):
            problem = "a PUBREL was sent for a delivery the server refused"
        elif snap.get("ops", "") != "" or snap.get("alloc", "") != "":
            problem = f"the operation is still tracked or its identifier still reserved (ops={snap.get('ops')} alloc={snap.get('alloc')})"
        if problem:
            mon = False
            if mbad < 6:
                report.add_finding(Finding(prop, "mon:" + label, {"clause": "failing-ack-does-not-resolve", "kind": kind},
                                           f"{kind}: acknowledgement with reason code 0x{rc:02x}: {problem}", reqs[st + 1:end] + ["# impl: " + impl[st + 9][:200]]))
            mbad += 1
    report.count(label + ".scenarios", len(scripts))
    report.obligation("corr:" + label, "correspondence", ok, f"{len(scripts)} scripted histories, every response compared")
    report.obligation("mon:" + label, "monitor", mon, "an acknowledgement with a failing reason code resolves its operation at once and releases what it held")
    return ok and mon


def timeout_before_close_family(report, prop="C18", label="timeout-elapsed-before-close"):
    """the ack timeout of a written operation elapses, and before any service call runs the connection ends - the driver
    delivers the close (or first undecodable bytes / a server DISCONNECT, then the close): the operation has waited longer
    than T, so it fails with the ack-timeout error; it is not carried to the next connection with a fresh clock."""
    from gv import harness_batch, resp_fields
    scripts = []
    for v in ("5", "311"):
        connack = "x20020000" if v == "311" else "x2003000000"
        resumed = "x20020100" if v == "311" else "x2003010000"
        for kind in ("sub", "pub1", "pub2"):
            op = {"pub1": "eng.pub t=0 timeout=1000 | publish pid=0 topic=x742f30 qos=1 retain=0 payload=x00",
                  "pub2": "eng.pub t=0 timeout=1000 | publish pid=0 topic=x742f30 qos=2 retain=0 payload=x00",
                  "sub": "eng.sub t=0 timeout=1000 | subscribe pid=0 sub=x662f30:1:0:0:0"}[kind]
            for how in ("close", "garbage", "disconnect"):
                if how == "disconnect" and v == "311":
                    continue
                for late in (1000, 5000):
                    sc = [f"eng.new v={v} policy=all drain=none pingto=0 resolver=none rmax=2 | ka=0 cid=x63 rejoin=always", "eng.open t=0 deadline=30000", "eng.svc t=0 cap=4096 prefill=0", "eng.wc t=0",
                          f"eng.data t=0 b={connack}", op, "eng.svc t=0 cap=4096 prefill=0", "eng.wc t=0"]
                    if how == "garbage":
                        sc.append(f"eng.data t={late} b=x0000")
                    elif how == "disconnect":
                        sc.append(f"eng.data t={late} b=xe0028b00")
                    sc += [f"eng.close t={late}", f"eng.open t={late + 1} deadline=90000", f"eng.svc t={late + 1} cap=4096 prefill=0", f"eng.wc t={late + 1}",
                           f"eng.data t={late + 1} b={resumed}", f"eng.svc t={late + 1} cap=4096 prefill=0", "eng.snap"]
                    scripts.append((sc, kind, how, late))
    reqs, starts = [], []
    for sc, *_ in scripts:
        starts.append(len(reqs))
        reqs.append("session.reset")
        reqs += sc
    impl = harness_batch(reqs)
    model = driver_batch(reqs)
    ok, mon, bad, mbad = True, True, 0, 0
    for k, st in enumerate(starts):
        end = starts[k + 1] if k + 1 < len(starts) else len(reqs)
        sc, kind, how, late = scripts[k]
        report.case("|".join(reqs[st + 1:end]))
        report.traces_validated += 1
        report.count(label + "." + how)
        for i in range(st, end):
            if canon(impl[i]) != canon(model[i]):
                ok = False
                if bad < 4:
                    report.add_finding(Finding(prop, "corr:" + label, {"clause": "model-vs-impl", "verb": reqs[i].split(" ")[0]},
                                               "timeout-before-close scenario: implementation and model disagree", reqs[st + 1:i + 1] + ["# impl:  " + impl[i][:300], "# model: " + model[i][:300]], has_input=False))
                bad += 1
                break
        ci = next(i for i in range(st, end) if reqs[i].startswith("eng.close"))
        comps = ",".join(resp_fields(impl[i])[0].get("comps", "") for i in range(st + 9, ci + 1))
        resent, _ = resp_fields(impl[end - 2])
        if "AckTimeout" not in comps:
            mon = False
            if mbad < 6:
                again = resent.get("bytes", "x") != "x"
                report.add_finding(Finding(prop, "mon:" + label, {"clause": "elapsed-timeout-forgotten-at-close", "how": how},
                                           f"{kind} written at 0 ms with an ack timeout of 1000 ms; no service call ran before the connection ended at {late} ms ({how}): "
                                           f"the operation got {comps.strip(',') or 'no result'}" + (" and was sent again on the next connection with a fresh clock" if again else ""),
                                           reqs[st + 1:end] + ["# impl: " + impl[ci][:200]]))
            mbad += 1
    report.count(label + ".scenarios", len(scripts))
    report.obligation("corr:" + label, "correspondence", ok, f"{len(scripts)} scripted histories, every response compared")
    report.obligation("mon:" + label, "monitor", mon, "a timeout that has elapsed when the connection ends is applied, not forgotten")
    return ok and mon


def alias_with_connack_family(report, prop="C17", label="alias-in-the-read-of-the-connack"):
    """inbound topic aliases when the CONNACK and aliased PUBLISH packets arrive in one read: a binding made by a PUBLISH that
    follows the CONNACK in the same read holds for the rest of the connection; a PUBLISH with an empty topic that follows the
    CONNACK of a *new* connection in the same read must not be resolved through the previous connection's table - it fails the
    connection.  The same streams split into one read per packet are the reference."""
    from gv import harness_batch, resp_fields
    def pub(topic, alias, payload):
        body = bytes([0, len(topic)]) + topic + bytes([3, 0x23, alias >> 8, alias & 255]) + payload
        return bytes([0x30, len(body)]) + body
    connack = bytes([0x20, 3, 0, 0, 0])
    scripts = []
    for joined in (True, False):
        # (a) the binding is made in the read of the CONNACK
        stream1 = [connack, pub(b"a/b", 1, b"x")]
        sc = ["eng.new v=5 policy=all drain=none pingto=0 resolver=none rmax=2 | ka=0 cid=x63 tam=3", "eng.open t=0 deadline=30000", "eng.svc t=0 cap=4096 prefill=0", "eng.wc t=0"]
        sc += [f"eng.data t=0 b={hexs(b''.join(stream1))}"] if joined else [f"eng.data t=0 b={hexs(x)}" for x in stream1]
        sc += [f"eng.data t=1 b={hexs(pub(b'', 1, b'y'))}"]
        scripts.append((sc, "binding-in-connack-read", joined, [b"a/b", b"a/b"], False))
        # (b) a stale binding of the previous connection
        sc = ["eng.new v=5 policy=all drain=none pingto=0 resolver=none rmax=2 | ka=0 cid=x63 tam=3", "eng.open t=0 deadline=30000", "eng.svc t=0 cap=4096 prefill=0", "eng.wc t=0",
              f"eng.data t=0 b={hexs(connack)}", f"eng.data t=1 b={hexs(pub(b'old/topic', 1, b'x'))}", "eng.close t=2", "eng.open t=3 deadline=30000", "eng.svc t=3 cap=4096 prefill=0", "eng.wc t=3"]
        stream2 = [connack, pub(b"", 1, b"z")]
        sc += [f"eng.data t=3 b={hexs(b''.join(stream2))}"] if joined else [f"eng.data t=3 b={hexs(x)}" for x in stream2]
        scripts.append((sc, "stale-binding", joined, [b"old/topic"], True))
    reqs, starts = [], []
    for sc, *_ in scripts:
        starts.append(len(reqs))
        reqs.append("session.reset")
        reqs += sc
    impl = harness_batch(reqs)
    model = driver_batch(reqs)
    ok, mon, bad, mbad = True, True, 0, 0
    for k, st in enumerate(starts):
        end = starts[k + 1] if k + 1 < len(starts) else len(reqs)
        sc, what, joined, topics, must_fail = scripts[k]
        report.case("|".join(reqs[st + 1:end]))
        report.traces_validated += 1
        for i in range(st, end):
            if canon(impl[i]) != canon(model[i]):
                ok = False
                if bad < 4:
                    report.add_finding(Finding(prop, "corr:" + label, {"clause": "model-vs-impl", "verb": reqs[i].split(" ")[0]},
                                               "alias with CONNACK scenario: implementation and model disagree", reqs[st + 1:i + 1] + ["# impl:  " + impl[i][:300], "# model: " + model[i][:300]], has_input=False))
                bad += 1
                break
        surfaced, failed = [], False
        for i in range(st, end):
            if not reqs[i].startswith("eng.data"):
                continue
            f, segs = resp_fields(impl[i])
            if f.get("res", "").startswith("err"):
                failed = True
            for x in segs:
                if x.startswith("publish"):
                    surfaced.append(unhex([y for y in x.split(" ") if y.startswith("topic=")][0][6:]))
        problem = None
        if surfaced != topics:
            problem = f"surfaced topics {[t.decode() for t in surfaced]}, the server sent {[t.decode() for t in topics]}"
        elif must_fail and not failed:
            problem = "an empty topic with an alias that this connection never bound was accepted"
        elif not must_fail and failed:
            problem = "a connection on which every alias was bound before it was used was failed"
        if problem:
            mon = False
            if mbad < 6:
                report.add_finding(Finding(prop, "mon:" + label, {"clause": "alias-vs-connack-order", "what": what, "joined": joined},
                                           f"{what} ({'CONNACK and PUBLISH in one read' if joined else 'one read per packet'}): {problem}", reqs[st + 1:end]))
            mbad += 1
    report.count(label + ".scenarios", len(scripts))
    report.obligation("corr:" + label, "correspondence", ok, f"{len(scripts)} scripted histories, every response compared")
    report.obligation("mon:" + label, "monitor", mon, "alias bindings made behind the CONNACK in its read hold; bindings of the previous connection do not")
    return ok and mon


def announced_availability_family(report, prop="C16", label="announced-availability-on-the-wire"):
    """what the CONNACK says about wildcard and shared subscriptions, against what is then sent: every combination of the two
    announcements x SUBSCRIBE with a plain / wildcard / shared / shared wildcard filter.  A SUBSCRIBE the server cannot take
    is failed locally and never written; one it can take is written and not refused."""
    from gv import harness_batch, resp_fields, unhex
    from walk import split_packets
    filters = {"plain": b"a/b", "wild": b"a/+", "shared": b"$share/g/a", "sharedwild": b"$share/g/#"}
    scripts = []
    for wsa in (None, 0, 1):
        for ssa in (None, 0, 1):
            props = b""
            if wsa is not None:
                props += bytes([0x28, wsa])
            if ssa is not None:
                props += bytes([0x2A, ssa])
            connack = bytes([0x20, 3 + len(props), 0, 0, len(props)]) + props
            for fk, fl in filters.items():
                sc = ["eng.new v=5 policy=all drain=none pingto=0 resolver=none rmax=2 | ka=0 cid=x63", "eng.open t=0 deadline=30000", "eng.svc t=0 cap=4096 prefill=0", "eng.wc t=0",
                      f"eng.data t=0 b={hexs(connack)}", f"eng.sub t=1 | subscribe pid=0 sub={hexs(fl)}:1:0:0:0", "eng.svc t=1 cap=4096 prefill=0", "eng.snap"]
                allowed = (wsa != 0 or fk in ("plain", "shared")) and (ssa != 0 or fk in ("plain", "wild"))
                scripts.append((sc, wsa, ssa, fk, allowed))
    reqs, starts = [], []
    for sc, *_ in scripts:
        starts.append(len(reqs))
        reqs.append("session.reset")
        reqs += sc
    impl = harness_batch(reqs)
    model = driver_batch(reqs)
    ok, mon, bad, mbad = True, True, 0, 0
    for k, st in enumerate(starts):
        end = starts[k + 1] if k + 1 < len(starts) else len(reqs)
        sc, wsa, ssa, fk, allowed = scripts[k]
        report.case("|".join(reqs[st + 1:end]))
        report.traces_validated += 1
        for i in range(st, end):
            if canon(impl[i]) != canon(model[i]):
                ok = False
                if bad < 4:
                    report.add_finding(Finding(prop, "corr:" + label, {"clause": "model-vs-impl", "verb": reqs[i].split(" ")[0]},
                                               "announced-availability scenario: implementation and model disagree", reqs[st + 1:i + 1] + ["# impl:  " + impl[i][:300], "# model: " + model[i][:300]], has_input=False))
                bad += 1
                break
        svc, _ = resp_fields(impl[st + 7])
        sent = svc.get("bytes", "x") != "x" and any(fb >> 4 == 8 for fb, _ in split_packets(unhex(svc["bytes"]))[0])
        failed = "PacketValidation" in svc.get("comps", "") or "Validation" in svc.get("comps", "")
        problem = None
        if sent and not allowed:
            problem = "was written although the server announced it cannot take it"
        elif allowed and (not sent or svc.get("comps", "")):
            problem = f"is within everything the server announced, yet it was {'not written' if not sent else 'written and'} {'failed: ' + svc.get('comps', '') if svc.get('comps', '') else ''}"
        elif not allowed and not failed:
            problem = f"was not failed with a validation error (result: {svc.get('comps', '') or 'none'})"
        if problem:
            mon = False
            if mbad < 6:
                report.add_finding(Finding(prop, "mon:" + label, {"clause": "availability-vs-wire", "filter": fk, "allowed": allowed},
                                           f"CONNACK wildcard available = {wsa}, shared available = {ssa} (None = absent = available): the SUBSCRIBE with a {fk} filter {problem}",
                                           reqs[st + 1:end] + ["# impl: " + impl[st + 7][:200]]))
            mbad += 1
    report.count(label + ".scenarios", len(scripts))
    report.obligation("corr:" + label, "correspondence", ok, f"{len(scripts)} scripted connections, every response compared")
    report.obligation("mon:" + label, "monitor", mon, "a SUBSCRIBE is written exactly when its filter is within what the CONNACK announced; otherwise it fails with a validation error")
    return ok and mon
