"""C16: validators vs model (correspondence) and vs the standard's validity predicate (monitor)."""
import gen_codec as G
from gv import Rng, Finding, harness_batch, driver_batch, parse_kv, kv_get, resp_fields, unhex, hexs
from suites_codec import shrink_packet, packet_signature


def encoded_len(pkt, v, harness):
    r = harness_batch([f"encode v={v} caps=4096 | {pkt}"])[0]
    f, _ = resp_fields(r)
    if f.get("res") != "ok":
        return None
    return sum(len(unhex(x)) for x in f.get("chunks", "").split(",") if x)


def suite_validate(report, tier, seed, prop="C16"):
    rng = Rng(seed, "validate")
    n = 2500 if tier == "quick" else 60000
    cases = []
    enc_reqs = []
    for _ in range(n):
        pkt = G.gen_validation_packet(rng)
        cases.append(pkt)
        # encoded size (v5), with a packet id so that it can be encoded as the engine would
        enc_reqs.append(f"encode v=5 caps=100000 | {pkt}")
    enc = harness_batch(enc_reqs)
    reqs, metas = [], []
    for pkt, e in zip(cases, enc):
        f, _ = resp_fields(e)
        size = None
        if f.get("res") == "ok":
            size = sum((len(x) - 1) // 2 for x in f.get("chunks", "").split(",") if x)
        settings = G.gen_settings(rng, size)
        # the internal validators see the packet with its packet id bound
        kind, kv = parse_kv(pkt)
        bound = pkt
        if kind in ("publish", "subscribe", "unsubscribe", "puback") and kv_get(kv, "pid") == "0" and \
                not (kind == "publish" and kv_get(kv, "qos") == "0"):
            bound = " ".join([kind] + [f"{k}={('7' if k == 'pid' else v)}" for k, v in kv])
        reqs.append(f"validate.out | {pkt}")
        reqs.append(f"validate.outint {settings} | {bound}")
        reqs.append(f"spec.valid {settings} | {pkt}")
        metas.append((pkt, bound, settings, size))
    impl = harness_batch([r for r in reqs if not r.startswith("spec.")])
    model = driver_batch(reqs)
    corr_ok, mon_ok = True, True
    for i, (pkt, bound, settings, size) in enumerate(metas):
        i_out, i_int = impl[2 * i], impl[2 * i + 1]
        m_out, m_int, spec = model[3 * i], model[3 * i + 1], model[3 * i + 2]
        kind = pkt.split(" ")[0]
        report.case(f"{settings}|{pkt}")
        report.count("validate.kind." + kind)
        report.count("validate.static." + i_out.split("=")[1].split(":")[0])
        report.count("validate.dynamic." + i_int.split("=")[1].split(":")[0])
        for a, b, r in ((i_out, m_out, reqs[3 * i]), (i_int, m_int, reqs[3 * i + 1])):
            if a != b:
                corr_ok = False
                report.add_finding(Finding(prop, "corr:validate", packet_signature(pkt, 5, "model-vs-impl:" + a + "/" + b),
                                           "validator: implementation and model disagree", [r, "# impl: " + a, "# model: " + b], has_input=False))
        f, _ = resp_fields(spec)
        if kind == "connect":
            continue   # CONNECT is built by the client itself; covered at engine level (C07/C16 walks)
        report.traces_validated += 1
        accepted = i_out == "res=ok" and i_int == "res=ok"
        mps = kv_get(parse_kv("s " + settings)[1], "mps")
        too_big = size is not None and mps is not None and size > int(mps)
        spec_ok = f.get("static") == "1" and f.get("dynamic") == "1" and not too_big
        if accepted and not spec_ok:
            mon_ok = False

            def still_fails(t, settings=settings):
                k2, kv2 = parse_kv(t)
                b2 = t
                if k2 in ("publish", "subscribe", "unsubscribe", "puback") and kv_get(kv2, "pid") == "0" and \
                        not (k2 == "publish" and kv_get(kv2, "qos") == "0"):
                    b2 = " ".join([k2] + [f"{k}={('7' if k == 'pid' else v)}" for k, v in kv2])
                o = harness_batch([f"validate.out | {t}", f"validate.outint {settings} | {b2}"])
                s2 = driver_batch([f"spec.valid {settings} | {t}"])[0]
                f2, _ = resp_fields(s2)
                return o[0] == "res=ok" and o[1] == "res=ok" and not (f2.get("static") == "1" and f2.get("dynamic") == "1")

            small = pkt if too_big and f.get("static") == "1" and f.get("dynamic") == "1" else shrink_packet(pkt, still_fails)
            report.add_finding(Finding(prop, "mon:nothing-invalid-accepted", classify_validation(small, settings, spec, too_big),
                                       "a packet that breaks a static rule or an announced server limit passes both validators",
                                       [f"validate.out | {small}", f"validate.outint {settings} | {small}", "# spec: " + spec]))
        if not accepted and spec_ok:
            report.count("validate.valid-but-rejected")
    report.sample({"request": reqs[1][:300], "impl": impl[1]})
    report.sample({"request": reqs[4][:300], "impl": impl[3]})
    report.obligation("corr:validate", "correspondence", corr_ok, f"{2 * len(metas)} validator calls")
    report.obligation("mon:nothing-invalid-accepted", "monitor", mon_ok, "accepted by both validators => valid per Spec/Validity and within the announced packet size")


def classify_validation(pkt, settings, spec, too_big):
    """a stable signature: packet kind, which clause of the standard is broken, and the shape of the offending filter"""
    kind, kv = parse_kv(pkt)
    f, _ = resp_fields(spec)
    _, skv = parse_kv("s " + settings)
    clause = "size" if too_big else ("static" if f.get("static") != "1" else "dynamic")
    detail = ""
    filters = [unhex(v.split(":")[0]) for k, v in kv if k in ("sub", "tf")]
    if kv_get(kv, "subid") is not None and kv_get(skv, "sia") == "0":
        # is the subscription identifier the only thing wrong?
        without = " ".join([kind] + [f"{k}={v}" for k, v in kv if k != "subid"])
        f2, _ = resp_fields(driver_batch([f"spec.valid {settings} | {without}"])[0])
        if f2.get("static") == "1" and f2.get("dynamic") == "1":
            detail = "subscription-identifier-unavailable"
    if not detail and any(fl.startswith(b"$share") for fl in filters):
        detail = "share-prefix-filter"
    return {"kind": kind, "clause": clause, "detail": detail}
