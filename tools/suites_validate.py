"""C16: validators vs model (correspondence) and vs the standard's validity predicate (monitor)."""
import gen_codec as G
from gv import Rng, Finding, harness_batch, driver_batch, parse_kv, kv_get, resp_fields, unhex, hexs
from suites_codec import shrink_packet, packet_signature


def encoded_len(pkt, v, harness):
    r = harness_batch([f"encode v={v} caps=4096 | {pkt}"])[0]
    f, _ = resp_fields(r)
    if f.get("res") != "ok":
        return None
    return sum(len(unhex(x)) for x in f.get("chunks", "").split(",") if x)


def suite_connect_limits(report, tier, seed, prop="C16"):
    """CONNECT options are user-constructed too: a string/binary field above 65535 bytes must never reach the wire
    (either the connection attempt is failed locally, or the CONNECT is well-formed and carries the field intact)"""
    from gv import Finding
    rng = Rng(seed, "connect-limits")
    fields = ["cid", "user", "pass", "w.payload", "w.topic", "up"]
    reqs, metas = [], []
    for fld in fields:
        for n in (65535, 65536, 70000):
            big = "x" + "61" * n
            opts = "ka=60 cid=x63"
            if fld == "cid":
                opts = f"ka=60 cid={big}"
            elif fld in ("user", "pass"):
                opts += f" {fld}={big}"
            elif fld == "w.payload":
                opts += f" w.topic=x77 w.qos=0 w.payload={big}"
            elif fld == "w.topic":
                opts += f" w.topic={big} w.qos=0"
            else:
                opts += f" up=x6b:{big}"
            reqs += ["session.reset", f"eng.new v=5 policy=all | {opts}", "eng.open t=0 deadline=30000", "eng.svc t=0 cap=200000 prefill=0"]
            metas.append((fld, n, len(reqs) - 1))
    impl = harness_batch(reqs)
    ok = True
    dec_reqs = []
    for fld, n, pos in metas:
        f, _ = resp_fields(impl[pos])
        dec_reqs.append(f"spec.decode v=5 b={f.get('bytes', 'x')}")
    dec = driver_batch(dec_reqs)
    for (fld, n, pos), d in zip(metas, dec):
        report.case(reqs[pos - 2])
        f, _ = resp_fields(impl[pos])
        sent = len(unhex(f.get("bytes", "x")))
        fd, segs = resp_fields(d)
        wellformed = fd.get("n") == "1" and fd.get("left") == "0"
        intact = wellformed and ("61" * n) in segs[0]
        report.count("connect-limits." + ("sent" if sent else "not-sent"))
        if sent and not intact:
            ok = False
            report.add_finding(Finding(prop, "mon:connect-limits", {"clause": "connect-not-validated"},
                                       f"CONNECT option {fld} of {n} bytes: {sent} bytes were written that the reference decoder "
                                       f"{'decodes to different content' if wellformed else 'cannot decode'} (the length prefix is truncated modulo 65536)",
                                       reqs[pos - 2:pos + 1] if n < 66000 else [reqs[pos - 2][:200] + "...", reqs[pos - 1], reqs[pos]]))
    report.obligation("mon:connect-limits", "monitor", ok, f"{len(metas)} CONNECT option sets with a field at 65535 / 65536 / 70000 bytes")


def suite_validate(report, tier, seed, prop="C16"):
    rng = Rng(seed, "validate")
    n = 2500 if tier == "quick" else 60000
    cases = []
    enc_reqs = []
    # a fixed corpus first: every class of topic filter x what the server announced x No Local, for both packet kinds
    filters = [b"a/b", b"a/+/c", b"#", b"a/#", b"+", b"$share/g/a", b"$share/g/+/x", b"$share/g/#", b"$share/g/a/b/+",
               b"$share", b"$share/g", b"$share//a", b"$share/g/", b"$share/+/a", b"$share/g#/a", b"a/#/b", b"a+", b"", b"a\x00b", b"/", b"//", b"$sharex/g/a"]
    fixed = []
    for fl in filters:
        for nl in (0, 1):
            fixed.append(f"subscribe pid=0 sub={hexs(fl)}:1:{nl}:0:0")
        fixed.append(f"unsubscribe pid=0 tf={hexs(fl)}")
    corpus_settings = [f"mq=2 wsa={w} ssa={sh}" for w in (0, 1) for sh in (0, 1)]
    fixed_cases = [(pkt, st) for pkt in fixed for st in corpus_settings]
    forced = {}
    for pkt, st in fixed_cases:
        forced[len(cases)] = st
        cases.append(pkt)
        enc_reqs.append(f"encode v=5 caps=100000 | {pkt}")
    for _ in range(n):
        pkt = G.gen_validation_packet(rng)
        cases.append(pkt)
        # encoded size (v5), with a packet id so that it can be encoded as the engine would
        enc_reqs.append(f"encode v=5 caps=100000 | {pkt}")
    enc = harness_batch(enc_reqs)
    reqs, metas = [], []
    for pkt, e in zip(cases, enc):
        f, _ = resp_fields(e)
        size = None
        if f.get("res") == "ok":
            size = sum((len(x) - 1) // 2 for x in f.get("chunks", "").split(",") if x)
        settings = forced.get(len(metas)) or G.gen_settings(rng, size)
        # the internal validators see the packet with its packet id bound
        kind, kv = parse_kv(pkt)
        bound = pkt
        if kind in ("publish", "subscribe", "unsubscribe", "puback") and kv_get(kv, "pid") == "0" and \
                not (kind == "publish" and kv_get(kv, "qos") == "0"):
            bound = " ".join([kind] + [f"{k}={('7' if k == 'pid' else v)}" for k, v in kv])
        reqs.append(f"validate.out | {pkt}")
        reqs.append(f"validate.outint {settings} | {bound}")
        reqs.append(f"spec.valid {settings} | {pkt}")
        metas.append((pkt, bound, settings, size))
    impl = harness_batch([r for r in reqs if not r.startswith("spec.")])
    model = driver_batch(reqs)
    corr_ok, mon_ok = True, True
    static_ok, never_ok = True, True
    for i, (pkt, bound, settings, size) in enumerate(metas):
        i_out, i_int = impl[2 * i], impl[2 * i + 1]
        m_out, m_int, spec = model[3 * i], model[3 * i + 1], model[3 * i + 2]
        kind = pkt.split(" ")[0]
        report.case(f"{settings}|{pkt}")
        report.count("validate.kind." + kind)
        report.count("validate.static." + i_out.split("=")[1].split(":")[0])
        report.count("validate.dynamic." + i_int.split("=")[1].split(":")[0])
        for a, b, r in ((i_out, m_out, reqs[3 * i]), (i_int, m_int, reqs[3 * i + 1])):
            if a != b:
                corr_ok = False
                report.add_finding(Finding(prop, "corr:validate", packet_signature(pkt, 5, "model-vs-impl:" + a + "/" + b),
                                           "validator: implementation and model disagree", [r, "# impl: " + a, "# model: " + b], has_input=False))
        f, _ = resp_fields(spec)
        if kind == "connect":
            continue   # CONNECT is built by the client itself; covered at engine level (C07/C16 walks)
        report.traces_validated += 1
        accepted = i_out == "res=ok" and i_int == "res=ok"
        mps = kv_get(parse_kv("s " + settings)[1], "mps")
        too_big = size is not None and mps is not None and size > int(mps)
        spec_ok = f.get("static") == "1" and f.get("dynamic") == "1" and not too_big
        if accepted and not spec_ok:
            mon_ok = False

            def still_fails(t, settings=settings):
                k2, kv2 = parse_kv(t)
                b2 = t
                if k2 in ("publish", "subscribe", "unsubscribe", "puback") and kv_get(kv2, "pid") == "0" and \
                        not (k2 == "publish" and kv_get(kv2, "qos") == "0"):
                    b2 = " ".join([k2] + [f"{k}={('7' if k == 'pid' else v)}" for k, v in kv2])
                o = harness_batch([f"validate.out | {t}", f"validate.outint {settings} | {b2}"])
                s2 = driver_batch([f"spec.valid {settings} | {t}"])[0]
                f2, _ = resp_fields(s2)
                return o[0] == "res=ok" and o[1] == "res=ok" and not (f2.get("static") == "1" and f2.get("dynamic") == "1")

            small = pkt if too_big and f.get("static") == "1" and f.get("dynamic") == "1" else shrink_packet(pkt, still_fails)
            report.add_finding(Finding(prop, "mon:nothing-invalid-accepted", classify_validation(small, settings, spec, too_big),
                                       "a packet that breaks a static rule or an announced server limit passes both validators",
                                       [f"validate.out | {small}", f"validate.outint {settings} | {small}", "# spec: " + spec]))
        user_pid0 = kv_get(parse_kv(pkt)[1], "pid") in (None, "0")
        # "at submission for static rules": what breaks a rule about the packet alone does not get past the submission check
        if kind in ("publish", "subscribe", "unsubscribe", "disconnect") and f.get("static") == "0" and i_out == "res=ok":
            static_ok = False

            def still_static(t):
                o = harness_batch([f"validate.out | {t}"])[0]
                f2, _ = resp_fields(driver_batch([f"spec.valid {settings} | {t}"])[0])
                return o == "res=ok" and f2.get("static") == "0"
            small = shrink_packet(pkt, still_static)
            report.add_finding(Finding(prop, "mon:static-rules-at-submission", {"kind": kind, "clause": "static-rule-not-checked-at-submission"},
                                       "a packet that breaks a static rule of the specification passes the submission check (it is queued, and fails - if at all - only when a connection reaches it)",
                                       [f"validate.out | {small}", "# impl: res=ok", "# spec: " + driver_batch([f"spec.valid {settings} | {small}"])[0]]))
        # "an operation that satisfies all of them is never rejected by validation"
        if not accepted and spec_ok and size is not None and user_pid0:
            report.count("validate.valid-but-rejected")
            never_ok = False

            def still_rejected(t, settings=settings):
                k2, kv2 = parse_kv(t)
                if kv_get(kv2, "pid") not in (None, "0"):
                    return False
                b2 = t
                if k2 in ("publish", "subscribe", "unsubscribe", "puback") and not (k2 == "publish" and kv_get(kv2, "qos") == "0"):
                    b2 = " ".join([k2] + [f"{k}={('7' if k == 'pid' else v)}" for k, v in kv2])
                o = harness_batch([f"validate.out | {t}", f"validate.outint {settings} | {b2}"])
                f2, _ = resp_fields(driver_batch([f"spec.valid {settings} | {t}"])[0])
                e2 = encoded_len(b2, 5, None)
                return not (o[0] == "res=ok" and o[1] == "res=ok") and f2.get("static") == "1" and f2.get("dynamic") == "1" and \
                    e2 is not None and (mps is None or e2 <= int(mps))
            small = shrink_packet(pkt, still_rejected)
            which = "submission" if i_out != "res=ok" else "send-time"
            detail = ""
            k3, kv3 = parse_kv(small)
            fl = [unhex(v.split(":")[0]) for k, v in kv3 if k in ("sub", "tf")]
            if k3 == "unsubscribe" and any(x.startswith(b"$share/") for x in fl):
                detail = "shared-filter"
            elif k3 == "unsubscribe" and any(b"#" in x or b"+" in x for x in fl):
                detail = "wildcard-filter"
            report.add_finding(Finding(prop, "mon:valid-never-rejected", {"kind": k3, "clause": "valid-operation-rejected", "where": which, "detail": detail},
                                       f"an operation that breaks no static rule and no limit the server announced is rejected by the {which} validation",
                                       [f"validate.out | {small}", f"validate.outint {settings} | {small}", "# impl: " + i_out + " / " + i_int, "# spec: " + spec]))
    report.sample({"request": reqs[1][:300], "impl": impl[1]})
    report.sample({"request": reqs[4][:300], "impl": impl[3]})
    report.obligation("corr:validate", "correspondence", corr_ok, f"{2 * len(metas)} validator calls")
    report.obligation("mon:nothing-invalid-accepted", "monitor", mon_ok, "accepted by both validators => valid per Spec/Validity and within the announced packet size")
    report.obligation("mon:static-rules-at-submission", "monitor", static_ok, "breaks a static rule per Spec/Validity => refused by the submission check")
    report.obligation("mon:valid-never-rejected", "monitor", never_ok, "valid per Spec/Validity and within the announced packet size => accepted by both validators")


def classify_validation(pkt, settings, spec, too_big):
    """a stable signature: packet kind, which clause of the standard is broken, and the shape of the offending filter"""
    kind, kv = parse_kv(pkt)
    f, _ = resp_fields(spec)
    _, skv = parse_kv("s " + settings)
    clause = "size" if too_big else ("static" if f.get("static") != "1" else "dynamic")
    detail = ""
    filters = [unhex(v.split(":")[0]) for k, v in kv if k in ("sub", "tf")]
    if kv_get(kv, "subid") is not None and kv_get(skv, "sia") == "0":
        # is the subscription identifier the only thing wrong?
        without = " ".join([kind] + [f"{k}={v}" for k, v in kv if k != "subid"])
        f2, _ = resp_fields(driver_batch([f"spec.valid {settings} | {without}"])[0])
        if f2.get("static") == "1" and f2.get("dynamic") == "1":
            detail = "subscription-identifier-unavailable"
    if not detail and any(fl.startswith(b"$share") for fl in filters):
        detail = "share-prefix-filter"
    return {"kind": kind, "clause": clause, "detail": detail}


def suite_huge_publish(report, tier, seed, prop="C16"):
    """payload sizes around and beyond what the fixed header (2^28 - 1) and a 32-bit length can express: the size check must
    hold, whatever the arithmetic width of the implementation.  The payload is described by its length only (`padpayload`):
    the implementation gets a zero-filled vector whose pages are never touched, the model adds the length."""
    rng = Rng(seed, "huge-publish")
    sizes = [0, 10, 65530, 65536, 100000, (1 << 28) - 20, (1 << 28) - 6, (1 << 28) - 5, (1 << 28), (1 << 28) + 100, 300000000,
             (1 << 32) - 1, (1 << 32), (1 << 32) + 5, (1 << 32) + 70000, (1 << 33) + 7]
    mpss = [65536, 1 << 20, (1 << 28) - 1, 268435460, 4294967295]
    reqs, metas = [], []
    for n in sizes:
        for mps in mpss:
            qos = rng.choice([0, 1])
            pkt = f"publish pid={7 if qos else 0} topic=x61 qos={qos} retain=0"
            reqs.append(f"validate.outint mps={mps} padpayload={n} | {pkt}")
            metas.append((n, mps, qos))
    impl = harness_batch(reqs)
    model = driver_batch(reqs)
    corr_ok, mon_ok = True, True
    for r, (n, mps, qos), a, b in zip(reqs, metas, impl, model):
        report.case(r)
        report.traces_validated += 1
        report.count("huge-publish." + a.split("=")[1].split(":")[0])
        if a != b:
            corr_ok = False
            report.add_finding(Finding(prop, "corr:huge-publish", {"clause": "model-vs-impl", "verb": "validate.outint"},
                                       "size validation of a huge PUBLISH: implementation and model disagree", [r, "# impl:  " + a, "# model: " + b], has_input=False))
        # independent arithmetic: fixed header byte + remaining length field + remaining length
        rl = 2 + 1 + (2 if qos else 0) + 1 + n
        total = 1 + (1 if rl < 128 else 2 if rl < 16384 else 3 if rl < 2097152 else 4) + rl
        if a == "res=ok" and (rl > (1 << 28) - 1 or total > mps):
            mon_ok = False
            report.add_finding(Finding(prop, "mon:huge-publish", {"clause": "oversize-accepted"},
                                       f"a PUBLISH of {total} bytes (remaining length {rl}) passes send-time validation although the server's maximum packet size is {mps}"
                                       + (" and the fixed header cannot express that length" if rl > (1 << 28) - 1 else ""), [r, "# impl: " + a]))
    report.obligation("corr:huge-publish", "correspondence", corr_ok, f"{len(reqs)} size validations with payloads up to 2^33 bytes")
    report.obligation("mon:huge-publish", "monitor", mon_ok, "accepted => remaining length expressible and total size within the server's maximum")


def suite_huge_subscribe(report, tier, seed, prop="C16"):
    """SUBSCRIBE / UNSUBSCRIBE packets whose remaining length no 32-bit integer holds (4 GiB of topic filters): the length
    functions must refuse them, whatever the arithmetic width of the implementation.  The extra subscriptions are described by
    count and filter length only (`padsubs=<n>x<len>`): the implementation materialises them (4 GiB of 'a'), the model adds
    n * (3 + len) (Proofs/Validate.lean: subscribeLengths5_pad and siblings).  Small paddings tie the padding itself;
    the quick tier runs one 4 GiB case (a few filters of 64 MiB: the encoder does not look at filter lengths), the thorough tier
    also 65541 filters of 65535 bytes, which the validators accept filter by filter."""
    small = []
    for n, ln in ((0, 5), (1, 1), (3, 10), (17, 100), (2, 65535), (5, 65536), (300, 1000)):
        for pkt in ("subscribe pid=7 sub=x61:1:0:0:0", "unsubscribe pid=7 filters=x61"):
            small.append(f"validate.outint mps=268435455 padsubs={n}x{ln} | {pkt}")
            small.append(f"validate.outint mps=2000 padsubs={n}x{ln} | {pkt}")
            for v in (5, 311):
                small.append(f"encode.head v={v} padsubs={n}x{ln} | {pkt}")
    huge = ["encode.head v=311 padsubs=64x67108864 | subscribe pid=7 sub=x61:1:0:0:0"]
    if tier != "quick":
        huge += ["encode.head v=5 padsubs=64x67108864 | subscribe pid=7 sub=x61:1:0:0:0",
                 "encode.head v=311 padsubs=64x67108864 | unsubscribe pid=7 filters=x61",
                 "encode.head v=5 padsubs=64x67108864 | unsubscribe pid=7 filters=x61",
                 "validate.outint mps=268435455 padsubs=65541x65535 | subscribe pid=7 sub=x61:1:0:0:0",
                 "validate.outint mps=268435455 padsubs=65541x65535 | unsubscribe pid=7 filters=x61",
                 "validate.outint mps=268435455 padsubs=4200x65535 | subscribe pid=7 sub=x61:1:0:0:0"]
    reqs = small + huge
    impl = harness_batch(reqs)
    model = driver_batch(reqs)
    corr_ok, mon_ok = True, True
    for r, a, b in zip(reqs, impl, model):
        report.case(r)
        report.traces_validated += 1
        report.count("huge-subscribe." + a.split("=")[1].split(":")[0].split(" ")[0])
        if a != b:
            corr_ok = False
            report.add_finding(Finding(prop, "corr:huge-subscribe", {"clause": "model-vs-impl", "verb": r.split(" ")[0]},
                                       "lengths of a padded SUBSCRIBE / UNSUBSCRIBE: implementation and model disagree", [r, "# impl:  " + a, "# model: " + b], has_input=False))
        # independent arithmetic on the request itself
        n, ln = (int(x) for x in r.split("padsubs=")[1].split(" ")[0].split("x"))
        sub = " | subscribe" in r
        v5 = "v=311" not in r
        per = (3 if sub else 2) + ln
        base = 2 + (1 if v5 else 0) + ((3 if sub else 2) + 1)
        rl = base + n * per
        if a.startswith("res=ok") and rl > (1 << 28) - 1:
            mon_ok = False
            report.add_finding(Finding(prop, "mon:huge-subscribe", {"clause": "oversize-accepted", "verb": r.split(" ")[0]},
                                       f"a {'SUBSCRIBE' if sub else 'UNSUBSCRIBE'} with a remaining length of {rl} bytes - more than the fixed header can express - "
                                       + ("passes send-time validation" if r.startswith("validate") else "is encoded, with the truncated remaining length " + a.split("hdr=")[-1]), [r, "# impl: " + a]))
    report.obligation("corr:huge-subscribe", "correspondence", corr_ok, f"{len(reqs)} padded SUBSCRIBE / UNSUBSCRIBE packets up to 4 GiB")
    report.obligation("mon:huge-subscribe", "monitor", mon_ok, "accepted / encoded => the remaining length is expressible (independent arithmetic)")
