#!/usr/bin/env python3
"""sweep.py <first seed> <last seed> [tier] [jobs]: run every check on the unchanged tree for many seeds; any VIOLATION
is a false alarm or a genuine defect to be looked at.  Results: sweep_results.txt, failing replays copied to sweep_replays/."""
import os, subprocess, sys, shutil, json
from concurrent.futures import ThreadPoolExecutor
VERIF = os.path.dirname(os.path.dirname(os.path.abspath(__file__)))
ids = [json.loads(l)["id"] for l in open(os.path.join(VERIF, "properties.jsonl"))]
first, last = int(sys.argv[1]), int(sys.argv[2])
tier = sys.argv[3] if len(sys.argv) > 3 else "quick"
jobs = int(sys.argv[4]) if len(sys.argv) > 4 else 6
out = open(os.path.join(VERIF, "sweep_results.txt"), "a")


def run_prop(pid):
    bad = []
    for seed in range(first, last + 1):
        env = dict(os.environ, VERIF_SEED=str(seed), VERIF_TIER=tier)
        r = subprocess.run(["./check", pid, "--tier", tier], cwd=VERIF, env=env, capture_output=True, text=True)
        line = (r.stdout.strip().split("\n") or [""])[-1]
        viol = [l for l in r.stdout.split("\n") if l.startswith("VIOLATION")]
        if r.returncode != 0 or viol:
            d = os.path.join(VERIF, "sweep_replays", f"{pid}-seed{seed}")
            os.makedirs(d, exist_ok=True)
            for v in viol:
                path = v.split("replay=")[1].split(" ")[0]
                if os.path.exists(path):
                    shutil.copy(path, d)
            bad.append(seed)
            out.write(f"{pid} seed={seed} rc={r.returncode} {line}\n")
            out.flush()
    out.write(f"{pid} done seeds {first}..{last} tier={tier} alarms={bad}\n")
    out.flush()
    return pid, bad


with ThreadPoolExecutor(jobs) as ex:
    for pid, bad in ex.map(run_prop, ids):
        print(pid, "alarms:", bad, flush=True)
