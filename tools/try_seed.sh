#!/bin/sh
# try_seed.sh <patch.diff> <prop> [<prop>...]: apply a seeded change to /repo, run the checks, undo it.
patch=$1; shift
git -C /repo apply "$patch" || { echo "patch does not apply to /repo"; exit 2; }
for p in "$@"; do
  echo "=== $p on seeded tree"; (cd /verif && ./check $p ${TIER:+--tier $TIER} 2>&1 | grep -E "VIOLATION|KNOWN|OK$|-> " | cut -c1-250 | head -8)
done
git -C /repo checkout -- .
(cd /verif/harness && cargo build --release --offline 2>&1 | grep -E "^error" )
echo "(reverted)"
