#!/bin/sh
# try_seed.sh <patch.diff> <prop> [<prop>...]: apply a seeded change to /repo, run the checks, undo it.
patch=$1; shift
git -C /repo apply "$patch" || { echo "patch does not apply to /repo"; exit 2; }
for p in "$@"; do
  out=$(cd /verif && ./check $p ${TIER:+--tier $TIER} 2>&1)
  total=$(echo "$out" | grep -c "^VIOLATION")
  noinput=$(echo "$out" | grep "^VIOLATION" | grep -c "no-failing-input-found")
  echo "=== $p on seeded tree: $total VIOLATION lines, $((total - noinput)) with a concrete failing input"
  echo "$out" | grep -E "^VIOLATION" | grep -v "no-failing-input-found" | head -2
  echo "$out" | tail -1
done
git -C /repo checkout -- .
(cd /verif/harness && cargo build --release --offline 2>&1 | grep -E "^error" )
echo "(reverted)"
