#!/bin/sh
# try_seed_wt.sh <patch.diff> <prop> [<prop>...]
# Like try_seed.sh, but leaves /repo alone: a scratch worktree of /repo's HEAD gets the patch, a scratch copy of /verif
# gets its harness pointed at that worktree, and the checks run there.  For development only (a registered check always
# builds from /repo itself); everything it creates under /tmp is removed at the end.
patch=$(realpath "$1"); shift
tag=$$
wt=/tmp/seedwt-$tag
vc=/tmp/seedverif-$tag
git -C /repo worktree add --detach "$wt" HEAD >/dev/null 2>&1 || { echo "cannot create worktree"; exit 2; }
git -C "$wt" apply "$patch" || { echo "patch does not apply to /repo HEAD"; git -C /repo worktree remove --force "$wt"; exit 2; }
mkdir -p "$vc"
src=${VERIF_SRC:-/verif}
rsync -a --exclude .build/target --exclude .git --exclude evidence "$src"/ "$vc"/
mkdir -p "$vc/evidence" "$vc/.build"
cp -r "$src/.build/target" "$vc/.build/target" 2>/dev/null
sed -i "s#/repo/#$wt/#g" "$vc/harness/Cargo.toml"
sed -i "s#^REPO = \"/repo\"#REPO = \"$wt\"#" "$vc/tools/gv.py"
for p in "$@"; do
  out=$(cd "$vc" && ./check $p ${TIER:+--tier $TIER} 2>&1)
  total=$(echo "$out" | grep -c "^VIOLATION")
  noinput=$(echo "$out" | grep "^VIOLATION" | grep -c "no-failing-input-found")
  if echo "$out" | grep -q "obligations 0/1 evaluations=0"; then
    echo "=== $p on seeded tree: BUILD-FAILED (the seeded tree does not compile: not a valid seed for this HEAD)"
    continue
  fi
  echo "=== $p on seeded tree: $total VIOLATION lines, $((total - noinput)) with a concrete failing input"
  echo "$out" | grep -E "^VIOLATION" | grep -v "no-failing-input-found" | head -2
  echo "$out" | tail -1
  if [ -n "$KEEP" ]; then mkdir -p "$KEEP"; cp -r "$vc/evidence" "$KEEP/evidence-$p" 2>/dev/null; cp -r "$vc/replays" "$KEEP/" 2>/dev/null; fi
done
rm -rf "$vc"
git -C /repo worktree remove --force "$wt"
echo "(scratch removed)"
