"""State-aware random walks over the protocol engine, with a small reference broker that tracks what the
client has sent (to produce plausible, late, duplicate, wrong-type or unknown-id responses).

The walk drives the *implementation* interactively (it needs the emitted bytes to know what to
acknowledge) and records a fully concrete script; the model then replays that script in batch.
"""
from gv import hexs, unhex, parse_kv, kv_get, resp_fields


# ------------------------------------------------------------------------------------------------
# minimal client->server stream parser (drives the broker only; judgement is done by Spec/Codec.lean)
# ------------------------------------------------------------------------------------------------

def read_vli(buf, i):
    mult, val = 1, 0
    for k in range(4):
        if i + k >= len(buf):
            return None, i
        b = buf[i + k]
        val += (b & 0x7F) * mult
        mult *= 128
        if b < 0x80:
            return val, i + k + 1
    return -1, i


def split_packets(buf):
    """-> (list of (first byte, body bytes), leftover)"""
    out, i = [], 0
    while i < len(buf):
        if i + 1 >= len(buf):
            break
        rl, j = read_vli(buf, i + 1)
        if rl is None:
            break
        if rl < 0:
            return out, b"", True
        if j + rl > len(buf):
            break
        out.append((buf[i], bytes(buf[j:j + rl])))
        i = j + rl
    return out, bytes(buf[i:]), False


def skip_props(body, i):
    n, j = read_vli(body, i)
    if n is None or n < 0:
        return len(body)
    return j + n


def describe(first, body, v5):
    """-> dict(kind, pid, qos, dup, n) — best effort"""
    t = first >> 4
    d = {"type": t, "first": first}
    try:
        if t == 3:
            q = (first >> 1) & 3
            tl = (body[0] << 8) | body[1]
            i = 2 + tl
            d.update(kind="publish", qos=q, dup=(first >> 3) & 1, topic=bytes(body[2:2 + tl]))
            if q:
                d["pid"] = (body[i] << 8) | body[i + 1]
                i += 2
            if v5:
                i = skip_props(body, i)
            d["payload"] = bytes(body[i:])
        elif t in (4, 5, 6, 7):
            d.update(kind={4: "puback", 5: "pubrec", 6: "pubrel", 7: "pubcomp"}[t], pid=(body[0] << 8) | body[1])
        elif t == 8:
            pid = (body[0] << 8) | body[1]
            i = 2
            if v5:
                i = skip_props(body, i)
            n = 0
            first_filter = None
            while i + 2 <= len(body):
                fl = (body[i] << 8) | body[i + 1]
                if first_filter is None:
                    first_filter = bytes(body[i + 2:i + 2 + fl])
                i += 2 + fl + 1
                n += 1
            d.update(kind="subscribe", pid=pid, n=n, filter=first_filter)
        elif t == 10:
            pid = (body[0] << 8) | body[1]
            i = 2
            if v5:
                i = skip_props(body, i)
            n = 0
            first_filter = None
            while i + 2 <= len(body):
                fl = (body[i] << 8) | body[i + 1]
                if first_filter is None:
                    first_filter = bytes(body[i + 2:i + 2 + fl])
                i += 2 + fl
                n += 1
            d.update(kind="unsubscribe", pid=pid, n=n, filter=first_filter)
        elif t == 1:
            d.update(kind="connect", clean=bool(body[7] & 2))
        elif t == 12:
            d.update(kind="pingreq")
        elif t == 14:
            d.update(kind="disconnect")
        else:
            d.update(kind="other")
    except IndexError:
        d.update(kind="garbled")
    return d


def enc_vli(n):
    out = bytearray()
    while True:
        b = n % 128
        n //= 128
        if n:
            out.append(b | 0x80)
        else:
            out.append(b)
            return bytes(out)


def frame(first, body):
    return bytes([first]) + enc_vli(len(body)) + bytes(body)


def u16(n):
    return bytes([(n >> 8) & 0xFF, n & 0xFF])


def utf8(b):
    return u16(len(b)) + b


def prop_u8(i, v):
    return bytes([i, v])


def prop_u16(i, v):
    return bytes([i]) + u16(v)


def prop_u32(i, v):
    return bytes([i]) + v.to_bytes(4, "big")


class Broker:
    """what a server knows about this client; produces bytes for the walk to deliver"""

    def __init__(self, rng, v5):
        self.rng = rng
        self.v5 = v5
        self.buf = b""                 # undecoded client bytes of the current connection
        self.pending = []              # responses owed: dict(kind, pid, ...)
        self.session = False           # does the server hold a session for the client?
        self.qos2_received = set()     # client->server QoS2 ids seen (PUBREC sent), awaiting PUBREL
        self.out_qos2 = {}             # server->client QoS2: pid -> state ('sent','rel')
        self.next_out_pid = 1
        self.seen = []                 # every client packet of this connection, in order
        self.connect_seen = False
        self.connack_sent = False
        self.alias_tbl = {}
        self.old_aliases = set()       # alias numbers this server bound on earlier connections (stale now)

    def new_connection(self):
        self.awaiting_pubrel = set()
        self.buf = b""
        self.pending = []
        self.seen = []
        self.connect_seen = False
        self.connack_sent = False
        self.old_aliases |= set(self.alias_tbl)
        self.alias_tbl = {}

    def feed(self, data):
        self.buf += data
        pkts, rest, bad = split_packets(self.buf)
        self.buf = rest
        out = []
        for first, body in pkts:
            d = describe(first, body, self.v5)
            out.append(d)
            self.seen.append(d)
            k = d.get("kind")
            if k == "connect":
                self.connect_seen = True
                self.clean_start = d.get("clean", False)
            elif k == "publish" and d.get("qos") == 1:
                self.pending.append({"kind": "puback", "pid": d["pid"]})
            elif k == "publish" and d.get("qos") == 2:
                self.pending.append({"kind": "pubrec", "pid": d["pid"]})
            elif k == "pubrel":
                self.pending.append({"kind": "pubcomp", "pid": d["pid"]})
                getattr(self, "awaiting_pubrel", set()).discard(d["pid"])
            elif k == "subscribe":
                self.pending.append({"kind": "suback", "pid": d["pid"], "n": d["n"]})
            elif k == "unsubscribe":
                self.pending.append({"kind": "unsuback", "pid": d["pid"], "n": d["n"]})
            elif k == "pingreq":
                self.pending.append({"kind": "pingresp"})
            elif k == "pubrec":
                self.pending.append({"kind": "pubrel", "pid": d["pid"]})
        return out

    # ---- encoders for server packets (driving only; deliberately simple) ----

    def ack(self, kind, pid, rc=0, props=False):
        first = {"puback": 0x40, "pubrec": 0x50, "pubrel": 0x62, "pubcomp": 0x70}[kind]
        if not self.v5:
            return frame(first, u16(pid))
        if rc == 0 and not props:
            return frame(first, u16(pid))
        if not props:
            return frame(first, u16(pid) + bytes([rc]))
        p = bytes([31]) + utf8(b"why")
        return frame(first, u16(pid) + bytes([rc]) + enc_vli(len(p)) + p)

    def suback(self, pid, codes):
        if self.v5:
            return frame(0x90, u16(pid) + b"\x00" + bytes(codes))
        return frame(0x90, u16(pid) + bytes(codes))

    def unsuback(self, pid, codes):
        if self.v5:
            return frame(0xB0, u16(pid) + b"\x00" + bytes(codes))
        return frame(0xB0, u16(pid))

    def connack(self, sp, rc, caps):
        if not self.v5:
            return frame(0x20, bytes([1 if sp else 0, {0: 0, 135: 5, 136: 3}.get(rc, 0)]))
        p = b""
        for k, v in caps.items():
            if k == "rm":
                p += prop_u16(33, v)
            elif k == "mq":
                p += prop_u8(36, v)
            elif k == "ra":
                p += prop_u8(37, v)
            elif k == "mps":
                p += prop_u32(39, v)
            elif k == "tam":
                p += prop_u16(34, v)
            elif k == "wsa":
                p += prop_u8(40, v)
            elif k == "sia":
                p += prop_u8(41, v)
            elif k == "ssa":
                p += prop_u8(42, v)
            elif k == "ska":
                p += prop_u16(19, v)
            elif k == "acid":
                p += bytes([18]) + utf8(v)
            elif k == "sei":
                p += prop_u32(17, v)
        return frame(0x20, bytes([1 if sp else 0, rc]) + enc_vli(len(p)) + p)

    def publish(self, qos, pid, dup, topic, payload, alias=None):
        first = 0x30 | (8 if dup else 0) | (qos << 1)
        body = utf8(topic) + (u16(pid) if qos else b"")
        if self.v5:
            p = prop_u16(35, alias) if alias is not None else b""
            body += enc_vli(len(p)) + p
        return frame(first, body + payload)


POLICIES = ["all", "acked", "qos1plus", "nothing"]


def gen_config(rng, adversarial=False, profile="default"):
    v = rng.choice([5, 5, 311])
    if profile == "backlog":
        v = 5 if rng.chance(0.8) else 311
    cfg = {"v": v, "policy": rng.choice(POLICIES), "drain": rng.choice(["none", "none", "one"]),
           "pingto": rng.choice([0, 1, 500, 1000, 10000, 30000]), "resolver": rng.choice(["none", "null", "manual", "lru"]),
           "rmax": rng.choice([0, 1, 2, 5])}
    if rng.chance(0.4):
        cfg["retries"] = rng.choice([0, 1, 2])
    ka = rng.choice([None, 0, 1, 2, 3, 5, 60, 1200, 65535]) if adversarial else rng.choice([0, 2, 3, 5, 60, 1200])
    co = []
    if ka is not None:
        co.append(f"ka={ka}")
    co.append(f"rejoin={rng.choice(['post', 'always', 'never'])}")
    if rng.chance(0.7):
        co.append("cid=" + hexs(b"cl" + bytes([rng.randint(0x61, 0x7a)])))
    if rng.chance(0.3):
        co.append("user=" + hexs(b"u"))
    if rng.chance(0.3):
        co.append("pass=" + hexs(b"\x01\x02"))
    if rng.chance(0.4):
        co.append(f"sei={rng.choice([0, 10, 3600])}")
    if rng.chance(0.3):
        co.append(f"rm={rng.choice([1, 10, 65535])}")
    if rng.chance(0.4):
        co.append(f"tam={rng.choice([0, 1, 3, 10])}")
    if rng.chance(0.2):
        co.append(f"mps={rng.choice([64, 200, 100000])}")
    if rng.chance(0.2):
        co.append("w.topic=" + hexs(b"will/t") + f" w.qos={rng.choice([0, 1, 2])} w.payload=" + hexs(b"bye"))
    if rng.chance(0.2):
        co.append("up=" + hexs(b"k") + ":" + hexs(b"v"))
    if profile == "qos2tiny":
        cfg["policy"] = "all"
        cfg.pop("retries", None)
        cfg["drain"] = "none"
        co = [x for x in co if not x.startswith("rejoin=") and not x.startswith("mps=") and not x.startswith("w.") and not x.startswith("up=")]
        co.append("rejoin=always")
    if profile == "mpstight":
        # publishes sized around the server's maximum packet size, with outbound aliasing in play
        cfg["v"] = 5
        cfg["resolver"] = rng.choice(["manual", "lru", "lru"])
        cfg["rmax"] = rng.choice([2, 5])
        co = [x for x in co if not x.startswith("mps=")]
    if profile == "inalias":
        # inbound aliasing across connections: the client allows aliases, sessions are resumed
        cfg["v"] = 5
        co = [x for x in co if not x.startswith("tam=") and not x.startswith("rejoin=") and not x.startswith("mps=")]
        co.append(f"tam={rng.choice([1, 3, 3, 10])}")
        co.append(f"rejoin={rng.choice(['post', 'always'])}")
    if profile == "backlog":
        # many unacknowledged operations across resumed sessions: retain everything, rejoin sessions
        cfg["policy"] = rng.choice(["all", "all", "acked"])
        cfg.pop("retries", None)
        co = [x for x in co if not x.startswith("rejoin=") and not x.startswith("mps=")]
        co.append(f"rejoin={rng.choice(['post', 'always'])}")
    if profile == "connects":
        # the CONNECT the client builds: every optional field of the options and of the will, no / empty client id,
        # wills whose topic or response topic is not a topic name
        co = [x for x in co if not x.startswith("cid=") and not x.startswith("w.")]
        r = rng.randint(0, 9)
        if r < 4:
            co.append("cid=" + hexs(b"cl" + bytes([rng.randint(0x61, 0x7a)])))
        elif r < 6:
            co.append("cid=x")
        if rng.chance(0.3):
            co.append(f"rri={rng.choice([0, 1])}")
        if rng.chance(0.3):
            co.append(f"rpi={rng.choice([0, 1])}")
        if rng.chance(0.6):
            wt = rng.choice([b"will/t", b"w", b"will/t", b"a/b/c", b"a/#", b"", b"+/status", b"#", b"a//b", b"$sys/w"])
            w = ["w.topic=" + hexs(wt), f"w.qos={rng.choice([0, 1, 2])}", f"w.retain={rng.choice([0, 1])}"]
            if rng.chance(0.7):
                w.append("w.payload=" + hexs(bytes(rng.randint(0, 255) for _ in range(rng.choice([0, 1, 3, 40])))))
            if rng.chance(0.3):
                w.append("w.rt=" + hexs(rng.choice([b"r/t", b"r/t", b"r/+", b"", b"r/#"])))
            if rng.chance(0.3):
                w.append("w.cd=" + hexs(b"\x00\x01c"))
            if rng.chance(0.3):
                w.append("w.ct=" + hexs(b"text/plain"))
            if rng.chance(0.3):
                w.append(f"w.mei={rng.choice([0, 1, 4294967295])}")
            if rng.chance(0.3):
                w.append(f"w.pfi={rng.choice([0, 1])}")
            if rng.chance(0.3):
                w.append("w.up=" + hexs(b"wk") + ":" + hexs(b"wv"))
            co += w
            if rng.chance(0.4):
                co.append(f"wdi={rng.choice([0, 1, 3600])}")
    head = " ".join(f"{k}={val}" for k, val in cfg.items())
    return cfg, f"eng.new {head} | " + " ".join(co), ka


class Walk:
    def __init__(self, rng, harness, adversarial=False, strict_driver=False, length=80, snap_after_svc=False, profile="default"):
        self.rng = rng
        self.h = harness
        self.adv = adversarial or profile == "inalias"
        self.strict = strict_driver
        self.length = length
        self.snap_after_svc = snap_after_svc
        self.profile = profile
        self.done = set()       # user operations resolved so far
        self.script = []        # concrete request lines
        self.out = []           # implementation responses
        self.notes = []         # per line: annotation dict for monitors
        self.t = 0
        self.connected = False  # network-level
        self.errored = False    # an entry point returned Err since the last close
        self.buf_len = 0        # bytes handed out by service and not yet write-completed
        self.cap = 4096
        self.nuser = 0
        self.cfg, self.new_line, self.ka = gen_config(rng, self.adv, profile)
        _ckv = parse_kv("c " + self.new_line.split(" | ", 1)[1])[1]
        self.client_tam = int(kv_get(_ckv, "tam", "0"))
        self.connect_kv = _ckv
        self.v5 = self.cfg["v"] == 5
        self.broker = Broker(rng, self.v5)
        self.dead = False       # implementation panicked / died
        self.conn_index = 0
        self.caps_sent = {}
        self.resets = 0

    def send(self, line, **note):
        resp = self.h.ask(line)
        self.script.append(line)
        self.out.append(resp)
        note.update(t=self.t, conn=self.conn_index, connected=self.connected, tainted=getattr(self, "tainted", False))
        self.notes.append(note)
        f, segs = resp_fields(resp)
        res = f.get("res", "")
        for c in (f.get("comps") or "").split(","):
            if c:
                self.done.add(int(c.split(":")[0]))
        if res.startswith("panic") or res == "died":
            self.dead = True
        if res.startswith("err") and line.split(" ")[0] in ("eng.open", "eng.close", "eng.data", "eng.wc", "eng.svc"):
            self.errored = True
        return f, segs

    def snap(self):
        return self.send("eng.snap", kind="snap")

    # ---- actions ----

    def user_op(self):
        r = self.rng
        k = r.choice(["pub", "pub", "pub", "pub", "sub", "unsub"])
        n = self.nuser
        to = ""
        if r.chance(0.3) or getattr(self, "force_timeout", False):
            to = f" timeout={r.choice([1, 50, 500, 5000])}"
            if self.adv and r.chance(0.1):
                to = " timeout=max"       # the largest duration the options builders accept: never expires
        if self.profile == "qos2tiny":
            k = "pub"
        if k == "pub":
            qos = r.choice([0, 1, 1, 2, 2]) if self.profile != "qos2tiny" else r.choice([1, 2, 2, 2])
            payload = bytes([n >> 8, n & 0xFF]) + bytes(r.randint(0, 255) for _ in range(r.choice([0, 3, 10, 40, 200]) if self.profile != "qos2tiny" else r.choice([0, 1, 3])))
            topic = b't/%d' % (n % 7)
            if self.profile == "mpstight":
                topic = r.choice([b"a", b"ab", b"t/%d" % (n % 3), b"topic/long/%d" % (n % 3), b"a/much/longer/topic/name/%d" % (n % 2)])
                mps = self.caps_sent.get("mps", 60) if self.connected else 60
                want = max(2, mps - r.randint(0, 12) - len(topic) - 6 + r.choice([0, 0, 0, len(topic)]))
                payload = bytes([n >> 8, n & 0xFF]) + bytes(r.randint(0, 255) for _ in range(want - 2))
            f = [f"pid=0 topic={hexs(topic)} qos={qos} retain={1 if r.chance(0.15) else 0} payload={hexs(payload)}"]
            if self.v5 and r.chance(0.3):
                f.append(f"ta={r.choice([1, 2, 3])}")
            if self.v5 and r.chance(0.2):
                f.append("up=" + hexs(b"n") + ":" + hexs(b"%d" % n))
            if self.v5 and r.chance(0.1):
                f.append("ct=" + hexs(b"text"))
            line = f"eng.pub t={self.t}{to} | publish " + " ".join(f)
        elif k == "sub":
            nf = r.choice([1, 1, 2, 3])
            f = [f"pid=0"] + [f"sub={hexs((b'f/%d/%d' % (n, i)) if i else (b'f/%d' % n))}:{r.choice([0, 1, 2])}:0:0:0" for i in range(nf)]
            if r.chance(0.1):
                f.append("sub=" + hexs(b"w/#") + ":1:0:0:0")
            line = f"eng.sub t={self.t}{to} | subscribe " + " ".join(f)
        else:
            nf = r.choice([1, 1, 2])
            f = [f"pid=0"] + [f"tf={hexs((b'f/%d/%d' % (n, i)) if i else (b'f/%d' % n))}" for i in range(nf)]
            line = f"eng.unsub t={self.t}{to} | unsubscribe " + " ".join(f)
        f2, _ = self.send(line, kind="user", op=k, index=n)
        if not f2.get("res", "").startswith("rejected"):
            self.nuser += 1

    def user_disconnect(self):
        # the clients hand a DISCONNECT to the engine only while the MQTT connection is established (`is_connection_established`)
        # and only once per connection (a second stop request finds the engine in PendingDisconnect and carries no packet);
        # other placements are not driver-producible and are left to the bounded-exhaustive correspondence runs
        if not self.broker.connack_sent or self.errored or getattr(self, "disc_conn", None) == self.conn_index:
            return self.service()
        self.disc_conn = self.conn_index
        rc = self.rng.choice([0, 0, 4, 128])
        self.send(f"eng.disc t={self.t} | disconnect rc={rc}", kind="user-disconnect")

    def open(self):
        self.conn_index += 1
        self.broker.new_connection()
        dl = self.t + self.rng.choice([1, 50, 1000, 30000, 30000, 30000, 30000])
        self.cap = self.rng.choice([4, 5, 7, 8, 12, 16, 23, 40, 64, 128, 4096, 4096])
        if self.profile == "qos2tiny":
            self.cap = self.rng.choice([4, 4, 5, 6, 7, 9, 64])
        self.buf_len = 0
        self.errored = False
        self.tainted = False
        f, _ = self.send(f"eng.open t={self.t} deadline={dl}", kind="open", deadline=dl, cap=self.cap)
        self.connected = True

    def close(self):
        self.send(f"eng.close t={self.t}", kind="close")
        self.connected = False
        self.errored = False
        self.buf_len = 0
        if not self.dead and self.rng.chance(0.5):
            self.snap()

    def service(self):
        pre = self.buf_len
        if pre > self.cap:
            pre = self.cap
        f, _ = self.send(f"eng.svc t={self.t} cap={self.cap} prefill={pre}", kind="svc")
        b = unhex(f.get("bytes", "x")) if "bytes" in f else b""
        if b:
            self.buf_len += len(b)
            pkts = self.broker.feed(b)
            self.notes[-1]["client_packets"] = pkts
        if self.snap_after_svc and self.connected:
            self.snap()

    def write_completion(self):
        self.send(f"eng.wc t={self.t}", kind="wc")
        self.buf_len = 0

    def data(self, b, label, split=True):
        """deliver server bytes, possibly split into several reads"""
        if split and len(b) > 1 and self.rng.chance(0.25):
            k = self.rng.randint(1, len(b) - 1)
            parts = [b[:k], b[k:]]
        else:
            parts = [b]
        for p in parts:
            if self.errored or self.dead:
                break
            self.send(f"eng.data t={self.t} b={hexs(p)}", kind="data", label=label)

    def deliver_connack(self):
        r = self.rng
        b = self.broker
        rc = 0 if r.chance(0.9) else r.choice([135, 136])
        sp = 1 if (b.session and rc == 0 and r.chance(0.95 if self.profile in ("backlog", "qos2tiny", "inalias") else 0.7)) else 0
        if getattr(b, "clean_start", False):
            sp = 0          # a conformant server discards the session on Clean Start
        if self.adv and r.chance(0.05):
            sp = 1
            self.tainted = True
        caps = {}
        if self.v5:
            if r.chance(0.4) or self.profile == "backlog":
                caps["rm"] = r.choice([1, 2, 3, 10]) if self.profile != "backlog" else r.choice([1, 1, 2, 3, 5])
            if r.chance(0.2):
                caps["mq"] = r.choice([0, 1])
            if r.chance(0.2):
                caps["ra"] = r.choice([0, 1])
            if r.chance(0.2):
                caps["mps"] = r.choice([20, 60, 200, 100000])
            if r.chance(0.4):
                caps["tam"] = r.choice([0, 1, 2, 10])
            if self.profile == "mpstight":
                caps["mps"] = r.randint(30, 90)
                caps["tam"] = r.choice([1, 2, 10])
            if r.chance(0.15):
                caps["wsa"] = 0
            if r.chance(0.15):
                caps["ssa"] = 0
            if r.chance(0.3):
                caps["ska"] = r.choice([0, 1, 2, 3, 5, 60]) if self.adv else r.choice([0, 2, 3, 5, 60])
            if r.chance(0.7 if self.profile == "connects" else 0.2):
                caps["acid"] = b"srv-assigned"
        self.caps_sent = caps if rc == 0 else {}
        pkt = b.connack(sp, rc, caps)
        self.data(pkt, "connack", split=True)
        self.notes[-1].update(connack=dict(sp=sp, rc=rc, caps=caps))
        if rc == 0:
            b.connack_sent = True
            if not sp:
                b.qos2_received = set()
                b.out_qos2 = {}
            b.session = True

    def deliver_response(self):
        r = self.rng
        b = self.broker
        if not b.pending:
            return False
        i = 0 if r.chance(0.7) else r.randrange(len(b.pending))
        if self.profile == "qos2tiny":
            # answer PUBLISH with PUBREC promptly but sit on the PUBCOMPs
            cand = [j for j, p in enumerate(b.pending) if p["kind"] != "pubcomp"]
            if not cand:
                if r.chance(0.8):
                    return False
            else:
                i = cand[0]
        p = b.pending.pop(i)
        k = p["kind"]
        if k in ("puback", "pubrec", "pubrel", "pubcomp"):
            rc = 0
            if self.v5 and k in ("puback", "pubrec") and r.chance(0.15):
                rc = r.choice([16, 128, 135, 151])
            pkt = b.ack(k, p["pid"], rc, props=self.v5 and r.chance(0.1))
            if k == "pubrec" and rc < 128:
                if not hasattr(b, "awaiting_pubrel"):
                    b.awaiting_pubrel = set()
                b.awaiting_pubrel.add(p["pid"])
        elif k == "suback":
            pkt = b.suback(p["pid"], [r.choice([0, 1, 2, 128]) for _ in range(p["n"])])
        elif k == "unsuback":
            pkt = b.unsuback(p["pid"], [r.choice([0, 17, 128]) for _ in range(p["n"])])
        else:
            pkt = frame(0xD0, b"")
        self.data(pkt, "ack:" + k)
        self.notes[-1].update(ack=dict(p))
        return True

    def server_publish(self):
        r = self.rng
        b = self.broker
        qos = r.choice([0, 1, 2, 2])
        pid = 0
        dup = 0
        if qos:
            if qos == 2 and b.out_qos2 and r.chance(0.4):
                pid = r.choice(list(b.out_qos2))
                dup = 1
            else:
                pid = b.next_out_pid
                b.next_out_pid = b.next_out_pid % 20 + 1
            if qos == 2:
                b.out_qos2[pid] = "sent"
        alias = None
        topic = b"in/%d" % r.randint(0, 3)
        if self.v5 and r.chance(0.6 if self.profile == "inalias" else 0.3):
            if self.adv and not (self.profile == "inalias" and r.chance(0.6)):
                # a server that is not conformant: any alias number, an alias it bound on an earlier connection, no topic
                alias = r.choice([1, 2, 3, 11] + sorted(b.old_aliases))
                if r.chance(0.4) or alias in b.old_aliases:
                    topic = b""
            elif self.client_tam > 0:
                # a conformant server: alias within the client's maximum, empty topic only for a bound alias
                alias = r.randint(1, min(self.client_tam, 3))
                if alias in b.alias_tbl and r.chance(0.5):
                    topic = b""
                else:
                    b.alias_tbl[alias] = topic
        pkt = b.publish(qos, pid, dup, topic, bytes([r.randint(0, 255) for _ in range(r.choice([0, 2, 9]))]), alias)
        self.data(pkt, "srv-publish")
        self.notes[-1].update(srv_publish=dict(qos=qos, pid=pid, dup=dup, topic=topic, alias=alias))

    def hostile(self):
        r = self.rng
        b = self.broker
        # from here on the inbound stream of this connection may be desynchronised (bytes swallowed as
        # the body of a bogus packet): expectations about later deliveries are suspended until reconnect
        was_tainted = self.tainted
        self.tainted = True
        c = r.random()
        hostile_ack = None
        early = sorted(getattr(b, "awaiting_pubrel", set()))
        if early and r.chance(0.5):
            # the PUBREL for this id has not arrived yet (it may be queued or half written): answer it anyway
            hp = r.choice(early)
            comp = r.chance(0.6)
            pkt = b.ack("pubcomp", hp) if comp else b.ack("pubrec", hp, 128 if self.v5 else 0)
            hostile_ack = {"kind": "pubcomp", "pid": hp, "hostile": True}
            self.data(pkt, "hostile:early-pubcomp")
            # a PUBCOMP (or a failing PUBREC after the successful one) before the PUBREL has left the client is a protocol
            # violation whatever the engine is doing with that PUBREL (queued, half written): it must be refused
            self.notes[-1].update(ack=hostile_ack, must_refuse=(comp or self.v5) and not was_tainted)
            return
        ackable = [x for x in b.pending if x["kind"] in ("suback", "unsuback", "puback", "pubrec", "pubcomp")]
        if ackable and r.chance(0.3):
            # an acknowledgement of the wrong type, or with the wrong number of reason codes, for an operation that IS pending
            p = r.choice(ackable)
            k, hp = p["kind"], p["pid"]
            if k == "suback":
                pkt = b.suback(hp, [0] * (p["n"] + r.choice([1, 2]))) if r.chance(0.5) else b.unsuback(hp, [0] * p["n"])
            elif k == "unsuback":
                pkt = b.suback(hp, [0] * p["n"]) if (r.chance(0.5) or not self.v5) else b.unsuback(hp, [0] * (p["n"] + 1))
            elif k == "puback":
                pkt = b.ack(r.choice(["pubrec", "pubcomp"]), hp)
            elif k == "pubrec":
                pkt = b.ack(r.choice(["puback", "pubcomp"]), hp)
            else:
                pkt = b.ack("puback", hp)
            label = "wrong-ack-for-pending"
            c = 2.0
        if c >= 2.0:
            pass
        elif c < 0.2:
            hk, hp = r.choice(["puback", "pubrec", "pubcomp"]), r.choice([1, 2, 3, 77, 65535])
            pkt = b.ack(hk, hp)
            hostile_ack = {"kind": hk, "pid": hp, "hostile": True}
            label = "unknown-or-wrong-ack"
        elif c < 0.3:
            hp = r.choice([1, 2, 3, 99])
            pkt = b.suback(hp, [0] * r.choice([0, 1, 2, 5]))
            hostile_ack = {"kind": "suback", "pid": hp, "hostile": True}
            label = "bad-suback"
        elif c < 0.4:
            pkt = b.connack(0, 0, {})
            label = "second-connack"
        elif c < 0.5:
            pkt = frame(0xD0, b"")
            label = "unsolicited-pingresp"
        elif c < 0.6:
            pkt = frame(0xE0, bytes([r.choice([0, 129, 141])])) if self.v5 else frame(0xE0, b"")
            label = "server-disconnect"
        elif c < 0.7:
            pkt = frame(0xF0, b"")
            label = "auth"
        elif c < 0.8:
            pkt = frame(r.choice([0x10, 0x82, 0xA2, 0xC0]), b"\x00\x01")
            label = "client-packet-type"
        else:
            pkt = bytes(r.randint(0, 255) for _ in range(r.randint(1, 12)))
            label = "random-bytes"
        self.data(pkt, "hostile:" + label)
        if label == "wrong-ack-for-pending" and not self.dead:
            self.snap()
        if hostile_ack:
            # by chance this may be exactly the acknowledgement a pending operation is waiting for: it was delivered
            self.notes[-1].update(ack=hostile_ack)
        if label == "second-connack":
            self.notes[-1].update(connack=dict(sp=0, rc=0, caps={}))
            if resp_fields(self.out[-1])[0].get("res") == "ok":
                b.connack_sent = True
                b.session = True

    def next_time(self):
        f, _ = self.send(f"eng.nst t={self.t}", kind="nst")
        n = f.get("next")
        return None if n in (None, "never") else int(n)

    def advance(self):
        r = self.rng
        c = r.random()
        if c < 0.5:
            self.t += r.choice([0, 0, 1, 1, 2, 5, 17, 100])
        else:
            n = self.next_time()
            if n is not None and n >= self.t:
                self.t = max(self.t, n + r.choice([-1, 0, 0, 0, 1]))
            elif c < 0.7:
                self.t += r.choice([500, 1000, 2500, 10000, 60000])

    # ---- main loop ----

    def run(self):
        r = self.rng
        self.send(self.new_line, kind="new")
        steps = 0
        while steps < self.length and not self.dead:
            steps += 1
            if r.chance(0.06):
                self.snap()
            if not self.connected:
                c = r.random()
                if c < 0.50:
                    self.open()
                elif c < 0.85:
                    self.user_op()
                elif c < 0.92:
                    self.advance()
                elif c < 0.95:
                    self.user_disconnect()
                elif c < 0.96:
                    self.send(f"eng.reset t={self.t}", kind="reset")
                    self.resets += 1
                else:
                    self.service()
                continue
            if self.errored:
                # after an error the drivers tear the connection down
                if r.chance(0.85) or not self.adv:
                    self.close()
                else:
                    self.service()
                continue
            b = self.broker
            if self.buf_len > 0 and r.chance(0.5):
                self.write_completion()
                continue
            c = r.random()
            if c < 0.27:
                self.service()
            elif c < 0.55:
                if b.connect_seen and not b.connack_sent:
                    if r.chance(0.9) or not self.adv:
                        self.deliver_connack()
                    else:
                        self.hostile()
                elif b.connack_sent:
                    if self.profile == "backlog" and r.chance(0.75):
                        self.service()          # a slow server: acknowledgements pile up
                    elif not self.deliver_response():
                        if r.chance(0.4):
                            self.server_publish()
                        else:
                            self.service()
                elif self.adv and r.chance(0.2):
                    self.deliver_connack()      # the server talks before it saw the whole CONNECT
                else:
                    self.service()
            elif c < 0.68:
                self.user_op()
            elif c < 0.74:
                if b.connack_sent:
                    self.server_publish()
                else:
                    self.service()
            elif c < 0.84:
                self.advance()
            elif c < (0.875 if self.profile != "qos2tiny" else 0.90):
                self.close()
            elif c < 0.89:
                self.user_disconnect()
            elif c < 0.93:
                if self.adv:
                    self.hostile()
                else:
                    self.advance()
            elif c < 0.95:
                if b.connack_sent and b.pending:
                    p = dict(b.pending[0])
                    self.deliver_response()
                    if self.adv and r.chance(0.5):
                        b.pending.insert(0, p)     # the same ack will be delivered twice
                        self.tainted = True        # a duplicating server: delivery expectations are suspended
                else:
                    self.advance()
            elif c < 0.955:
                self.send(f"eng.reset t={self.t}", kind="reset")
                self.resets += 1
                self.close()                        # the drivers close right after a reset
            else:
                self.service()
        if not self.dead and r.chance(0.35) and self.connected and not self.errored and self.broker.connack_sent:
            # close the client in the middle of things: a stop request whose DISCONNECT has not been flushed yet,
            # operations accepted after it, then the reset
            self.user_disconnect()
            if r.chance(0.5):
                self.cap = r.choice([4, 5, 4096])
                self.service()
            for _ in range(r.choice([1, 2, 3])):
                self.user_op()
        if not self.dead:
            self.quiesce()
        return self

    def quiesce(self):
        self.snap()
        self.send(f"eng.reset t={self.t}", kind="final-reset")
        self.snap()


class StrictWalk(Walk):
    """A driver that services the engine only when the reported service time has been reached and after
    each event it delivers, against a broker that answers everything (C08)."""

    def run(self):
        r = self.rng
        self.violations = []       # (clause, detail, step)
        self.send(self.new_line, kind="new")
        budget = r.choice([3, 6, 12, 25])
        reconnects = r.choice([0, 0, 1, 2])
        # a broker that silently drops some of its answers: every operation then carries an ack timeout, and a driver that
        # sleeps until the reported service time must still see each of them resolve (by answer or by AckTimeout)
        self.deaf = self.profile == "default" and r.chance(0.4)
        self.force_timeout = self.deaf
        # some operations submitted while offline
        for _ in range(r.choice([0, 0, 1, 3])):
            self.user_op()
            budget -= 1
        self.open()
        idle_spins = 0
        steps = 0
        last_sig = None
        while steps < self.length * 6 and not self.dead:
            steps += 1
            if self.errored:
                # a connection-level failure: the driver closes and reconnects (cooperative transport)
                self.close()
                self.t += r.choice([1, 100])
                self.open()
                continue
            b = self.broker
            if budget > 0 and r.chance(0.25):
                self.user_op()
                budget -= 1
                continue
            if reconnects > 0 and b.connack_sent and r.chance(0.03):
                reconnects -= 1
                self.close()
                self.t += r.choice([1, 100])
                self.open()
                continue
            n = self.next_time()
            if self.buf_len > 0 and (r.chance(0.6) or n is None or n > self.t):
                self.write_completion()
                continue
            if n is not None and n <= self.t:
                before = len(self.out)
                self.service()
                f, _ = resp_fields(self.out[before])
                sig = (f.get("bytes"), f.get("comps"), f.get("res"))
                if sig == ("x", "", "ok"):
                    idle_spins += 1
                    if idle_spins >= 4:
                        # 'service me now' four times in a row without output, completion or state change
                        snap1, _ = self.snap()
                        self.service()
                        snap2, _ = self.snap()
                        n2 = self.next_time()
                        if snap1 == snap2 and n2 is not None and n2 <= self.t:
                            self.violations.append(("idle-spin", "the engine keeps reporting 'service now' but service produces no output, completes nothing and changes no state", len(self.script) - 1))
                            break
                        idle_spins = 0
                else:
                    idle_spins = 0
                continue
            idle_spins = 0
            # nothing to service right now: let the broker speak
            if b.connect_seen and not b.connack_sent:
                self.deliver_connack_ok()
                continue
            if b.connack_sent and b.pending:
                if self.deaf and r.chance(0.4) and b.pending[0]["kind"] != "pingresp":
                    b.pending.pop(0)          # the answer is never sent
                    self.dropped = getattr(self, "dropped", 0) + 1
                    continue
                self.deliver_response()
                continue
            # the driver would now sleep until `n` (or forever): is there work the engine could do?
            unresolved = self.unresolved_retained()
            if self.deaf and unresolved and b.connack_sent and n is not None:
                self.t = max(self.t, n)       # sleep until the reported time
                continue
            if unresolved and b.connack_sent:
                self.violations.append(("lost-wake-up", f"operations {unresolved} are unresolved, the broker owes nothing, all writes are flushed, "
                                                        f"yet the next service time is {'never' if n is None else str(n) + ' ms'} at {self.t} ms", len(self.script) - 1))
                break
            if budget > 0:
                self.user_op()
                budget -= 1
                continue
            if n is not None and n - self.t <= 200000 and r.chance(0.3):
                self.t = n          # let a timer (keep alive) fire once in a while
                continue
            break
        if not self.dead:
            self.quiesce()
        return self

    def deliver_connack_ok(self):
        b = self.broker
        caps = {}
        r = self.rng
        if self.v5:
            if r.chance(0.5):
                caps["rm"] = r.choice([1, 2, 3, 10])
            if r.chance(0.3):
                caps["ska"] = r.choice([0, 2, 5, 60])
        sp = 1 if (b.session and not getattr(b, "clean_start", False) and r.chance(0.7)) else 0
        self.caps_sent = caps
        self.data(b.connack(sp, 0, caps), "connack", split=False)
        self.notes[-1].update(connack=dict(sp=sp, rc=0, caps=caps))
        b.connack_sent = True
        if not sp:
            b.qos2_received = set()
            b.out_qos2 = {}
        b.session = True

    def unresolved_retained(self):
        """user operations submitted and not yet resolved (everything submitted in this walk is retained or
        was failed at once by the policy, which shows up as a completion)"""
        done = self.done
        return [i for i in range(self.nuser) if i not in done]


class PlanWalk(Walk):
    """A walk that follows a plan instead of drawing its steps: operations submitted on the first connection, that connection and
    the next interrupted at a chosen stage of the traffic (an operation seated but unwritten, its packet partly written,
    written but unflushed, flushed but unanswered - before or after the first round of answers, i.e. at the PUBLISH or at
    the PUBREL stage of a QoS 2 delivery), the session resumed or lost, and a calm connection at the end against a broker that
    answers everything.  Built on the same bookkeeping as the random walks, so the correspondence and every monitor apply."""

    LASTS = [("none",), ("svc", 4096, 0, False), ("svc", 4096, 0, True), ("svc", 5, 0, False), ("svc", 7, 0, False), ("svc", 6, 4, False)]

    def __init__(self, rng, harness, plan, **kw):
        super().__init__(rng, harness, **kw)
        self.plan = plan
        v, drain = plan["v"], plan["drain"]
        self.cfg = {"v": v, "policy": plan.get("policy", "all"), "drain": drain, "pingto": 0, "resolver": "none", "rmax": 2}
        head = " ".join(f"{k}={val}" for k, val in self.cfg.items())
        co = ["ka=0", "rejoin=always", "cid=" + hexs(b"clp")]
        self.new_line = f"eng.new {head} | " + " ".join(co)
        self.ka = 0
        _ckv = parse_kv("c " + self.new_line.split(" | ", 1)[1])[1]
        self.client_tam = 0
        self.connect_kv = _ckv
        self.v5 = v == 5
        self.broker = Broker(rng, self.v5)
        self.profile = "plan"

    def plan_op(self, k):
        n = self.nuser
        if k in ("pub0", "pub1", "pub2"):
            line = f"eng.pub t={self.t} | publish pid=0 topic={hexs(b't/%d' % (n % 7))} qos={k[3]} retain=0 payload={hexs(bytes([n >> 8, n & 0xFF, 7]))}"
            op = "pub"
        elif k == "sub":
            line = f"eng.sub t={self.t} | subscribe pid=0 sub={hexs(b'f/%d' % n)}:1:0:0:0"
            op = "sub"
        else:
            line = f"eng.unsub t={self.t} | unsubscribe pid=0 tf={hexs(b'f/%d' % n)}"
            op = "unsub"
        f2, _ = self.send(line, kind="user", op=op, index=n)
        if not f2.get("res", "").startswith("rejected"):
            self.nuser += 1

    def plan_connack(self, sp):
        b = self.broker
        if getattr(b, "clean_start", False) or not b.session:
            sp = 0
        self.caps_sent = {}
        self.data(b.connack(sp, 0, {}), "connack", split=False)
        self.notes[-1].update(connack=dict(sp=sp, rc=0, caps={}))
        b.connack_sent = True
        if not sp:
            b.qos2_received = set()
            b.out_qos2 = {}
        b.session = True

    def plan_response(self):
        b = self.broker
        if not b.pending:
            return False
        p = b.pending.pop(0)
        k = p["kind"]
        if k in ("puback", "pubrec", "pubrel", "pubcomp"):
            pkt = b.ack(k, p["pid"], 0, props=False)
            if k == "pubrec":
                if not hasattr(b, "awaiting_pubrel"):
                    b.awaiting_pubrel = set()
                b.awaiting_pubrel.add(p["pid"])
        elif k == "suback":
            pkt = b.suback(p["pid"], [1] * p["n"])
        elif k == "unsuback":
            pkt = b.unsuback(p["pid"], [0] * p["n"])
        else:
            pkt = frame(0xD0, b"")
        self.data(pkt, "ack:" + k, split=False)
        self.notes[-1].update(ack=dict(p))
        return True

    def handshake(self, sp):
        self.open()
        self.cap = 4096
        self.service()
        if self.buf_len > 0:
            self.write_completion()
        if self.broker.connect_seen and not self.errored:
            self.plan_connack(sp)

    def calm_round(self):
        self.cap = 4096
        self.service()
        if self.buf_len > 0:
            self.write_completion()
        n = 0
        while self.broker.pending and not self.errored and not self.dead and n < 40:
            self.plan_response()
            n += 1

    def run(self):
        pl = self.plan
        self.send(self.new_line, kind="new")
        for k in pl.get("offline_ops", []):
            self.plan_op(k)
        first = True
        for stage in pl["stages"]:
            if self.dead:
                break
            self.handshake(stage["sp"])
            if first:
                for k in pl["ops"]:
                    self.plan_op(k)
                first = False
            for _ in range(stage["rounds"]):
                if self.errored or self.dead:
                    break
                self.calm_round()
            last = stage["last"]
            if last[0] == "svc" and not self.errored and not self.dead:
                _, cap, pre, wc = last
                self.cap = cap
                self.buf_len = pre
                self.service()
                if wc and self.buf_len > 0:       # (a driver reports a write completion only for bytes it was given)
                    self.write_completion()
            for k in stage.get("ops_before_close", []):
                self.plan_op(k)
            self.t += 1
            self.close()
            self.t += 1
        if not self.dead:
            self.handshake(pl["final_sp"])
            for _ in range(14):
                if self.errored or self.dead:
                    break
                before = len(self.out)
                self.calm_round()
                f, _ = resp_fields(self.out[before])
                if f.get("bytes", "x") == "x" and not self.broker.pending:
                    break
            self.snap()
        if not self.dead:
            self.quiesce()
        return self


def plan_matrix(tier, policies=False):
    """the plans of one tier, in a fixed order; `policies`: also the three offline-queue policies that reject something,
    with operations of every kind submitted while offline, right before the close, and in flight"""
    L = PlanWalk.LASTS
    stage1 = [(r, l) for r in (0, 1) for l in L]
    if tier == "quick":
        stage2 = [None, (0, L[3]), (0, L[5]), (0, L[1]), (1, L[5]), (1, L[2])]
        opsets = [["pub2"], ["pub1", "pub2"], ["sub", "pub2"], ["unsub", "pub1"]]
        drains = ["none"]
    else:
        stage2 = [None] + [(r, l) for r in (0, 1) for l in L]
        opsets = [["pub2"], ["pub1"], ["sub"], ["unsub"], ["pub1", "pub2"], ["sub", "pub2", "pub0"], ["pub2", "pub2", "pub1"]]
        drains = ["none", "one"]
    plans = []
    for v in (5, 311):
        for drain in drains:
            for ops in opsets:
                for s1 in stage1:
                    for s2 in stage2:
                        for final_sp in (1, 0):
                            if final_sp == 0 and (s2 is None or tier == "quick" and s1[0] == 0):
                                continue
                            stages = [{"sp": 0, "rounds": s1[0], "last": s1[1]}]
                            if s2 is not None:
                                stages.append({"sp": 1, "rounds": s2[0], "last": s2[1]})
                            plans.append({"v": v, "drain": drain, "ops": ops, "stages": stages, "final_sp": final_sp})
    if policies:
        for policy in ("acked", "qos1plus", "nothing"):
            for v in (5, 311):
                for ops in (["sub", "pub0", "pub2"], ["unsub", "pub1"]):
                    for s1 in stage1:
                        for s2 in ([None, (0, L[3])] if tier == "quick" else [None, (0, L[3]), (0, L[1]), (1, L[2])]):
                            for final_sp in (1, 0):
                                for offline in ((False, True) if tier != "quick" else (s1[0] == 0,)):
                                    stages = [{"sp": 0, "rounds": s1[0], "last": s1[1], "ops_before_close": ["pub1", "sub", "pub0"] if offline else []}]
                                    if s2 is not None:
                                        stages.append({"sp": 1, "rounds": s2[0], "last": s2[1]})
                                    plans.append({"v": v, "drain": "none", "policy": policy, "ops": ops, "stages": stages, "final_sp": final_sp,
                                                  "offline_ops": ["pub2", "unsub", "pub0"] if offline else []})
    return plans
