#!/usr/bin/env python3
"""wfscan.py [n_walks] [seed] [depth] — development tool: evaluate the model's well-formedness clauses (`eng.wf`,
Model/EngineWF.lean) on the model's state after every step of (a) engine walks of every profile, driven against the
real implementation as usual, and (b) all event sequences of a small depth over the exhaustive alphabet.  Prints, per
violated clause, the shortest script found.  Used to debug candidate invariant clauses before proving them; the proved
clauses are then re-evaluated by the checks (see suites_engine.wf_scan)."""
import sys, os, itertools
sys.path.insert(0, os.path.dirname(os.path.abspath(__file__)))
import gv
from gv import driver_batch, resp_fields
import suites_engine as S


def scan_scripts(scripts):
    """scripts: list of request lists (each starts with eng.new). Returns {clause: (len, script_prefix)}"""
    reqs, marks = [], []
    for si, sc in enumerate(scripts):
        reqs.append("session.reset")
        for li, line in enumerate(sc):
            reqs.append(line)
            if line.startswith("eng.") and not line.startswith("eng.snap") and not line.startswith("eng.wf"):
                marks.append((len(reqs), si, li))
                reqs.append("eng.wf")
    out = driver_batch(reqs)
    worst = {}
    for pos, si, li in marks:
        f, _ = resp_fields(out[pos])
        wf = f.get("wf", "?")
        if wf != "ok":
            for clause in wf.split("+"):
                cur = worst.get(clause)
                if cur is None or li + 1 < cur[0]:
                    worst[clause] = (li + 1, scripts[si][:li + 1], out[pos - 1][:300])
    return worst, len(marks)


def main():
    n = int(sys.argv[1]) if len(sys.argv) > 1 else 200
    seed = int(sys.argv[2]) if len(sys.argv) > 2 else 1
    depth = int(sys.argv[3]) if len(sys.argv) > 3 else 3
    ok, log = gv.build_harness()
    assert ok, log[-500:]
    total = {}
    steps = 0
    profiles = ["default", "backlog", "qos2tiny", "mpstight", "inalias"]
    for adv in (False, True):
        walks = S.run_walks(seed, "quick", f"wfscan{int(adv)}", n, n, adversarial=adv, replay_model=False,
                            profile=lambda i: profiles[i % len(profiles)])
        worst, k = scan_scripts([w.script for w in walks])
        steps += k
        for c, v in worst.items():
            if c not in total or v[0] < total[c][0]:
                total[c] = v
    # exhaustive short sequences
    if depth > 0:
        configs = ["eng.new v=5 policy=all | ka=60 rejoin=always cid=x63",
                   "eng.new v=5 policy=nothing drain=one retries=1 | ka=1 rejoin=post",
                   "eng.new v=311 policy=acked | ka=0 rejoin=never cid=x63"]
        A = S.ALPHABET
        for cfg in configs:
            scripts = []
            for seq in itertools.product(range(len(A)), repeat=depth):
                t = 0
                sc = [cfg]
                for a in seq:
                    ev = A[a]
                    if ev.startswith("TIME+"):
                        t += int(ev[5:])
                        sc.append(f"eng.nst t={t}")
                    else:
                        sc.append(ev.format(t=t, d=t + 30000))
                scripts.append(sc)
            worst, k = scan_scripts(scripts)
            steps += k
            for c, v in worst.items():
                if c not in total or v[0] < total[c][0]:
                    total[c] = v
    print(f"states checked: {steps}")
    if not total:
        print("all clauses hold on every state")
    for c, (l, sc, resp) in sorted(total.items()):
        print(f"--- clause {c} violated; shortest script ({l} lines):")
        for line in sc[-14:]:
            print("   ", line[:220])
        print("    # last response:", resp)


if __name__ == "__main__":
    main()
